"""L1 correspondence of coq/Model/Transfer.v with /repo/internal/transfer (and
mapper.smartMatch) through cmd/verifprobe.  Used by every check whose theorems
rely on the case transforms (C02, C03, C11, C13, C05, C15, C06)."""
import itertools

import lib

ALPHA = ["a", "b", "A", "B", "_", "1"]


def coq_str(s):
    out = []
    for ch in s:
        if ch == '"':
            out.append('""')
        else:
            out.append(ch)
    return '"' + "".join(out) + '"'


def gen_inputs(rng, n_random, maxlen):
    ins = [""]
    for L in range(1, maxlen + 1):
        for t in itertools.product(ALPHA, repeat=L):
            ins.append("".join(t))
    words = ["user", "ID", "id", "Id", "URL", "url", "name", "Name", "HTTP", "http", "x", "X", "load", "Load", "XML",
             "Xml", "json", "JSON", "v2", "2", "a", "Of", "api", "API", "_", "__", "Type", "type", "base", "Base"]
    for _ in range(n_random):
        k = rng.randint(1, 4)
        sep = rng.choice(["", "", "_", "_", "__"])
        parts = [rng.choice(words) for _ in range(k)]
        s = sep.join(parts)
        if rng.random() < 0.1:
            s = "_" + s
        if rng.random() < 0.1:
            s = s + "_"
        ins.append(s)
    return ins


def check_transfer(run, probe=None, n_random=1500, maxlen=4):
    """returns (number of calls compared, list of mismatching calls)"""
    if probe is None:
        probe = lib.build_verifprobe(run)
    if probe is None:      # hooks do not compile against this tree: L1 skipped (see lib.build_verifprobe)
        return 0, []
    ins = gen_inputs(run.rng, n_random, maxlen)
    calls = []
    for s in ins:
        for fn in ("ToPascalCase", "ToCamelCase", "ToCamelCaseGO", "FirstLowerLetter"):
            calls.append((fn, [s]))
    pairs = []
    pool = [s for s in ins if 0 < len(s) <= 8]
    for _ in range(3000):
        a = run.rng.choice(pool)
        r = run.rng.random()
        if r < 0.3:
            b = a.swapcase()
        elif r < 0.5:
            b = a.upper()
        elif r < 0.7:
            b = a[:1].lower() + a[1:]
        elif r < 0.8:
            b = a
        else:
            b = run.rng.choice(pool)
        pairs.append((a, b))
    for a, b in pairs:
        calls.append(("smartMatch", [a, b]))
    res = lib.probe_calls(probe, calls)
    tag = {"ToPascalCase": "TPascal", "ToCamelCase": "TCamel", "ToCamelCaseGO": "TCamelGO", "FirstLowerLetter": "TFirstLower"}
    terms = []
    for (fn, args), r in zip(calls, res):
        if isinstance(r[0], dict):
            terms.append("TPascal %s %s" % (coq_str(args[0]), coq_str("<<panic-or-error>>")))
        elif fn == "smartMatch":
            terms.append("TSmart %s %s %s" % (coq_str(args[0]), coq_str(args[1]), "true" if r[0] else "false"))
        else:
            terms.append("%s %s %s" % (tag[fn], coq_str(args[0]), coq_str(r[0])))
    mism = []
    shard = 3000
    import concurrent.futures as cf

    def one(k):
        part = terms[k * shard:(k + 1) * shard]
        body = ("From Coq Require Import String List NArith.\nFrom Shoot Require Import Corr.TransferCorr.\n"
                "Import ListNotations.\nLocal Open Scope string_scope.\nSet Printing Width 1000000.\nSet Printing Depth 1000000.\n"
                "Definition cases : list tcase := [\n%s\n].\nDefinition M := Eval vm_compute in tmismatches cases.\nPrint M.\n"
                % ";\n".join(part))
        out = run.coq_eval("transfer_l1_%d" % k, body)
        return [(k * shard + i, v) for i, v in lib.parse_coq_list_pairs(out, "M")]
    with cf.ThreadPoolExecutor(max_workers=8) as ex:
        for r in ex.map(one, range((len(terms) + shard - 1) // shard)):
            mism.extend(r)
    return len(calls), [{"call": calls[i], "go": res[i]} for i, _ in mism]


if __name__ == "__main__":
    import sys
    run = lib.Run("C00", "quick")
    ok, log = run.coq_make(["Corr/TransferCorr.vo"])
    assert ok, log
    n, m = check_transfer(run)
    print(n, "calls;", len(m), "mismatches")
    for x in m[:20]:
        print(x)
