"""C06 rest: each call of a generated client method sends exactly the request its directive describes.

Theorems: coq/Properties/C06.v (model coq/Model/{Directive,Rest,RestSpec}.v).
Correspondence (coq/Corr/RestCorr.v):
  L2  packages of RestClient interfaces from harness/restgen.py -> the freshly built `shoot rest` ->
      one `go build` of a driver that calls every generated method with generated argument values
      against a recording httptest server (+ a recording RoundTripper for the context) -> per call:
      verb, decoded path, sorted decoded query pairs, headers, body bytes, context identity,
      cancellation, number of requests -> compared inside Coq with the model AND with the
      declarative spec (the boolean property).
  L1  the directive parsers of Model/Directive.v against the real regex-based ones (cmd/verifprobe),
      well-formed and malformed input; skipped (recorded) when the hooks do not compile.
  L0  the standard-library instances used for the comparison (JoinPath+decoding, canonical header
      keys, %v of integers) against the real functions (harness/go/cmd/restprobe).
"""
import concurrent.futures as cf
import json
import re

import lib
import l2
import restgen as rg

import os
import threading

PROP_FILE = "Properties/C06.v"
CORR_FILES = ["Corr/RestCorr.v"]
WORKERS = 6
SEM = threading.BoundedSemaphore(WORKERS)      # at most 6 child processes of this check at any time

HEADER = ("From Coq Require Import List ZArith NArith String.\n"
          "From Shoot Require Import Model.Directive Model.Rest Model.RestSpec Corr.RestCorr.\n"
          "Import ListNotations.\nLocal Open Scope string_scope.\n"
          "Set Printing Width 1000000.\nSet Printing Depth 1000000.\n")


# ------------------------------------------------------------------ L1 / L0
RE_REQ = re.compile(r'(?im)^shoot:\W+(get|post|put|patch|delete)\((.*)\)\W*;?\W*$', re.ASCII)
GO_SPACE = " \t\n\v\f\r"
TOKS = ["shoot:", "shoot: ", " ", "  ", "\n", "\t", "{", "}", ":", ",", ";", "(", ")", '"', "/", "alias=", " alias=",
        "headers=", " headers=", "get", "Post", "PUT", "delete", "patch", "-", "|", "a", "id", "X-Api", "_", "=", "{id}",
        "{a:b}", "{k: v}", "users", ".", "*", "Shoot:", "shoot", "\n\n", "`", 'shoot:"alias=x"', 'json:"n"', "alias=(", "\\"]


def fatal_path(doc):
    """would parsePath call logx.Fatalf (= os.Exit in the probe)?  only used to keep such inputs away from the probe"""
    m = RE_REQ.search(doc)
    if not m:
        return False
    p = m.group(2).strip(GO_SPACE)
    return re.fullmatch(r'("[^"]+"|[^"]+)', p) is None


def gen_l1_inputs(run, pkgs, n_malformed):
    rng = run.rng
    docs, hdocs, tags, kvs = [], [], [], []
    for pkg in pkgs:
        for st in pkg["structs"] + [x for q in rg.helpers(pkg) for x in q["structs"]]:
            for f in st["fields"]:
                t = []
                if f["json"]:
                    t.append('json:"%s"' % f["json"])
                if f["alias"]:
                    t.append('shoot:"%salias=%s%s"' % (f.get("tagpre", ""), f["alias"], f.get("tagpost", "")))
                if t:
                    tags.append("`" + " ".join(t) + "`")
        for ifc in pkg["ifaces"]:
            if ifc["hdr_line"]:
                hdocs.append(ifc["hdr_line"] + "\n")
            for m in ifc["methods"]:
                docs.append("\n".join(rg.doc_text_lines(m["doc_lines"])) + "\n")
    wf = {"docs": set(docs), "hdocs": set(hdocs), "tags": set(tags)}
    for d in list(docs[:200]):
        # single-edit mutants of well-formed comments
        for _ in range(2):
            i = rng.randrange(len(d) + 1)
            r = rng.random()
            if r < 0.4:
                docs.append(d[:i] + rng.choice(TOKS) + d[i:])
            elif r < 0.8 and len(d) > 1:
                j = min(len(d), i + rng.randint(1, 3))
                docs.append(d[:i] + d[j:])
            else:
                docs.append(d[:i] + rng.choice(TOKS) + d[i + 1:])
    for _ in range(n_malformed):
        s = "".join(rng.choice(TOKS) for _ in range(rng.randint(1, 12)))
        r = rng.random()
        if r < 0.4:
            docs.append(s)
        elif r < 0.6:
            hdocs.append(s)
        elif r < 0.8:
            kvs.append(s)
        else:
            tags.append(s)
    for d in docs[:300]:
        hdocs.append(d)
        kvs.append(d)
    for _ in range(40):
        # repeated keys inside one directive: the last entry wins
        ks = [rng.choice(["a", "b", "X-Api", "id"]) for _ in range(rng.randint(2, 4))]
        body = rng.choice([",", ", ", ""]).join("{%s:%s}" % (k, rng.choice(["x", "y", "z1", "w w"])) for k in ks)
        docs.append("shoot: Get(/p)\nshoot: alias=" + body + "\n")
        hdocs.append("shoot: headers=" + body + "\n")
        kvs.append(body)
    tags += ['`shoot:"alias=a_b" json:"x"`', '`json:"x,omitempty" shoot:"alias=Z9"`', "`shoot:\"alias=\"`", "``", "`shoot:\"x\"`",
             '`shoot:"alias=a-b"`', '`a:"b" shoot:"alias=q"`', '`shoot: "alias=q"`', '` shoot:"alias=sp"`']
    return docs, hdocs, tags, kvs, wf


def coq_path_result(r):
    verb, path, params, ok = r
    if not ok:
        return "PathNone"
    return "PathOk %s %s %s" % (rg.coq_str(verb), rg.coq_str(path), rg.coq_list(rg.coq_str(p) for p in (params or [])))


def coq_shards(run, tag, rendered, fn, ctype, shard=300, pre=""):
    def one(k):
        lo = k * shard
        body = (HEADER + pre + "Definition cases : list %s := [\n%s\n].\n"
                "Definition M := Eval vm_compute in %s cases.\nPrint M.\n"
                % (ctype, ";\n".join(rendered[lo:lo + shard]), fn))
        with SEM:
            out = run.coq_eval("%s_%d" % (tag, k), body)
        return [(lo + i, v) for i, v in lib.parse_coq_list_pairs(out, "M")]
    res = []
    n = (len(rendered) + shard - 1) // shard
    with cf.ThreadPoolExecutor(max_workers=WORKERS) as ex:
        for r in ex.map(one, range(n)):
            res.extend(r)
    return res


DEAD = {"dead": True}


def probe_calls_robust(probe, calls):
    """like lib.probe_calls, but a call on which the probe process dies (logx.Fatalf = os.Exit(1) inside the
    probed function) yields DEAD instead of breaking the check: the failing call is isolated by bisection"""
    if probe is None:
        return None

    def run_chunk(chunk):
        inp = "".join(fn + "".join("\t" + lib.go_quote(a) for a in args) + "\n" for fn, args in chunk)
        rc, out, err = lib.sh([str(probe)], input=inp, timeout=600)
        if rc == 0:
            res = [json.loads(l) for l in out.splitlines()]
            if len(res) == len(chunk):
                return res
            raise lib.CheckBroken("verifprobe: %d results for %d calls" % (len(res), len(chunk)))
        if len(chunk) == 1:
            return [dict(DEAD, stderr=err[-300:])]
        h = len(chunk) // 2
        return run_chunk(chunk[:h]) + run_chunk(chunk[h:])
    res = []
    for k in range(0, len(calls), 400):
        res.extend(run_chunk(calls[k:k + 400]))
    return res


def check_l1(run, probe, pkgs):
    """returns (calls compared, mismatching calls) ; (0, []) with run.l1_skipped set when the probe is unavailable"""
    docs, hdocs, tags, kvs, wf = gen_l1_inputs(run, pkgs, 4000 if run.thorough() else 900)
    calls = []
    for d in docs:
        if not fatal_path(d):
            calls.append(("parsePath", [d]))
        calls.append(("parseAlias", [d]))
    for d in hdocs:
        calls.append(("parseHeaders", [d]))
    for s in kvs:
        calls.append(("parseKV", [s]))
    for t in tags:
        if "\\" not in t:               # strconv.Unquote escapes are outside the modelled tag alphabet
            calls.append(("parseFieldAlias", [t]))
    res = probe_calls_robust(probe, calls)
    if res is None:
        return 0, []
    terms = []
    for (fn, args), r in zip(calls, res):
        a = rg.coq_str(args[0])
        if isinstance(r, dict) and r.get("dead"):
            # the real function called logx.Fatalf where the filter (and, if the model agrees, the model) saw no reason to
            terms.append("DPath %s (PathFatal %s)" % (a, rg.coq_str("<<process exit in the implementation>>")))
        elif isinstance(r[0], dict) and ("panic" in r[0] or "error" in r[0]) and fn != "parseKV" and fn not in ("parseAlias", "parseHeaders"):
            terms.append("DFieldAlias %s %s" % (a, rg.coq_str("<<probe error>>")))
        elif fn == "parsePath":
            terms.append("DPath %s (%s)" % (a, coq_path_result(r)))
        elif fn == "parseFieldAlias":
            terms.append("DFieldAlias %s %s" % (a, rg.coq_str(r[0])))
        else:
            ctor = {"parseKV": "DKV", "parseAlias": "DAlias", "parseHeaders": "DHeaders"}[fn]
            terms.append("%s %s %s" % (ctor, a, rg.coq_pairs(sorted((r[0] or {}).items()))))
    mism = coq_shards(run, "c06l1", terms, "dmismatches", "dcase", shard=600)

    def in_grammar(call):
        fn, args = call
        return ((fn in ("parsePath", "parseAlias") and args[0] in wf["docs"]) or (fn == "parseHeaders" and args[0] in wf["hdocs"])
                or (fn == "parseFieldAlias" and args[0] in wf["tags"]))
    all_m = [{"call": calls[i], "go": res[i], "in_grammar": in_grammar(calls[i])} for i, _ in mism]
    return len(calls), all_m


def check_std(run, restprobe):
    rng = run.rng
    calls = []
    for _ in range(1500 if run.thorough() else 400):
        base = rng.choice(rg.BASE_PATHS)
        n = rng.randint(0, 4)
        p = "".join(rng.choice(["/", "/", "a", "b c", "..", ".", "//", "x?y", "#", "é", "~", ";", "a+b", "{", "}", ":", "@", "", "users",
                                "(1)", "&", "=", "!$'*,", "中", "/./", "/../"]) for _ in range(n))
        calls.append(("join", [base, p]))
    for b in rg.BASE_PATHS:
        for p in rg.STR_SAFE + ["/" + s for s in rg.STR_SAFE] + ["/users/" + s + "/x" for s in rg.STR_SAFE]:
            calls.append(("join", [b, p]))
    for k in rg.HDR_KEYS + ["a", "A-b-C", "x--y", "-", "CONTENT-TYPE", "a1-b2", "x|y-z|w", "_a-_b", "etag", "X-A|B"]:
        calls.append(("canon", [k]))
    for z in sorted({v for l in rg.INTS.values() for v in l} | {-7, 10, 100, 999999999999}):
        if -2 ** 63 <= z < 2 ** 63:
            calls.append(("fmtint", [str(z)]))
    inp = "".join(fn + "".join("\t" + lib.go_quote(a) for a in args) + "\n" for fn, args in calls)
    rc, out, err = lib.sh([str(restprobe)], input=inp, timeout=300)
    res = [json.loads(l) for l in out.splitlines()]
    if rc != 0 or len(res) != len(calls):
        raise lib.CheckBroken("restprobe failed: rc=%s %s" % (rc, err[-1500:]))
    terms = []
    for (fn, args), r in zip(calls, res):
        if isinstance(r, dict):
            r = "<<error: %s>>" % r.get("error")
        if fn == "join":
            terms.append("SJoin %s %s %s" % (rg.coq_str(args[0]), rg.coq_str(args[1]), rg.coq_str(r)))
        elif fn == "canon":
            terms.append("SCanon %s %s" % (rg.coq_str(args[0]), rg.coq_str(r)))
        else:
            terms.append("SFmtInt (%s)%%Z %s" % (args[0], rg.coq_str(r)))
    mism = coq_shards(run, "c06std", terms, "smismatches", "scase", shard=800)
    return len(calls), [{"call": calls[i], "go": res[i]} for i, _ in mism]


# ------------------------------------------------------------------------ L2
def gen_packages(run):
    rng = run.rng
    n = 150 if run.thorough() else 18
    pkgs = []
    for i in range(n):
        if i == 2:
            # the combinations a random draw may miss (same-named structs of three packages, getter-backed fields of
            # qualified structs on GET/DELETE, by value and by pointer)
            pkgs.append(rg.gen_coverage_pkg(rng, "p%03d" % i))
            continue
        # the first packages start their interfaces with one method per verb, so that every run covers all verbs
        verbs = rg.VERBS if i < 2 else None
        pkgs.append(rg.gen_iface_pkg(rng, "p%03d" % i, n_ifaces=rng.randint(1, 3),
                                     methods_per_iface=(5, 5) if verbs else (1, 4), verbs=verbs,
                                     with_qual=(True if i % 4 == 1 else None)))
    return pkgs


def run_shoot_all(run, shoot, mod, pkgs):
    def one(pkg):
        types = ",".join(i["name"] for i in pkg["ifaces"])
        with SEM:
            return l2.run_shoot(shoot, mod / pkg["name"], ["rest", "-type=" + types], timeout=90)
    with cf.ThreadPoolExecutor(max_workers=WORKERS) as ex:
        return list(ex.map(one, pkgs))


def base_url_suffix(b):
    """(path, query pairs) -> what is appended to the server URL"""
    import urllib.parse
    path, q = b[0], b[1]
    return path + (("?" + urllib.parse.urlencode(q)) if q else "")


def build_cases(run, pkgs):
    rng = run.rng
    per_method = 8 if run.thorough() else 5
    clients, cases = [], []
    for pkg in pkgs:
        for ifc in pkg["ifaces"]:
            bases = rng.sample(rg.BASES, 2)
            cvars = []
            for b in bases:
                v = "c%d" % len(clients)
                clients.append((v, pkg["name"], ifc["name"], base_url_suffix(b)))
                cvars.append((v, b))
            for m in ifc["methods"]:
                for _ in range(per_method):
                    v, b = rng.choice(cvars)
                    cid = len(cases)
                    args = rg.gen_args(rng, m, pkg, cid)
                    cases.append({"id": cid, "client": v, "base": b, "pkg": pkg, "iface": ifc, "method": m, "args": args})
                # inputs on which an open finding applies: compared with the faithful model only (and only while the
                # finding reproduces on its witness)
                holes = {t[1] for t in m["toks"] if t[0] == "hole"}
                hole_params = {rg.resolve(m, h) for h in holes}
                if m["verb"] not in rg.BODY_VERBS and any(p["kind"] == "struct" and p["ptr"] for p in m["params"]):
                    v, b = rng.choice(cvars)
                    cid = len(cases)
                    args = rg.gen_args(rng, m, pkg, cid, allow_nil_struct_on_query=True, force_nil_struct=True)
                    cases.append({"id": cid, "client": v, "base": b, "pkg": pkg, "iface": ifc, "method": m, "args": args,
                                  "model_only": "K_rest_nil_struct_ptr"})
                if any(p["kind"] == "scalar" and p["name"] in hole_params and rg.scalar_base(p["gotype"]) in ("string", "Status")
                       for p in m["params"]):
                    v, b = rng.choice(cvars)
                    cid = len(cases)
                    args = rg.gen_args(rng, m, pkg, cid, brace_path=True)
                    if any(a[0] == "str" and "{" in a[1] for k, a in args.items() if k in hole_params):
                        cases.append({"id": cid, "client": v, "base": b, "pkg": pkg, "iface": ifc, "method": m, "args": args,
                                      "model_only": "K_rest_subst_rescan"})
                    # texts url.JoinPath cleans or drops (the argument is not url.PathEscape'd)
                    v, b = rng.choice(cvars)
                    cid = len(cases)
                    args = rg.gen_args(rng, m, pkg, cid, unsafe_path=True)
                    if any(a[0] == "str" and a[1] in rg.STR_PATH_UNSAFE for k, a in args.items() if k in hole_params):
                        cases.append({"id": cid, "client": v, "base": b, "pkg": pkg, "iface": ifc, "method": m, "args": args,
                                      "model_only": "K_rest_path_percent"})
    return clients, cases


def coq_case(c, o, prefix):
    pkg, ifc, m = c["pkg"], c["iface"], c["method"]
    js = o.get("json") or {}
    return ("{| c_env := E_%s_%s; c_iface := I_%s_%s; c_method := %s; c_mspec := S_%s_%s_%s; c_hdr := H_%s_%s; c_base := %s; "
            "c_base_query := %s; c_args := %s; c_json := %s; c_obs := %s |}"
            % (prefix, ifc["name"], prefix, ifc["name"], rg.coq_str(m["name"]), prefix, ifc["name"], m["name"], prefix, ifc["name"],
               rg.coq_str(c["base"][0]), rg.coq_pairs(c["base"][1]), rg.coq_args(c["args"], m, pkg),
               rg.coq_pairs(sorted(js.items())), rg.coq_obs(o)))


def read_asts(run, restast, mod, pkgs):
    """{package name: what go/parser reads in the rendered sources} (harness/go/cmd/restast)"""
    args = []
    for p in pkgs:
        a = str(mod / p["name"])
        for q in rg.helpers(p):
            a += ",%s=%s" % (q["name"], mod / q["name"])
        args.append(a)
    rc, out, err = lib.sh([str(restast)] + args, timeout=300)
    res = [json.loads(l) for l in out.splitlines() if l.strip()]
    if rc != 0 or len(res) != len(pkgs) or any(r.get("error") for r in res):
        raise lib.CheckBroken("restast failed: rc=%s %s %s" % (rc, err[-800:], [r.get("error") for r in res if r.get("error")][:2]))
    return {p["name"]: r for p, r in zip(pkgs, res)}


ASTS = {}


def eval_cases(run, tag, cases, obs, fn="mismatches"):
    """cases grouped by package so that each shard carries the definitions it needs"""
    bypkg = {}
    for c, o in zip(cases, obs):
        bypkg.setdefault(c["pkg"]["name"], []).append((c, o))
    shards, cur, cur_n = [], [], 0
    for name, lst in bypkg.items():
        cur.append((name, lst))
        cur_n += len(lst)
        if cur_n >= 250:
            shards.append(cur)
            cur, cur_n = [], 0
    if cur:
        shards.append(cur)

    def one(k):
        defs, terms, ids = [], [], []
        for name, lst in shards[k]:
            defs.append(rg.render_coq_pkg(lst[0][0]["pkg"], name, ASTS.get(name)))
            for c, o in lst:
                terms.append(coq_case(c, o, name))
                ids.append(c["id"])
        body = (HEADER + "\n".join(defs) + "\nDefinition cases : list ccase := [\n%s\n].\n"
                "Definition M := Eval vm_compute in %s cases.\nPrint M.\n" % (";\n".join(terms), fn))
        with SEM:
            out = run.coq_eval("%s_%d" % (tag, k), body)
        return [(ids[i], v, terms[i]) for i, v in lib.parse_coq_list_pairs(out, "M")]
    res = []
    with cf.ThreadPoolExecutor(max_workers=WORKERS) as ex:
        for r in ex.map(one, range(len(shards))):
            res.extend(r)
    return res


def run_driver(run, mod, name, clients, cases):
    src = rg.render_driver(mod.name, clients, [(c["id"], c["client"], c["method"], c["pkg"], c["args"]) for c in cases])
    l2.write_files(mod, {"cmd/%s/main.go" % name: src})
    drv = run.scratch / "bin" / name
    ok, err = l2.go_build_bin(mod, "./cmd/" + name, drv)
    if not ok:
        return None, err
    rc, out, err = lib.sh([str(drv)], timeout=1200)
    lines = [json.loads(x) for x in out.splitlines() if x.strip()]
    if rc != 0 or len(lines) != len(cases):
        raise lib.CheckBroken("c06 driver: rc=%s, %d results for %d cases: %s" % (rc, len(lines), len(cases), err[-2000:]))
    byid = {o["id"]: o for o in lines}
    return [byid[c["id"]] for c in cases], ""


def case_summary(c, o):
    m = c["method"]
    return {"package": c["pkg"]["name"], "interface": c["iface"]["name"], "method": m["name"], "verb": m["verb"],
            "doc": m["doc_lines"], "headers_directive": c["iface"]["hdr_line"],
            "params": [(p["name"], rg.param_go_type(p, c["pkg"])) for p in m["params"]],
            "base_path": c["base"][0], "base_query": c["base"][1], "args": {k: list(v) if isinstance(v, tuple) else v for k, v in c["args"].items()},
            "observed": o}


CANON_VERB = re.compile(r'^shoot: (Get|GET|get|Post|POST|post|Put|PUT|put|Patch|PATCH|patch|Delete|DELETE|delete)\(("?)[^"\n]+\2\)$')
CANON_ALIAS = re.compile(r'^shoot: alias=\{[^{}:,; ]+:[^{}; ]+\}(,\{[^{}:,; ]+:[^{}; ]+\})*$')


def canonical_comment(lines):
    """is the doc comment in the canonical form of Proofs/RestParse.v (canonical_doc)?  (measured on the rendered text)"""
    ls = [l.rstrip() for l in lines]
    if len(ls) == 1:
        return bool(CANON_VERB.match(ls[0])) and "alias=" not in ls[0]
    return len(ls) == 2 and bool(CANON_VERB.match(ls[0])) and "alias=" not in ls[0] and bool(CANON_ALIAS.match(ls[1]))


def feature_counters(cases, obs):
    f = {"verbs": {}, "outcomes": {}, "placeholders": {}, "with_ctx": 0, "without_ctx": 0, "cancelled_ctx": 0,
         "alias_in_path": 0, "alias_in_query": 0, "ptr_scalar_nil": 0, "ptr_scalar_set": 0, "struct_value": 0,
         "struct_pointer": 0, "struct_nil_body": 0, "qualified_struct": 0, "map_param": 0, "map_nil": 0,
         "map_overrides_declared_key": 0, "field_alias": 0, "field_ptr_nil": 0, "field_getter": 0,
         "iface_headers": 0, "quoted_path": 0, "unquoted_path": 0, "path_arg_needing_escape": 0, "base_url_with_query": 0, "result_shapes": {},
         "canonical_doc_comments": 0}
    for c, o in zip(cases, obs):
        m, a = c["method"], c["args"]
        f["verbs"][m["verb"]] = f["verbs"].get(m["verb"], 0) + 1
        f["outcomes"][o.get("out")] = f["outcomes"].get(o.get("out"), 0) + 1
        nh = sum(1 for t in m["toks"] if t[0] == "hole")
        f["placeholders"][str(nh)] = f["placeholders"].get(str(nh), 0) + 1
        f["result_shapes"][m["result"]] = f["result_shapes"].get(m["result"], 0) + 1
        holes = {t[1] for t in m["toks"] if t[0] == "hole"}
        if any(al in holes for _, al in m["alias"]):
            f["alias_in_path"] += 1
        if any(al not in holes for _, al in m["alias"]):
            f["alias_in_query"] += 1
        if c["iface"]["hdr_line"]:
            f["iface_headers"] += 1
        if c["base"][1]:
            f["base_url_with_query"] += 1
        if canonical_comment(m["doc_lines"]):
            f["canonical_doc_comments"] += 1
        if any('"' in l for l in m["doc_lines"] if "(" in l):
            f["quoted_path"] += 1
        else:
            f["unquoted_path"] += 1
        hasctx = False
        for p in m["params"]:
            v = a[p["name"]]
            if p["kind"] == "ctx":
                hasctx = True
                if v[0] == "ctxnil":
                    f["nil_ctx"] = f.get("nil_ctx", 0) + 1
                elif v[2]:
                    f["cancelled_ctx"] += 1
            elif p["kind"] == "scalar" and p["ptr"]:
                f["ptr_scalar_nil" if v[1] is None else "ptr_scalar_set"] += 1
            elif p["kind"] == "scalar" and v[0] == "str" and p["name"] in {rg.resolve(m, h) for h in holes}:
                if re.search(r"[^A-Za-z0-9._~-]", v[1]):
                    f["path_arg_needing_escape"] += 1        # inside one segment: space ? # & = + non-ASCII quote backslash ...
            if p["kind"] == "scalar" and p.get("qscalar"):
                f["qualified_scalar"] = f.get("qualified_scalar", 0) + 1
            elif p["kind"] == "struct":
                if p["qual"]:
                    f["qualified_struct"] += 1
                    if m["verb"] not in rg.BODY_VERBS and v[1] is not None and \
                            any(not n[0].isupper() for _, n in rg.flat_fields(rg.struct_of(c["pkg"], p))):
                        key = "qualified_struct_getter_fields_in_query_" + ("ptr" if p["ptr"] else "value")
                        f[key] = f.get(key, 0) + 1
                if v[1] is None:
                    f["struct_nil_body"] += 1
                else:
                    f["struct_pointer" if p["ptr"] else "struct_value"] += 1
                    st = rg.struct_of(c["pkg"], p)
                    for fd, n in rg.flat_fields(st):
                        if fd["alias"]:
                            f["field_alias"] += 1
                        if not n[0].isupper():
                            f["field_getter"] += 1
                        if fd["ptr"] and v[1][n][1] is None:
                            f["field_ptr_nil"] += 1
            elif p["kind"] == "map":
                f["map_param"] += 1
                if v[1] is None:
                    f["map_nil"] += 1
                elif set(k for k, _ in v[1]) & set(rg.static_query_keys(m, c["pkg"])):
                    f["map_overrides_declared_key"] += 1
        f["with_ctx" if hasctx else "without_ctx"] += 1
    return f


def nontrivial(c):
    """a case exercises at least one non-default feature of the property: a placeholder, an alias, a query
    source (scalar, pointer, struct, map), a body, or interface headers (a context alone does not count)"""
    m = c["method"]
    return bool([t for t in m["toks"] if t[0] == "hole"] or m["alias"] or c["iface"]["hdr_line"] or
                [p for p in m["params"] if p["kind"] in ("scalar", "struct", "map")])


def canon_case_key(c):
    m = c["method"]
    return json.dumps([m["verb"], m["toks"], m["alias"], [(p["name"], rg.param_go_type(p, c["pkg"])) for p in m["params"]],
                       c["iface"]["headers"], c["base"], sorted((k, str(v)) for k, v in c["args"].items() if v[0] != "ctx")],
                      sort_keys=True, default=str)


# ------------------------------------------------------------------ findings
import c06_findings as kf  # noqa: E402


def main(run):
    os.environ["GOMAXPROCS"] = str(WORKERS)          # go build -p and the Go programs of this check
    proof_ok = run.prove(PROP_FILE, CORR_FILES)
    shoot = run.build_shoot()
    restprobe = run.build_helper("restprobe")
    restast = run.build_helper("restast")
    probe = lib.build_verifprobe(run)
    mod = l2.make_module(run, "c06mod")

    pkgs = gen_packages(run)
    files = {}
    for pkg in pkgs:
        files.update(rg.render_go(pkg, mod.name))
    wit = kf.witness_packages(mod.name)
    for w in wit.values():
        files.update(w["files"])
    l2.write_files(mod, files)
    ASTS.clear()
    ASTS.update(read_asts(run, restast, mod, pkgs))
    run.log("packages: %d (+%d witness packages)" % (len(pkgs), len(wit)))

    # L0 / L1 run while shoot works
    with cf.ThreadPoolExecutor(max_workers=3) as ex:
        f_std = ex.submit(check_std, run, restprobe)
        f_l1 = ex.submit(check_l1, run, probe, pkgs)
        f_sh = ex.submit(run_shoot_all, run, shoot, mod, pkgs)
        f_wit = ex.submit(kf.run_witnesses, run, shoot, mod, wit, SEM)
        shoot_res = f_sh.result()
        wit_state = f_wit.result()
        n_std, std_mism = f_std.result()
        n_l1, l1_mism = f_l1.result()
    run.log("shoot done; L0 %d calls (%d mismatches), L1 %d calls (%d mismatches)" % (n_std, len(std_mism), n_l1, len(l1_mism)))

    def report_l01():
        for x in std_mism[:3]:
            run.violation({"kind": "correspondence-broken", "correspondence": "L0:C06:restprobe vs Corr/RestCorr.v (join_decoded/canon/dec)",
                           "call": x["call"], "go": x["go"]}, no_input=True)
        # a disagreement on a comment / tag of the grammar is reported; one on the malformed stream only (text the
    # grammar never produces) does not make the check fail: it is recorded in the evidence
    for x in [y for y in l1_mism if y["in_grammar"]][:3]:
            run.violation({"kind": "correspondence-broken", "correspondence": "L1:C06:verifprobe vs Model/Directive.v",
                           "call": x["call"], "go": x["go"],
                           "how": "printf '%s\\t%s\\n' | verifprobe   (go build -tags verif ./cmd/verifprobe)" % (x["call"][0], lib.go_quote(x["call"][1][0]))},
                          no_input=True)

    good = []
    for pkg, r in zip(pkgs, shoot_res):
        gen = list((mod / pkg["name"]).glob("*.shootrest*.go"))
        if r["rc"] != 0 or r["timed_out"] or not gen:
            run.violation({"kind": "property-fails-on-implementation",
                           "what": "shoot rest fails on an interface of the grammar: no client method can send anything",
                           "theorem": "C06_every_method_is_generated (the model generates every method of a well-formed interface)",
                           "cmd": "shoot rest -type=" + ",".join(i["name"] for i in pkg["ifaces"]),
                           "rc": r["rc"], "stderr": r["err"][-1500:], "sources": rg.render_go(pkg, mod.name)})
        else:
            good.append(pkg)
    clients, cases = build_cases(run, good)
    wclients, wcases = kf.witness_cases(wit, wit_state, len(clients), 10 ** 6)
    run.log("cases: %d (+%d witness calls)" % (len(cases), len(wcases)))
    obs, err = run_driver(run, mod, "driver", clients + wclients, cases + wcases)
    if obs is None:
        # the generated clients do not compile: find the packages at fault (concrete failing inputs)
        ok, errs = l2.go_build(mod, ["./p..."])
        bad = [p for p in good if any(k.endswith("/" + p["name"]) for k in errs)]
        for p in bad[:3]:
            run.violation({"kind": "property-fails-on-implementation",
                           "what": "the client generated for an interface of the grammar does not compile",
                           "errors": [e for k, v in errs.items() if k.endswith("/" + p["name"]) for e in v][:10],
                           "cmd": "shoot rest -type=" + ",".join(i["name"] for i in p["ifaces"]) + " ; go build",
                           "sources": rg.render_go(p, mod.name)})
        if not bad:
            raise lib.CheckBroken("go build of the C06 driver failed: " + err[-3000:])
        report_l01()
        # the findings are still measured, with a driver of the witness packages alone
        wobs2, werr = run_driver(run, mod, "wdriver", wclients, wcases) if wcases else ([], "")
        if wobs2 is not None:
            run.replay_findings(kf.handlers(run, shoot, mod, wit, wit_state, wcases, wobs2))
        return run.finish({"evaluations": 0, "distinct_nontrivial": 0, "rule": "build failed", "samples": [],
                           "traces_validated_against_impl": 0, "programs": len(pkgs)})
    wobs = obs[len(cases):]
    obs = obs[:len(cases)]
    run.log("driver done")

    outcome = run.replay_findings(kf.handlers(run, shoot, mod, wit, wit_state, wcases, wobs))

    byid = {c["id"]: (c, o) for c, o in zip(cases, obs)}
    defect_cases = [(c, o) for c, o in zip(cases, obs) if c.get("model_only")]
    main_cases = [(c, o) for c, o in zip(cases, obs) if not c.get("model_only")]
    skipped_slash = 0
    if outcome.get("K_rest_path_percent") != "buggy":
        # someone escapes path arguments now (the open finding no longer reproduces): url.JoinPath then no longer
        # cleans the slashes INSIDE an argument, which the instance join_decoded assumes; keep those cases out
        def slash_arg(c):
            m = c["method"]
            hp = {rg.resolve(m, t[1]) for t in m["toks"] if t[0] == "hole"}
            return any(v[0] == "str" and "/" in v[1] for k, v in c["args"].items() if k in hp)
        skipped_slash = sum(1 for c, _ in main_cases if slash_arg(c))
        main_cases = [(c, o) for c, o in main_cases if not slash_arg(c)]
    cases = [c for c, _ in main_cases]
    obs = [o for _, o in main_cases]
    mism = eval_cases(run, "c06", cases, obs)
    # the input classes of open findings, while the finding is present: implementation vs faithful model
    live = [(c, o) for c, o in defect_cases if outcome.get(c["model_only"]) == "buggy"]
    dmism = eval_cases(run, "c06k", [c for c, _ in live], [o for _, o in live], fn="mismatches_model_only") if live else []
    for cid, v, term in sorted(dmism)[:3]:
        c, o = byid[cid]
        run.violation({"kind": "input-class-of-known-finding-behaves-differently", "finding": c["model_only"],
                       "what": "on an input of the class of an open finding the implementation does not do what the faithful "
                               "model (which reproduces the recorded defect) predicts: not the known finding",
                       "correspondence": "L2:C06:generated client vs Model/Rest.v (cook_methods, exec)",
                       "case": case_summary(c, o), "coq_case": term,
                       "replay_input": {"pkg": c["pkg"], "iface": c["iface"]["name"], "method": c["method"]["name"],
                                        "base": c["base"], "args": c["args"], "model_only": True},
                       "sources": rg.render_go(c["pkg"], mod.name)})
    outside = [x for x in mism if x[1] == 3]
    if outside:
        c, o = byid[outside[0][0]]
        raise lib.CheckBroken("generator defect: %d cases outside the guards of the theorems, e.g. %s" %
                              (len(outside), json.dumps(case_summary(c, o), default=str)[:3000]))
    for cid, v, term in sorted(mism)[:4]:
        c, o = byid[cid]
        srcs = rg.render_go(c["pkg"], mod.name)
        gen = {p.name: p.read_text() for p in (mod / c["pkg"]["name"]).glob("*.shootrest*.go")}
        run.violation({"kind": "property-fails-on-implementation" if v == 2 else "correspondence-broken",
                       "theorem": "C06_request_is_the_declared_one / C06_declared_request_reads",
                       "correspondence": "L2:C06:generated client vs Model/Rest.v (cook_methods, exec) and Model/RestSpec.v (spec_request)",
                       "case": case_summary(c, o), "coq_case": term,
                       "replay_input": {"pkg": c["pkg"], "iface": c["iface"]["name"], "method": c["method"]["name"],
                                        "base": c["base"], "args": c["args"]},
                       "cmd": "shoot rest -type=%s ; go build ; call %s.%s against a recording server"
                              % (",".join(i["name"] for i in c["pkg"]["ifaces"]), c["iface"]["name"], c["method"]["name"]),
                       "sources": srcs, "generated": gen}, no_input=(v != 2))
    report_l01()
    if not proof_ok and not mism and not [y for y in l1_mism if y["in_grammar"]] and not std_mism:
        run.proof_failure_violation()

    feats = feature_counters(cases, obs)
    dn = len({canon_case_key(c) for c in cases if nontrivial(c)})
    nm = sum(len(i["methods"]) for p in good for i in p["ifaces"])
    cov = {
        "evaluations": len(cases) + n_l1 + n_std,
        "distinct_nontrivial": dn,
        "rule": ("L2: %d packages with 1..3 RestClient interfaces each (%d methods) from harness/restgen.py (five verbs in "
                 "varying letter case, quoted/unquoted paths with 0..3 placeholders incl. repeated ones, alias directives for "
                 "path and query names, scalar / pointer-to-scalar / same-file struct / qualified struct / pointer-to-struct / "
                 "map parameters, struct fields with alias tags, pointer fields, unexported fields with getters, multi-name "
                 "declarations, all four result shapes, optional headers= directive, methods with and without context in one "
                 "interface), each run through the freshly built `shoot rest`, compiled, and every method called %d times with "
                 "generated arguments (URL-unsafe strings, empty strings, dot segments, int extremes, nil pointers, nil/empty "
                 "maps, map keys that overwrite declared parameters, cancelled contexts) on 2 of %d base-URL paths.  "
                 "A case is non-trivial when its method has a placeholder, an alias, interface headers or a non-context parameter; "
                 "distinct = distinct (directive, parameter list, headers, base, non-context argument values).  "
                 "L1: %d parser calls (well-formed comments of the generated packages, single-edit mutants, random token "
                 "strings).  L0: %d calls of url.JoinPath/CanonicalMIMEHeaderKey/%%v against the instances used for comparing."
                 % (len(good), nm, 8 if run.thorough() else 5, len(rg.BASES), n_l1, n_std)),
        "exhaustive": False,
        "traces_validated_against_impl": len(cases),
        "programs": len(good),
        "l2_cases": len(cases), "l1_calls": n_l1, "l0_calls": n_std,
        "l1_disagreements_in_grammar": len([y for y in l1_mism if y["in_grammar"]]),
        "l1_disagreements_outside_grammar": {"count": len([y for y in l1_mism if not y["in_grammar"]]),
                                             "examples": [y for y in l1_mism if not y["in_grammar"]][:3]},
        "known_defect_class_cases": {"generated": len(defect_cases), "compared_with_faithful_model": len(live)},
        "cases_skipped_because_path_arguments_are_escaped_now": skipped_slash,
        "features": feats,
        "findings_measured": outcome,
        "samples": [case_summary(*byid[i]) for i in ([0, len(cases) // 2, len(cases) - 1] if cases else [])],
        "trusted_base": lib.TRUSTED_BASE_COMMON + TRUSTED,
    }
    return run.finish(cov, assumptions=ASSUMPTIONS)


TRUSTED = [
    "Section variables of Model/Rest.v (no laws are needed by the theorems): fmt_v (fmt %v of a scalar), join_path "
    "(url.JoinPath), json_marshal (encoding/json), encode (url.Values.Encode), url_query (query already in the base URL); "
    "for the comparison they are instantiated in Corr/RestCorr.v by fmt_std, join_decoded, the driver's own json.Marshal "
    "of the argument, and an empty base query; join_decoded/canon/dec are compared with the real functions on every run (L0)",
    "RE2 is not modelled: Model/Directive.v executes the six regular expressions of cook.go, written down literally, with a "
    "backtracking leftmost-first matcher; equivalence with Go's regexp on the directive alphabet is established by the L1 "
    "differential run only (skipped, and recorded, when the verif hooks do not compile); that the MODEL's parsers read the "
    "canonical rendering of a directive back exactly is a theorem (Proofs/RestParse.v), for the other spellings of the "
    "generator it is checked per case inside Coq",
    "text/template is not modelled: the meaning of restclient.tmpl:15-92 is given by hand as Model/Rest.v exec",
    "go/ast and parser.ParseDir enter through the env / iface records, which harness/go/cmd/restast fills by parsing the "
    "very sources shoot is run on (go/parser with comments, CommentGroup.Text for the doc text, the type declarations "
    "of the interface's file, the field declarations of every struct); go/types is replaced by syntax: context.Context "
    "is the context parameter, every other qualified name declared as a non-alias type in the helper package is a named type",
    "the getter of an unexported field returns that field; net/http delivers the request it was given (the server-side "
    "decoding of path and query is the inverse of the client-side encoding); a cancelled context makes Do fail before any "
    "request is sent",
    "reflect.StructTag.Get is modelled for the conventional key:\"value\" format without backslash escapes",
    "result-arity checks (cook.go:135-171) and the response side of the template (C10) are outside this model",
]

ASSUMPTIONS = [
    "guards of the theorems (decidable, checked on every generated case inside Coq, verdict 3 otherwise): wf_mspec, "
    "args_in_guard (incl. path_text_safe: a path argument is one non-empty non-dot segment without slash, percent sign "
    "or brace) and the link hypotheses (env_ok; parse_path/parse_alias of the doc comment give the structured "
    "directive; kind_of classifies every parameter -- the classification, the field extraction and the default header "
    "table are the model's own definitions on both sides, tied to the code by L2 only)",
    "'exactly one request' is a convention of the model (OSent r = one c.client.Do): it is established by the driver, which "
    "counts the requests the server received per call (and zero on every error return: nil context, unparsable base URL, "
    "cancelled context), not by a theorem; 'joined to the base URL' means join_path base path_ for an uninterpreted "
    "join_path in the theorems, and the plain join (base path + '/' + substituted path) in the comparison",
    "the brace guard of args_in_guard / C06_path_substitution (no '{' in a path argument) is sufficient, not necessary: "
    "only a text that completes '{h}' for a later placeholder h is substituted again; harmless brace values are sampled "
    "(they are judged against the declarative spec whenever model and spec agree on them) but not covered by the theorem",
    "open findings keep their input class out of the guards, are compared with the faithful model while they reproduce, "
    "and are replayed on every run: K_rest_ptr_map, K_rest_nil_struct_ptr, K_rest_path_percent (missing url.PathEscape), "
    "K_rest_subst_rescan (and K_rest_alias_dup, owned by C07); repaired and replayed as regressions: K_rest_ctx_global, "
    "K_rest_body_no_struct, K_rest_two_maps, K_rest_header_value_trim, K_rest_struct_other_file, K_rest_unnamed_param, "
    "K_rest_ptr_path_param, K_rest_qualified_scalar, K_rest_literal_unescaped",
    "never generated, outside the claim: embedded struct fields (the fd_names = [] branch of extractStructFields), float "
    "scalars, two struct parameters (refused as 'ambiguous body binding' even on GET), a qualified named non-struct "
    "type on POST/PUT/PATCH or a qualified named map/slice anywhere (kind KOpaque, outside wf_mspec: the generator binds "
    "it as the body), percent signs in path arguments, base URLs with escapes",
]


def replay(run, path):
    """re-run the recorded call: render the recorded package, run the freshly built shoot on it, call the
    method with the recorded arguments, compare inside Coq"""
    r = json.load(open(path))
    ri = r.get("replay_input")
    if not ri:
        print("nothing to replay (no concrete input in %s): %s" % (path, r.get("kind")))
        return 0
    run.prove(PROP_FILE, CORR_FILES)
    shoot = run.build_shoot()
    mod = l2.make_module(run, "c06mod")
    pkg = ri["pkg"]
    l2.write_files(mod, rg.render_go(pkg, mod.name))
    ASTS.clear()
    ASTS.update(read_asts(run, run.build_helper("restast"), mod, [pkg]))
    res = run_shoot_all(run, shoot, mod, [pkg])[0]
    if res["rc"] != 0:
        print("shoot rest fails on the recorded package: rc=%s %s" % (res["rc"], res["err"][-800:]))
        print("VIOLATION property=C06 replay=%s" % path)
        return 1
    ifc = next(i for i in pkg["ifaces"] if i["name"] == ri["iface"])
    m = next(x for x in ifc["methods"] if x["name"] == ri["method"])
    args = {k: tuple(v) if isinstance(v, list) else v for k, v in ri["args"].items()}
    base = (ri["base"][0], [tuple(x) for x in ri["base"][1]])
    case = {"id": 0, "client": "c0", "base": base, "pkg": pkg, "iface": ifc, "method": m, "args": args}
    obs, err = run_driver(run, mod, "driver", [("c0", pkg["name"], ifc["name"], base_url_suffix(base))], [case])
    if obs is None:
        print("the generated client does not compile:", err[-1500:])
        print("VIOLATION property=C06 replay=%s" % path)
        return 1
    mism = eval_cases(run, "c06replay", [case], obs, fn="mismatches_model_only" if ri.get("model_only") else "mismatches")
    print("observed:", json.dumps(obs[0]), "verdict:", [(i, v) for i, v, _ in mism])
    if mism:
        print("VIOLATION property=C06 replay=%s" % path)
        return 1
    return 0
