"""Spec generator, Go renderer and Coq renderer for `shoot enum` packages
(properties C04, C12, C14; reusable by other checks).

    spec = gen_enum_pkg(rng, "p001", profile="c04")     # an EnumPkg
    files = render_go(spec)                              # {file name: Go source}
    term = coq_pkg(spec)                                 # Coq term of type Enum.pkg

The grammar mirrors coq/Model/Enum.v: named integer types of the ten kinds,
const blocks of value specs (iota, iota+k, iota*m+k, k-iota, 1<<iota,
1<<(iota-1), explicit literals incl. negative and the extremes of the kind,
references to earlier constants of the block, aliases (several constants with one
value), multi-name specs, carried-down
specs, `_` placeholders, untyped interloper specs that reset the carried type,
specs of other types in the same block, specs of a non-identifier (qualified)
type and specs carried down from them), several blocks and files, prefixed / unprefixed / near-miss names,
exported and unexported types, and bit-flag enums (1..8 single bits, optional
zero, optional composites of declared bits).

Everything random comes from the rng passed in.  The Python evaluator below is
only used to steer the generation (distinct in-range values, window points,
codec inputs); it is not an oracle: the Go compiler and the Coq model evaluate
the rendered specs themselves."""

KINDS = ["int", "int8", "int16", "int32", "int64", "uint", "uint8", "uint16", "uint32", "uint64"]
KINFO = {"int": (64, True), "int8": (8, True), "int16": (16, True), "int32": (32, True), "int64": (64, True),
         "uint": (64, False), "uint8": (8, False), "uint16": (16, False), "uint32": (32, False),
         "uint64": (64, False)}
COQ_KIND = {"int": "KInt", "int8": "KInt8", "int16": "KInt16", "int32": "KInt32", "int64": "KInt64",
            "uint": "KUint", "uint8": "KUint8", "uint16": "KUint16", "uint32": "KUint32", "uint64": "KUint64"}
FOREIGN = {"time.Duration": ("int64", "time"), "os.FileMode": ("uint32", "os"), "time.Month": ("int", "time")}


def krange(kind):
    w, s = KINFO[kind]
    return (-(1 << (w - 1)), (1 << (w - 1)) - 1) if s else (0, (1 << w) - 1)


def in_range(kind, v):
    lo, hi = krange(kind)
    return lo <= v <= hi


def wrap(kind, v):
    w, s = KINFO[kind]
    m = 1 << w
    return ((v + m // 2) % m) - m // 2 if s else v % m


# ----------------------------------------------------------------- expressions
# ('iota',) ('lit', z) ('ref', name) ('add'|'sub'|'mul'|'shl'|'or', a, b)

class EvalError(Exception):
    pass


def ev(env, iota, e):
    t = e[0]
    if t == "iota":
        return iota
    if t == "lit":
        return e[1]
    if t == "ref":
        if e[1] not in env:
            raise EvalError("undefined " + e[1])
        return env[e[1]][0]
    a, b = ev(env, iota, e[1]), ev(env, iota, e[2])
    if t == "add":
        return a + b
    if t == "sub":
        return a - b
    if t == "mul":
        return a * b
    if t == "or":
        return a | b
    if t == "shl":
        if b < 0 or b > 200:
            raise EvalError("shift")
        return a << b
    raise EvalError(t)


def etype(env, e):
    t = e[0]
    if t in ("iota", "lit"):
        return None
    if t == "ref":
        return env[e[1]][1] if e[1] in env else None
    if t == "shl":
        return etype(env, e[1])
    return etype(env, e[1]) or etype(env, e[2])


GO_OP = {"add": "+", "sub": "-", "mul": "*", "shl": "<<", "or": "|"}
COQ_OP = {"add": "EAdd", "sub": "ESub", "mul": "EMul", "shl": "EShl", "or": "EOr"}


def go_expr(e, nested=False):
    t = e[0]
    if t == "iota":
        return "iota"
    if t == "lit":
        s = str(e[1])
        return "(%s)" % s if (nested and e[1] < 0) else s
    if t == "ref":
        return e[1]
    s = "%s %s %s" % (go_expr(e[1], True), GO_OP[t], go_expr(e[2], True))
    return "(%s)" % s if nested else s


def coq_z(z):
    return "(%d)" % z if z < 0 else "%d" % z


def coq_str(s):
    assert all(32 <= ord(c) < 127 for c in s), repr(s)
    return '"' + s.replace('"', '""') + '"'


def coq_expr(e):
    t = e[0]
    if t == "iota":
        return "EIota"
    if t == "lit":
        return "(ELit %s)" % coq_z(e[1])
    if t == "ref":
        return "(ERef %s)" % coq_str(e[1])
    return "(%s %s %s)" % (COQ_OP[t], coq_expr(e[1]), coq_expr(e[2]))


# ------------------------------------------------------------------------ spec

class VSpec:
    """names (possibly '_'), vtype None | ('ident', T) | ('foreign', 'time.Duration'), vals [] = carried down"""

    def __init__(self, names, vtype, vals):
        self.names, self.vtype, self.vals = list(names), vtype, list(vals)

    def clone(self):
        return VSpec(self.names, self.vtype, self.vals)


class Block:
    def __init__(self, specs, paren=True):
        self.specs, self.paren = specs, paren

    def clone(self):
        return Block([s.clone() for s in self.specs], self.paren)


class GoFile:
    """items: ('type', name, kind) | ('const', Block) | ('comment', text)"""

    def __init__(self, name):
        self.name, self.items = name, []

    def blocks(self):
        return [it[1] for it in self.items if it[0] == "const"]

    def clone(self):
        f = GoFile(self.name)
        f.items = [("const", it[1].clone()) if it[0] == "const" else it for it in self.items]
        return f


class Target:
    """one type for which `shoot enum` output is generated and observed"""

    def __init__(self, tname, kind, flags, bitgrammar=False):
        self.tname, self.kind, self.flags, self.bitgrammar = tname, kind, dict(flags), bitgrammar

    def flag_args(self):
        return ["-" + f for f in ("bit", "json", "text", "sql", "gorm") if self.flags.get(f)]


class EnumPkg:
    def __init__(self, name):
        self.name = name
        self.types = []        # [(name, kind)]
        self.files = []        # [GoFile] sorted by name
        self.targets = []      # [Target]
        self.runs = []         # [(args, [type names])]   shoot command lines (without the binary)
        self.features = set()

    def clone(self):
        p = EnumPkg(self.name)
        p.types = list(self.types)
        p.files = [f.clone() for f in self.files]
        p.targets = self.targets
        p.runs = self.runs
        p.features = set(self.features)
        return p

    def kind_of(self, t):
        return dict(self.types)[t]

    def all_blocks(self):
        return [b for f in sorted(self.files, key=lambda f: f.name) for b in f.blocks()]

    # ---- Python mirror of const_env (Go's implicit repetition) -------------
    def const_env(self):
        """[(name, value, ctype)] in declaration order; ctype None | ('named',T) | ('foreign', kind).
        raises EvalError if something would not compile"""
        env, out = {}, []
        for b in self.all_blocks():
            last = (None, [])
            for iota, s in enumerate(b.specs):
                cur = (s.vtype, s.vals) if s.vals else last
                if s.vals and len(s.vals) != len(s.names):
                    raise EvalError("arity")
                if not s.vals and (s.vtype is not None or len(cur[1]) != len(s.names)):
                    raise EvalError("shape")
                last = cur
                new = []
                for n, e in zip(s.names, cur[1]):
                    v = ev(env, iota, e)
                    if cur[0] is None:
                        ct = etype(env, e)
                    elif cur[0][0] == "ident":
                        ct = ("named", cur[0][1])
                    else:
                        ct = ("foreign", FOREIGN[cur[0][1]][0])
                    k = None if ct is None else (self.kind_of(ct[1]) if ct[0] == "named" else ct[1])
                    if k is not None and not in_range(k, v):
                        raise EvalError("overflow %s=%d" % (n, v))
                    if k is None and not (-(1 << 62) < v < (1 << 62)):
                        raise EvalError("untyped too large")
                    if n != "_":
                        new.append((n, v, ct))
                for n, v, ct in new:
                    if n in env:
                        raise EvalError("redeclared " + n)
                    env[n] = (v, ct)
                    out.append((n, v, ct))
        return out

    def declared(self, T):
        return [(n, v) for n, v, ct in self.const_env() if ct == ("named", T)]

    def collected(self, T):
        """Python mirror of the literal carry-down walk (names only)"""
        res = []
        for b in self.all_blocks():
            typ = ""
            for s in b.specs:
                if s.vtype is None and s.vals:
                    typ = ""
                    continue
                if s.vtype is not None:
                    if s.vtype[0] != "ident":
                        typ = ""          # a qualified type resets the remembered type (K_enum_foreign_carry repaired)
                        continue
                    typ = s.vtype[1]
                if typ != T:
                    continue
                res.extend(n for n in s.names if n != "_")
        return res


def trim(name, T):
    return name[len(T):] if name.startswith(T) else name


# ------------------------------------------------------------------- rendering

def render_block(b):
    def line(s):
        txt = ", ".join(s.names)
        if s.vtype is not None:
            txt += " " + s.vtype[1]
        if s.vals:
            txt += " = " + ", ".join(go_expr(e) for e in s.vals)
        return txt
    if not b.paren and len(b.specs) == 1:
        return "const " + line(b.specs[0]) + "\n"
    return "const (\n" + "".join("\t" + line(s) + "\n" for s in b.specs) + ")\n"


def render_file(pkgname, f):
    imports = set()
    for b in f.blocks():
        for s in b.specs:
            if s.vtype is not None and s.vtype[0] == "foreign":
                imports.add(FOREIGN[s.vtype[1]][1])
    out = ["package %s\n" % pkgname]
    for im in sorted(imports):
        out.append('import "%s"\n' % im)
    for it in f.items:
        if it[0] == "type":
            out.append("type %s %s\n" % (it[1], it[2]))
        elif it[0] == "const":
            out.append(render_block(it[1]))
        else:
            out.append(it[1] + "\n")
    return "\n".join(out)


def render_go(spec):
    """{file name: Go source} of the hand-written part of the package"""
    return {f.name: render_file(spec.name, f) for f in spec.files}


def coq_list(items):
    return "[" + "; ".join(items) + "]"


def coq_vtype(vt):
    if vt is None:
        return "TNone"
    if vt[0] == "ident":
        return "(TIdent %s)" % coq_str(vt[1])
    return "(TForeign %s)" % COQ_KIND[FOREIGN[vt[1]][0]]


def coq_pkg(spec):
    files = []
    for f in sorted(spec.files, key=lambda f: f.name):
        blocks = []
        for b in f.blocks():
            blocks.append(coq_list(
                "{| vs_names := %s; vs_type := %s; vs_vals := %s |}" % (
                    coq_list(coq_str(n) for n in s.names), coq_vtype(s.vtype),
                    coq_list(coq_expr(e) for e in s.vals)) for s in b.specs))
        files.append(coq_list(blocks))
    types = coq_list("(%s, %s)" % (coq_str(t), COQ_KIND[k]) for t, k in spec.types)
    return "{| p_types := %s; p_files := %s |}" % (types, coq_list(files))


def coq_flags(fl):
    b = lambda x: "true" if fl.get(x) else "false"
    return "{| f_bit := %s; f_json := %s; f_text := %s; f_sql := %s; f_gorm := %s |}" % (
        b("bit"), b("json"), b("text"), b("sql"), b("gorm"))


# ------------------------------------------------------------------ generation

WORDS = ["Red", "Green", "Blue", "Low", "Mid", "High", "Open", "Closed", "North", "South", "East", "West",
         "Alpha", "Beta", "Gamma", "Delta", "One", "Two", "Three", "Four", "Read", "Write", "Exec", "Start",
         "Stop", "Idle", "Busy", "Apple", "Pear", "Kiwi", "Up", "Down", "Left", "Right", "A", "B", "C", "D", "E",
         "F", "G", "H", "K", "M", "N", "P", "Q", "R", "S", "V", "W", "Y", "Z", "X1", "Y2", "V_1", "Max", "Min",
         "None", "All", "Unknown", "Ready", "Done", "Failed", "Paused", "Draft", "Final", "Hot", "Cold", "Warm",
         "Small", "Large", "Huge", "Tiny", "Odd", "Even", "Prime", "Zero", "First", "Last", "Next", "Prev",
         "1", "2", "3", "10", "_A", "_b", "ID", "URL", "Ok", "NotOk", "aa", "bb", "cc", "dd", "ee", "low", "mid",
         "high", "on", "off", "yes", "no", "maybe", "left2", "right2", "upper", "lower", "inner", "outer"]
TYPE_NAMES = ["Color", "Level", "State", "Mode", "Kind", "Dir", "Perm", "Flag", "Status", "Phase", "Op",
              "Weekday", "HTTPCode", "level", "color", "myState", "Lvl2", "Item_Type", "IOMode", "URL", "T",
              "Shape", "Suit", "Rank", "Tier", "Grade", "Unit", "Axis", "Role", "Prio", "Sev", "Lang", "Zone",
              "FormatStyle", "access_mode", "bitSet", "Mask", "Visibility", "vmode", "Index"]
RESERVED = {"x", "fmt", "bytes", "errors", "json", "driver", "shoot", "gorm", "schema", "init", "main", "iota",
            "true", "false", "nil", "int", "uint", "string", "len", "cap", "new", "make", "any", "error", "time",
            "os", "bufio", "strconv", "reflect", "sort", "big", "_"}
GO_KEYWORDS = {"break", "default", "func", "interface", "select", "case", "defer", "go", "map", "struct", "chan",
               "else", "goto", "package", "switch", "const", "fallthrough", "if", "range", "type", "continue",
               "for", "import", "return", "var"}


def is_ident(s):
    return bool(s) and (s[0].isalpha() or s[0] == "_") and all(c.isalnum() or c == "_" for c in s) \
        and s not in GO_KEYWORDS


class Names:
    """fresh constant names: unique in the package, trimmed names unique per type"""

    def __init__(self, rng, types):
        self.rng, self.used, self.trimmed = rng, set(types) | RESERVED, {}

    def fresh(self, T, style=None):
        rng = self.rng
        for _ in range(200):
            w = rng.choice(WORDS)
            st = style or rng.choice(["pre", "pre", "pre", "pre", "plain", "plain", "plain", "near", "near", "pre_",
                                      "pre_", "other", "other", "suf", "dbl", "mid"])
            if st == "suf":          # the type name as a suffix / twice / in the middle: only a PREFIX is trimmed
                n = w + T
            elif st == "dbl":
                n = T + T + w
            elif st == "mid":
                n = w + T + rng.choice(WORDS)
            elif st == "pre":
                n = T + w
            elif st == "pre_":
                n = T + "_" + w
            elif st == "plain":
                n = w
            elif st == "near":
                n = rng.choice([T[:1].swapcase() + T[1:] + w, T[:-1] + w if len(T) > 1 else "Q" + w,
                                "My" + T + w, T.upper() + w if T.upper() != T else T.lower() + w])
            else:
                n = rng.choice(TYPE_NAMES) + w
            if not is_ident(n) or n in self.used or n.startswith("_") or n.startswith("zz") or n.startswith("ZZ"):
                continue
            if T is not None:
                t = trim(n, T)
                if t in self.trimmed.setdefault(T, set()):
                    continue
                self.trimmed[T].add(t)
            self.used.add(n)
            return n
        raise EvalError("no fresh name")

    def neutral(self):
        for _ in range(200):
            n = self.rng.choice(["u", "aux", "tmp", "lim", "cnt", "other", "misc", "k"]) + self.rng.choice(WORDS)
            if is_ident(n) and n not in self.used:
                self.used.add(n)
                return n
        raise EvalError("no fresh name")


def interesting_value(rng, kind, used):
    lo, hi = krange(kind)
    for _ in range(200):
        r = rng.random()
        if r < 0.40:
            v = rng.randint(0, 20)
        elif r < 0.55 and lo < 0:
            v = -rng.randint(1, 20)
        elif r < 0.70:
            v = rng.choice([lo, lo + 1, hi, hi - 1, hi // 2, hi // 2 + 1, lo // 2])
        elif r < 0.80:
            v = rng.randint(lo, hi)
        elif r < 0.90:
            v = rng.choice([1, -1]) * (1 << rng.randint(0, KINFO[kind][0] - 1))
        else:
            v = rng.randint(-130, 300)
        if in_range(kind, v) and v not in used:
            return v
    raise EvalError("no fresh value")


def iota_expr(rng, kind, start_iota):
    """an expression in iota for a run starting at spec index start_iota"""
    signed = KINFO[kind][1]
    choices = ["iota", "iota+k", "iota*m+k", "1<<iota", "(iota+1)*10", "k-iota", "1<<(iota-1)", "3<<iota"]
    if signed:
        choices += ["iota-k", "-iota"]
    c = rng.choice(choices)
    I = ("iota",)
    k = rng.randint(1, 60)
    m = rng.randint(2, 7)
    if c == "iota":
        return I
    if c == "iota+k":
        return ("add", I, ("lit", k))
    if c == "iota*m+k":
        return ("add", ("mul", I, ("lit", m)), ("lit", k))
    if c == "1<<iota":
        return ("shl", ("lit", 1), I)
    if c == "3<<iota":
        return ("shl", ("lit", 3), I)
    if c == "(iota+1)*10":
        return ("mul", ("add", I, ("lit", 1)), ("lit", 10))
    if c == "k-iota":
        return ("sub", ("lit", k + 20), I)
    if c == "1<<(iota-1)":
        if start_iota >= 1:
            return ("shl", ("lit", 1), ("sub", I, ("lit", 1)))
        return ("shl", ("lit", 1), ("add", I, ("lit", rng.randint(0, 2))))
    if c == "iota-k":
        return ("sub", I, ("lit", k))
    return ("sub", ("lit", 0), I)


class Builder:
    """builds the blocks of one package; evaluates as it goes to keep values distinct and in range"""

    def __init__(self, rng, spec):
        self.rng, self.spec = rng, spec
        self.names = Names(rng, [t for t, _ in spec.types])
        self.used = {t: set() for t, _ in spec.types}       # values per type
        self.bit_types = set()
        self.aliases = rng.random() < 0.3       # this package declares aliases (several constants with one value)

    def eval_block(self, specs):
        """[(name, value, ctype)] of a self-contained block (refs only to its own earlier constants)"""
        p = EnumPkg("tmp")
        p.types = self.spec.types
        f = GoFile("a.go")
        f.items = [("const", Block(specs))]
        p.files = [f]
        return p.const_env()

    def accept(self, specs, allow_dup=False):
        """check a candidate block: in-range values, distinct per type unless aliases are wanted; commit"""
        ents = self.eval_block(specs)
        seen = {t: set() for t in self.used}
        for n, v, ct in ents:
            if ct is not None and ct[0] == "named":
                if (v in self.used[ct[1]] or v in seen[ct[1]]) and not allow_dup:
                    raise EvalError("dup")
                seen[ct[1]].add(v)
        for t in seen:
            self.used[t] |= seen[t]
        return ents

    def other_type(self, T):
        # never a bit-flag enum: a stray constant would take it out of the bit-flag grammar (C14 bits_declared)
        o = [t for t, _ in self.spec.types if t != T and t not in self.bit_types]
        return self.rng.choice(o) if o else None

    # -- block styles ---------------------------------------------------------
    def blk_iota(self, T, n):
        rng, kind = self.rng, self.spec.kind_of(T)
        specs = []
        feats = set()
        if rng.random() < 0.2:
            specs.append(VSpec(["_"], ("ident", T), [("iota",)]))
            specs.append(VSpec([self.names.fresh(T)], ("ident", T), [iota_expr(rng, kind, 1)]))
            feats.add("blank-first")
        else:
            specs.append(VSpec([self.names.fresh(T)], ("ident", T), [iota_expr(rng, kind, 0)]))
        left = n - 1
        while left > 0:
            r = rng.random()
            if r < 0.62:
                specs.append(VSpec([self.names.fresh(T)], None, []))
                left -= 1
                feats.add("carried")
            elif r < 0.74:
                specs.append(VSpec(["_"], None, []))
                feats.add("blank")
            elif r < 0.84:
                specs.append(VSpec([self.names.fresh(T)], ("ident", T), [iota_expr(rng, kind, len(specs))]))
                left -= 1
                feats.add("retyped-expr")
            elif r < 0.93:
                # untyped interloper: resets the carried type; what follows it carried-down is untyped too
                specs.append(VSpec([self.names.neutral()], None,
                                   [rng.choice([("lit", rng.randint(0, 99)), ("add", ("iota",), ("lit", 100))])]))
                for _ in range(rng.randint(0, 2)):
                    specs.append(VSpec([self.names.neutral() if rng.random() < 0.8 else "_"], None, []))
                feats.add("untyped-interloper")
                if rng.random() < 0.8:
                    specs.append(VSpec([self.names.fresh(T)], ("ident", T), [iota_expr(rng, kind, len(specs))]))
                    left -= 1
                else:
                    break
            else:
                o = self.other_type(T)
                if o is None:
                    continue
                specs.append(VSpec([self.names.fresh(o)], ("ident", o),
                                   [("add", ("iota",), ("lit", rng.randint(0, 5)))]))
                for _ in range(rng.randint(0, 2)):
                    specs.append(VSpec([self.names.fresh(o)], None, []))
                feats.add("other-type-interloper")
                if rng.random() < 0.8:
                    specs.append(VSpec([self.names.fresh(T)], ("ident", T), [iota_expr(rng, kind, len(specs))]))
                    left -= 1
                else:
                    break
        return specs, feats

    def blk_explicit(self, T, n):
        rng, kind = self.rng, self.spec.kind_of(T)
        specs, feats, mine = [], {"explicit"}, []
        taken = set(self.used[T])
        for _ in range(n):
            r = rng.random()
            if mine and r < 0.12:
                a = rng.choice(mine)
                e = ("add", ("ref", a), ("lit", rng.randint(1, 9)))
                feats.add("ref")
            elif len(mine) >= 2 and r < 0.2:
                a, b = rng.sample(mine, 2)
                e = ("or", ("ref", a), ("ref", b))
                feats.add("ref")
            else:
                v = interesting_value(rng, kind, taken)
                taken.add(v)
                e = ("lit", v)
                if v < 0:
                    feats.add("negative")
                if v in krange(kind):
                    feats.add("extreme")
                if v > (1 << 63) - 1:
                    feats.add("above-maxint64")
            nm = self.names.fresh(T)
            specs.append(VSpec([nm], ("ident", T), [e]))
            mine.append(nm)
            if self.aliases and rng.random() < 0.3:
                # an alias: a second constant with the value of an earlier one (by reference or by the same
                # expression); the value is listed once, under its FIRST declared name
                a = rng.choice(mine)
                ae = ("ref", a) if rng.random() < 0.7 else e
                specs.append(VSpec([self.names.fresh(T)], ("ident", T), [ae]))
                feats.add("alias")
                if rng.random() < 0.4:
                    # a third (and fourth) name of the same value: every alias must stay in ValueMap
                    for _ in range(rng.choice([1, 1, 2])):
                        specs.append(VSpec([self.names.fresh(T)], ("ident", T), [("ref", a) if rng.random() < 0.7 else ae]))
                    feats.add("alias-many")
            if rng.random() < 0.1:
                specs.append(VSpec(["_"], None, []))
                feats.add("blank")
            if rng.random() < 0.06:
                specs.append(VSpec([self.names.neutral()], None, [("lit", rng.randint(0, 50))]))
                feats.add("untyped-interloper")
            if rng.random() < 0.09:
                ft = rng.choice(sorted(FOREIGN))
                specs.append(VSpec([self.names.neutral()], ("foreign", ft), [("lit", rng.randint(1, 9))]))
                feats.add("foreign")
                for _ in range(rng.choice([0, 1, 1, 2])):
                    # constants carried down from the qualified-type spec: of that type, never of T
                    specs.append(VSpec([self.names.neutral() if rng.random() < 0.8 else "_"], None, []))
                    feats.add("foreign-carried")
        return specs, feats

    def blk_multi(self, T, rows):
        rng, kind = self.rng, self.spec.kind_of(T)
        w = rng.choice([2, 2, 3])
        base = rng.randint(0, 40)
        exprs = [("add", ("mul", ("iota",), ("lit", w)), ("lit", base + j)) for j in range(w)]
        if rng.random() < 0.3:
            exprs[-1] = ("sub", ("lit", base + 100 + rng.randint(0, 50)), ("iota",))
        specs = [VSpec([self.names.fresh(T) for _ in range(w)], ("ident", T), exprs)]
        for _ in range(rows - 1):
            ns = [self.names.fresh(T) if rng.random() < 0.75 else "_" for _ in range(w)]
            specs.append(VSpec(ns, None, []))
        return specs, {"multi-name", "carried"}

    def blk_single(self, T):
        kind = self.spec.kind_of(T)
        v = interesting_value(self.rng, kind, self.used[T])
        return [VSpec([self.names.fresh(T)], ("ident", T), [("lit", v)])], {"single-const"}

    def blk_bits(self, T, positions, zero, ncomp):
        """bit-flag enum: single bits at `positions`, optional zero, composites of declared bits"""
        rng = self.rng
        specs, feats = [], {"bitflags"}
        if ncomp >= 6:
            feats.add("bit-many-constants")
        names = {}
        contiguous = positions == list(range(len(positions)))
        if contiguous and rng.random() < 0.7:
            if zero:
                specs.append(VSpec([self.names.fresh(T, "pre")], ("ident", T), [("lit", 0)]))
                n0 = self.names.fresh(T)
                specs.append(VSpec([n0], ("ident", T), [("shl", ("lit", 1), ("sub", ("iota",), ("lit", 1)))]))
                feats.add("1<<(iota-1)")
            else:
                n0 = self.names.fresh(T)
                specs.append(VSpec([n0], ("ident", T), [("shl", ("lit", 1), ("iota",))]))
            names[positions[0]] = n0
            for pos in positions[1:]:
                nm = self.names.fresh(T)
                specs.append(VSpec([nm], None, []))
                names[pos] = nm
            feats.add("bits-iota")
        else:
            if zero:
                specs.append(VSpec([self.names.fresh(T)], ("ident", T), [("lit", 0)]))
            order = list(positions)
            if rng.random() < 0.3:
                rng.shuffle(order)
                feats.add("bits-unordered")
            for pos in order:
                nm = self.names.fresh(T)
                e = ("lit", 1 << pos) if rng.random() < 0.6 else ("shl", ("lit", 1), ("lit", pos))
                specs.append(VSpec([nm], ("ident", T), [e]))
                names[pos] = nm
            feats.add("bits-explicit")
        if zero:
            feats.add("bit-zero")
        comps = set()
        for _ in range(ncomp * 4):
            if len(positions) < 2 or len(comps) >= ncomp:
                break
            sub = rng.sample(positions, rng.randint(2, min(len(positions), 4)))
            val = sum(1 << q for q in sub)
            if val in comps:
                continue
            comps.add(val)
            if rng.random() < 0.7:
                e = ("ref", names[sub[0]])
                for q in sub[1:]:
                    e = ("or", e, ("ref", names[q]))
            else:
                e = ("lit", val)
            specs.append(VSpec([self.names.fresh(T)], ("ident", T), [e]))
            feats.add("bit-composite")
        return specs, feats


def gen_plain_type(b, T, rng):
    """blocks for an ordinary enum of 1..10 constants"""
    blocks, feats = [], set()
    total = rng.choice([1, 2, 3, 3, 4, 4, 5, 6, 7, 8, 10])
    left = total
    tries = 0
    while left > 0 and tries < 40:
        tries += 1
        style = rng.choice(["iota", "iota", "explicit", "explicit", "multi", "single"])
        n = rng.randint(1, left)
        try:
            snap = (set(b.names.used), {k: set(v) for k, v in b.names.trimmed.items()})
            if style == "iota":
                specs, f = b.blk_iota(T, n)
            elif style == "explicit":
                specs, f = b.blk_explicit(T, n)
            elif style == "multi":
                specs, f = b.blk_multi(T, max(1, n // 2))
            else:
                specs, f = b.blk_single(T)
            ents = b.accept(specs, allow_dup=b.aliases)
        except EvalError:
            b.names.used, b.names.trimmed = snap
            continue
        got = sum(1 for _, _, ct in ents if ct == ("named", T))
        left -= max(got, 1)
        blocks.append(Block(specs, paren=not (len(specs) == 1 and rng.random() < 0.7)))
        feats |= f
    if len(blocks) > 1:
        feats.add("several-blocks")
    return blocks, feats


def gen_bit_type(b, T, rng, max_hb):
    kind = b.spec.kind_of(T)
    w, s = KINFO[kind]
    top = min(w - (2 if s else 1), max_hb)          # highest usable bit position
    for _ in range(40):
        k = rng.randint(1, min(8, top + 1))
        large = rng.random() < 0.15          # many constants (>= 13 when the kind is wide enough)
        if large:
            k = min(8, top + 1)
        if rng.random() < 0.65:
            positions = list(range(k))
        else:
            positions = sorted(rng.sample(range(top + 1), k))
        zero = large or rng.random() < 0.5
        ncomp = 6 if large else rng.choice([0, 0, 1, 1, 2, 3])
        snap = (set(b.names.used), {kk: set(v) for kk, v in b.names.trimmed.items()})
        try:
            specs, f = b.blk_bits(T, positions, zero, ncomp)
            b.accept(specs)
        except EvalError:
            b.names.used, b.names.trimmed = snap
            continue
        return [Block(specs)], f
    raise EvalError("bit type")


CLI_FLAGS = ["-v", "-v", "-verbose", "-sep", "-separate", "-ver=t1", "-version=t2"]
CODEC_SETS = [dict(json=j, text=t, sql=s) for j in (False, True) for t in (False, True) for s in (False, True)]


def pick_flags(rng, profile, bit):
    fl = {"bit": bit, "json": False, "text": False, "sql": False, "gorm": False}
    if profile == "c12":
        fl.update(rng.choice(CODEC_SETS))
        if rng.random() < 0.6:
            fl.update(rng.choice(CODEC_SETS[1:]))
        if fl["sql"] and rng.random() < 0.3:
            fl["gorm"] = True
    elif rng.random() < 0.35:
        fl.update(rng.choice(CODEC_SETS))
        if fl["sql"] and rng.random() < 0.5:
            fl["gorm"] = True       # -bit / plain enums together with -sql -gorm (stub module)
    return fl


def gen_enum_pkg(rng, name, profile="c04", max_hb=7, allow_gorm=True):
    """one package spec.  profile: 'c04' (tables; no -bit), 'c12' (codec flags), 'c14' (bit-flag enums, -bit)"""
    for _attempt in range(50):
        try:
            return _gen_enum_pkg(rng, name, profile, max_hb, allow_gorm)
        except EvalError:
            continue
    raise RuntimeError("enum package generation failed repeatedly")


def _gen_enum_pkg(rng, name, profile, max_hb, allow_gorm):
    spec = EnumPkg(name)
    ntypes = rng.choice([1, 1, 2, 2, 3])
    tnames = rng.sample(TYPE_NAMES, ntypes)
    # the generated identifiers are _<camelCase(T)>_max etc.: two types whose names differ only in case or
    # underscores would collide (a C01 matter, kept out of this stream)
    if len({t.lower().replace("_", "") for t in tnames}) != len(tnames):
        raise EvalError("type names collide after camelCase")
    # no type name may be a prefix-extension clash that makes constants ambiguous: harmless, keep all
    kinds = [rng.choice(KINDS) for _ in tnames]
    spec.types = list(zip(tnames, kinds))
    b = Builder(rng, spec)
    nfiles = rng.choice([1, 1, 2, 3])
    fnames = rng.sample(["a.go", "b.go", "consts.go", "enum_defs.go", "m.go", "z_last.go"], nfiles)
    spec.files = [GoFile(fn) for fn in sorted(fnames)]
    if nfiles > 1:
        spec.features.add("several-files")
    per_type_blocks = {}
    bit_types = set()
    for T, kind in spec.types:
        want_bit = (profile == "c14" and (rng.random() < 0.85 or not bit_types)) or \
                   (profile != "c14" and rng.random() < 0.12)
        if want_bit:
            bit_types.add(T)
    b.bit_types = bit_types
    for T, kind in spec.types:
        if T in bit_types:
            blocks, feats = gen_bit_type(b, T, rng, max_hb)
        else:
            blocks, feats = gen_plain_type(b, T, rng)
        per_type_blocks[T] = blocks
        spec.features |= feats
    # place type declarations and blocks into files
    for T, kind in spec.types:
        rng.choice(spec.files).items.append(("type", T, kind))
    allb = [(T, blk) for T in per_type_blocks for blk in per_type_blocks[T]]
    rng.shuffle(allb)
    for T, blk in allb:
        rng.choice(spec.files).items.append(("const", blk))
    # K_enum_implicit_type: now and then ONE type of a multi-type package gets constants whose type is only
    # inferred from their expression (`AB = A | B`, plus constants carried down from it).  That type is outside the
    # guard and is not generated/observed here (its witness is replayed separately); the OTHER types of the
    # package stay inside the guard: the guard is per type.
    spec.untargeted = set()
    if len(spec.types) > 1 and rng.random() < 0.25:
        U = rng.choice([T for T, _ in spec.types])
        blk = rng.choice(per_type_blocks[U])
        mine = [n for s_ in blk.specs if s_.vtype == ("ident", U) and s_.vals for n in s_.names if n != "_"]
        if mine and blk.paren:
            a = rng.choice(mine)
            e = rng.choice([("ref", a), ("or", ("ref", a), ("ref", rng.choice(mine))), ("add", ("ref", a), ("lit", 0))])
            blk.specs.append(VSpec([b.names.fresh(U)], None, [e]))
            for _ in range(rng.choice([0, 0, 1])):
                blk.specs.append(VSpec([b.names.fresh(U)], None, []))
            spec.untargeted.add(U)
            spec.features.add("implicit-other-type")
    # validate as a whole (names unique, values in range) and compute declared constants
    env = spec.const_env()
    decl = {T: spec.declared(T) for T, _ in spec.types}
    for T, _ in spec.types:
        if T in spec.untargeted:
            continue
        vals = [v for _, v in decl[T]]
        if len(set(vals)) != len(vals):
            if not b.aliases:
                raise EvalError("dup values")
            spec.features.add("alias")
        tr = [trim(n, T) for n, _ in decl[T]]
        if len(set(tr)) != len(tr):
            raise EvalError("dup trimmed")
        if sorted(spec.collected(T)) != sorted(n for n, _ in decl[T]):
            raise EvalError("implicit typing / foreign carry: outside the comparison stream")
    # run plan
    mode = rng.choice(["explicit", "explicit", "explicit", "joint", "star", "file"])
    with_consts = [T for T, _ in spec.types if decl[T] and T not in spec.untargeted]
    if not with_consts:
        raise EvalError("no constants")

    def flags_for(T):
        bit = T in bit_types and (profile == "c14" or rng.random() < 0.5) and profile != "c04"
        fl = pick_flags(rng, profile, bit)
        if not allow_gorm:
            fl["gorm"] = False
        return fl

    # common CLI flags that must not change what is generated: -v/-verbose (debug output), -sep/-separate
    # (one file per type), -ver/-version (header text).  -r/-raw is a debugging aid that writes the
    # unformatted template output without imports and is not part of the sweep.
    cli = []
    if rng.random() < 0.45:
        cli = [rng.choice(CLI_FLAGS)]
        if rng.random() < 0.3:
            c2 = rng.choice(CLI_FLAGS)
            if c2.split("=")[0].lstrip("-")[:3] != cli[0].split("=")[0].lstrip("-")[:3]:
                cli.append(c2)
    for c in cli:
        spec.features.add("cli" + c.split("=")[0])

    def args_of(fl):
        return ["-" + f for f in ("bit", "json", "text", "sql", "gorm") if fl.get(f)] + cli
    # types that shoot generates in this plan although they are no targets (the untargeted type of a
    # joint / -type=* / -file run): their output exists and carries its own stale guard
    spec.extra_generated = []
    if mode in ("star", "file") and profile == "c14" and len(bit_types) != len(spec.types):
        mode = "explicit"      # uniform flags would put -bit on a non-flag enum: keep those out
    if mode == "explicit" or len(spec.types) == 1 and mode == "joint":
        for T in with_consts:
            fl = flags_for(T)
            spec.targets.append(Target(T, spec.kind_of(T), fl, T in bit_types))
            spec.runs.append((["enum"] + args_of(fl) + ["-type=" + T], [T]))
        spec.features.add("run-explicit")
    elif mode == "joint":
        fl = flags_for(with_consts[0])
        if fl["bit"] and not all(T in bit_types for T in with_consts):
            fl["bit"] = False
        for T in with_consts:
            spec.targets.append(Target(T, spec.kind_of(T), fl, T in bit_types))
        order = [T for T, _ in spec.types]
        rng.shuffle(order)
        spec.runs.append((["enum"] + args_of(fl) + ["-type=" + ",".join(order)], with_consts))
        spec.extra_generated += [(U, fl) for U in sorted(spec.untargeted)]
        spec.features.add("run-joint")
    elif mode == "star":
        fl = flags_for(with_consts[0])
        if fl["bit"] and not all(T in bit_types for T in with_consts):
            fl["bit"] = False
        for T in with_consts:
            spec.targets.append(Target(T, spec.kind_of(T), fl, T in bit_types))
        args = ["enum"] + args_of(fl) + ["-type=*"]
        rng.choice(spec.files).items.insert(0, ("comment", "//go:generate shoot " + " ".join(args)))
        spec.runs.append((args, with_consts))
        spec.extra_generated += [(U, fl) for U in sorted(spec.untargeted)]
        spec.features.add("run-star")
    else:
        # one run per file that declares types
        for f in spec.files:
            ts = [it[1] for it in f.items if it[0] == "type"]
            if not ts:
                continue
            cs = [T for T in ts if decl[T] and T not in spec.untargeted]
            if not cs:
                continue
            fl = flags_for(cs[0])
            if fl["bit"] and not all(T in bit_types for T in cs):
                fl["bit"] = False
            for T in cs:
                spec.targets.append(Target(T, spec.kind_of(T), fl, T in bit_types))
            spec.runs.append((["enum"] + args_of(fl) + ["-file=" + f.name], cs))
            spec.extra_generated += [(U, fl) for U in ts if U in spec.untargeted]
        spec.features.add("run-file")
    if not spec.targets:
        raise EvalError("no targets")
    for T, k in spec.types:
        spec.features.add("kind-" + k)
        if T[0].islower():
            spec.features.add("unexported-type")
    for t in spec.targets:
        for f in ("bit", "json", "text", "sql", "gorm"):
            if t.flags.get(f):
                spec.features.add("flag-" + f)
    return spec


# ---------------------------------------------------- inputs for the oracle

def window_points(rng, kind, vals, extra=12, cap=56):
    lo, hi = krange(kind)
    pts = set()
    sv = sorted(vals)
    for v in sv:
        pts.update([v - 1, v, v + 1])
    for a, b_ in zip(sv, sv[1:]):
        if b_ - a > 1:
            pts.add((a + b_) // 2)
            pts.add(rng.randint(a + 1, b_ - 1))
    pts.update([lo, lo + 1, hi, hi - 1, 0, 1, -1, 2, 3])
    if sv:
        for _ in range(extra):
            pts.add(rng.randint(sv[0] - 6, sv[-1] + 6))
    for _ in range(4):
        pts.add(rng.randint(lo, hi))
    if sv:
        orall = 0
        for v in sv:
            orall |= v
        pts.update([orall, orall + 1, orall - 1])
    pts = sorted(p for p in pts if lo <= p <= hi)
    must = set(sv) | {lo, hi}
    if len(pts) > cap:
        keep = [p for p in pts if p in must]
        rest = [p for p in pts if p not in must]
        rng.shuffle(rest)
        pts = sorted(keep + rest[:max(0, cap - len(keep))])
    return pts


def codec_strings(rng, spec, T, decl, cap=28):
    """strings fed to ParseEnum / UnmarshalText / Scan / (quoted) UnmarshalJSON"""
    out = []
    for n, v in decl:
        t = trim(n, T)
        out += [t, n, t.lower(), t.upper(), t.swapcase(), str(v), t + " ", " " + t, T + t, t[:-1], t + t[-1:]]
    out += ["", " ", "null", "0", "1", "-1", T, "nil", "true", "A, B", "?", "Unknown", "3", "x"]
    other = [n for n, _, ct in spec.const_env() if ct != ("named", T)]
    out += other[:3]
    seen, res = set(), []
    for s in out:
        if s not in seen and '"' not in s and "\\" not in s and all(32 <= ord(c) < 127 for c in s):
            seen.add(s)
            res.append(s)
    names = [trim(n, T) for n, _ in decl]
    rest = [s for s in res if s not in names]
    rng.shuffle(rest)
    return names + rest[:max(4, cap - len(names))]


JSON_NONSTRING = ["null", "0", "3", "-1", "1.5", "true", "false", "{}", "[]", '["A"]', '{"a":1}', "", "A",
                  '"A', 'A"', '"', "nul", "[", "1e3"]


def isenum_args(rng, kind, vals, n=26):
    """(argument kind, value) pairs for IsEnum[T, TV]"""
    w, _ = KINFO[kind]
    res = []
    cands = []
    for v in vals:
        cands += [v, v + (1 << w), v - (1 << w), v + 1, v - 1, v % (1 << w), v + (1 << (w - 1))]
    cands += [0, -1, 1, 255, 256, -128, 127, 128, 65535, 65536, (1 << 31), (1 << 32), (1 << 63) - 1,
              -(1 << 63), (1 << 64) - 1, (1 << 63)]
    for _ in range(6):
        cands.append(rng.randint(-(1 << 20), 1 << 20))
    rng.shuffle(cands)
    for v in cands:
        ks = [k for k in KINDS if in_range(k, v)]
        if not ks:
            continue
        k = rng.choice(ks)
        if (k, v) not in res:
            res.append((k, v))
        if len(res) >= n:
            break
    # make sure every declared value is asked at least once with the enum's own kind
    for v in vals[:6]:
        if (kind, v) not in res:
            res.append((kind, v))
    return res
