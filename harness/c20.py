"""C20 RetryMiddleware: theorems in coq/Properties/C20.v, correspondence of
coq/Model/Retry.v with middleware.RetryMiddleware through cmd/rtprobe."""
import itertools
import json

import lib
import translate_tie

# transport error, 2xx, 3xx, 4xx, 5xx: the 4xx and 5xx representatives sit ON the boundary of the
# "status below 500" test, so the exhaustive block itself decides `< 500` against `<= 500` / `< 499`
KINDS = ["e", "200", "302", "499", "500"]
EDGE = ["e", "E200", "E503", "E404", "100", "199", "200", "204", "299", "301", "399", "400",
        "404", "418", "499", "500", "501", "502", "503", "599", "600", "0", "1000",
        # transport errors of the kinds a retry policy might be tempted to treat specially, and 5xx/4xx
        # responses carrying a Retry-After header: the property knows neither
        "ec", "ed", "et", "503r0", "503r1", "503r3600", "500r120", "429r1", "E503"]
FAILING = ["e", "500", "503", "E200", "599", "ec", "ed", "et", "503r0", "503r3600"]


def pad(script, n):
    script = list(script)
    while len(script) < n + 1:
        script.append("e")
    return script


def gen_cases(run):
    cases = []
    maxlen = 6 if run.thorough() else 3
    for L in range(maxlen + 1):
        for sc in itertools.product(KINDS, repeat=L):
            for n in range(6):
                cases.append((n, pad(sc, n)))
    exhaustive_part = len(cases)
    nrand = 20000 if run.thorough() else 2500
    for _ in range(nrand):
        n = run.rng.choice([0, 0, 1, 1, 2, 3, 4, 5, 6, 8, 12])
        L = run.rng.randint(0, n + 2)
        # bias towards failing outcomes so that long retry chains occur
        sc = [run.rng.choice(EDGE if run.rng.random() < 0.5 else FAILING) for _ in range(L)]
        cases.append((n, pad(sc, n)))
    # negative n: the loop never runs
    for n in (-1, -5):
        cases.append((n, ["200"]))
    # fixed block (appended after every random draw, so that it shifts nothing): runs of transport errors that all
    # have the SAME text and type ("es": only their identity differs), as a refused connection produces them, and
    # runs of identical context errors: the property knows no "give up after k identical errors"
    for n in (1, 2, 3, 4, 5, 6, 8):
        for tok in ("es", "ec", "et"):
            for j in range(1, n + 1):
                cases.append((n, pad([tok] * j + ["200"], n)))
                cases.append((n, pad([tok] * j + ["503"] + [tok] * (n - j), n)))
            cases.append((n, [tok] * (n + 1)))
    return cases, exhaustive_part


def gen_groups(run):
    """several requests, one after the other, through ONE middleware instance: the property holds of every
    request, whatever the earlier ones did (exhausted, succeeded late, ...)"""
    groups = []
    k = 400 if run.thorough() else 60
    for _ in range(k):
        n = run.rng.choice([1, 1, 2, 3])
        scs = []
        for _ in range(run.rng.randint(2, 4)):
            L = run.rng.randint(0, n + 1)
            kind = run.rng.random()
            if kind < 0.4:      # exhausts every attempt
                sc = [run.rng.choice(FAILING) for _ in range(n + 1)]
            elif kind < 0.8:    # succeeds on a retry
                j = run.rng.randint(1, n)
                sc = [run.rng.choice(FAILING) for _ in range(j)] + [run.rng.choice(["200", "404", "302"])]
            else:
                sc = [run.rng.choice(EDGE) for _ in range(L)]
            scs.append(pad(sc, n))
        groups.append((n, scs))
    return groups


METHODS = ["GET", "HEAD", "POST", "PUT", "PATCH", "DELETE", "OPTIONS"]


def gen_profiles(run):
    """the property quantifies over outcome scripts and n only: the method of the request, its headers, body and context,
    the latency of the wrapped transport and other retry instances in the chain must not matter.  Every profile is run on
    scripts that need a retry (fail, then succeed; exhaust), so a policy that keys on any of them shows as a wrong number
    of calls / a missing wait.  lat<us> = latency of every call, as a fraction/multiple of d (d = 2000 us here)"""
    profs = []
    for m in METHODS:
        profs += [m, m + "+idem", m + "+ctxv"]
    profs += ["POST+body", "PUT+body+idem", "PATCH+body+ctxv"]
    profs += ["lat500", "lat1500", "lat2500", "POST+lat1500", "lat1500+ctxv"]
    profs += ["outer0", "inner0", "outer0+inner0", "outer0+POST", "outer0+lat1500", "inner0+ctxv"]
    jobs = []
    shapes = [(1, ["500", "200"]), (1, ["e", "404"]), (2, ["503", "e", "302"]), (2, ["500", "500", "500"]),
              (3, ["e", "e", "e", "e"]), (1, ["E200", "500"]), (0, ["500"]), (2, ["200"])]
    extra = 40 if run.thorough() else 6
    for prof in profs:
        for n, sc in shapes:
            jobs.append((n, [pad(sc, n)], prof))
        for _ in range(extra):
            n = run.rng.choice([1, 2, 3, 5])
            j = run.rng.randint(1, n + 1)
            sc = [run.rng.choice(FAILING) for _ in range(j)] + [run.rng.choice(["200", "404", "302", "500", "e"])]
            jobs.append((n, [pad(sc, n)], prof))
    return jobs


def coq_outcome(i, tok):
    if "r" in tok:              # a Retry-After header is not part of the model's response
        tok = tok[:tok.index("r")]
    if tok in ("e", "ec", "ed", "et", "es"):
        return "RErr %d None" % i
    if tok.startswith("E"):
        return "RErr %d (Some {| r_id := %d; r_status := (%s)%%Z |})" % (i, i, tok[1:])
    return "RResp {| r_id := %d; r_status := (%s)%%Z |}" % (i, tok)


def coq_opt(x):
    return "None" if x is None else "(Some %d)" % x


def coq_case(n, script, obs):
    return ("{| c_n := (%d)%%Z; c_script := [%s]; c_obs := {| o_calls := %d; o_resp := %s; o_err := %s; o_sleeps := %d |} |}"
            % (n, "; ".join(coq_outcome(i, t) for i, t in enumerate(script)),
               obs["calls"], coq_opt(obs["resp"]), coq_opt(obs["err"]), obs["sleeps"]))


def parse_obs(f, line):
    if f[0] == "PANIC":
        return {"calls": 9999, "resp": None, "err": None, "sleeps": 0, "panic": line}

    def ident(x):
        if x == "-":
            return None
        if x == "foreign" or int(x) < 0:
            return 9999
        return int(x)
    return {"calls": int(f[0]), "resp": ident(f[1]), "err": ident(f[2]), "sleeps": int(f[3]) + (1 - int(f[4]))}


def run_jobs(probe, jobs, delay_us, par):
    """jobs: [(n, [script, ...])] or [(n, [script, ...], profile)]: the scripts of one job are consecutive requests
    through one middleware instance; returns [[obs, ...]]"""
    jobs = [(j[0], j[1], (j[2] if len(j) > 2 else "-")) for j in jobs]
    inp = "".join("%d %d %d %s %s\n" % (i, n, delay_us, "|".join(",".join(sc) for sc in scs) or "-", prof)
                  for i, (n, scs, prof) in enumerate(jobs))
    rc, out, err = lib.sh([str(probe), str(par)], input=inp, timeout=3000)
    if rc != 0:
        raise lib.CheckBroken("rtprobe failed: " + err[-2000:])
    res = []
    for line, (n, scs, _prof) in zip(out.splitlines(), jobs):
        rest = line.split(None, 1)[1] if " " in line else ""
        if rest.startswith("PANIC"):
            res.append([parse_obs(["PANIC"], line) for _ in scs])
            continue
        parts = [x.split() for x in rest.split(" ; ")]
        if len(parts) != len(scs):
            raise lib.CheckBroken("rtprobe: %d observations for %d requests: %s" % (len(parts), len(scs), line))
        res.append([parse_obs(f, line) for f in parts])
    if len(res) != len(jobs):
        raise lib.CheckBroken("rtprobe: %d results for %d jobs" % (len(res), len(jobs)))
    return res


def run_probe(probe, cases, delay_us, par):
    return [o[0] for o in run_jobs(probe, [(n, [sc]) for n, sc in cases], delay_us, par)]


def gen_stacks(run):
    """real stacks RetryMiddleware(outer) . RetryMiddleware(n) . [LoggingMiddleware] . RetryMiddleware(inner) over the
    scripted wire, compared with Model/RetryStack.v; scripts are padded to the stack's whole budget of wire calls"""
    jobs = []
    ks = [None, 0, 1, 2]
    per = 6 if run.thorough() else 2
    for outer in ks:
        for inner in ks:
            for n in (0, 1, 2):
                for login in (False, True):
                    if outer is None and inner is None and not login:
                        # the single-instance cases above; still assembled once through BuildMiddleware
                        for logout in (False, True):
                            jobs.append((None, n, "via+logout" if logout else "via", None,
                                         pad([run.rng.choice(FAILING) for _ in range(run.rng.randint(0, n + 1))], n)))
                        continue
                    budget = (n + 1) * ((outer or 0) + 1) * ((inner or 0) + 1)
                    scs = [[run.rng.choice(FAILING) for _ in range(budget)]]                      # exhausts the whole stack
                    j = run.rng.randint(0, budget - 1)
                    scs.append([run.rng.choice(FAILING) for _ in range(j)] + [run.rng.choice(["200", "404", "302"])])
                    for _ in range(per):
                        L = run.rng.randint(0, budget)
                        scs.append([run.rng.choice(EDGE if run.rng.random() < 0.4 else FAILING) for _ in range(L)])
                    for sc in scs:
                        jobs.append((outer, n, login, inner, pad(sc, budget - 1)))
                    if not login:
                        # the same stack assembled by the code under test: shoot.Use options on a RestConf and
                        # RestConf.BuildMiddleware (logging outermost, as EnableLogging places it)
                        for logout in (False, True):
                            for sc in scs[:2] + scs[-1:]:
                                jobs.append((outer, n, "via+logout" if logout else "via", inner, pad(sc, budget - 1)))
    return jobs


def stack_profile(outer, inner, login):
    t = []
    if outer is not None:
        t.append("outer%d" % outer)
    if inner is not None:
        t.append("inner%d" % inner)
    if login is True:
        t.append("login")
    elif login:                      # "via" / "via+logout"
        t += ["viabuild"] + (["logout"] if "logout" in login else [])
    return "+".join(t) or "-"


def coq_optz(x):
    return "None" if x is None else "(Some (%d)%%Z)" % x


def coq_scase(job, obs):
    outer, n, login, inner, script = job
    via = isinstance(login, str)
    return ("{| s_via := %s; s_logout := %s; s_outer := %s; s_n := (%d)%%Z; s_login := %s; s_inner := %s; s_script := [%s]; "
            "s_obs := {| o_calls := %d; o_resp := %s; o_err := %s; o_sleeps := %d |} |}"
            % ("true" if via else "false", "true" if via and "logout" in login else "false",
               coq_optz(outer), n, "true" if login is True else "false", coq_optz(inner),
               "; ".join(coq_outcome(i, t) for i, t in enumerate(script)),
               obs["calls"], coq_opt(obs["resp"]), coq_opt(obs["err"]), obs["sleeps"]))


def coq_smismatches(run, jobs, obs, tag):
    shard = 300
    res = []
    for k in range((len(jobs) + shard - 1) // shard):
        lo = k * shard
        part = list(zip(jobs[lo:lo + shard], obs[lo:lo + shard]))
        body = ("From Coq Require Import List ZArith NArith.\nFrom Shoot Require Import Model.Retry Model.RetryStack "
                "Corr.RetryCorr Corr.RetryStackCorr.\nImport ListNotations.\nSet Printing Width 1000000.\n"
                "Set Printing Depth 1000000.\nDefinition cases : list scase := [\n%s\n].\n"
                "Definition M := Eval vm_compute in smismatches cases.\nPrint M.\n"
                % ";\n".join(coq_scase(j, o) for j, o in part))
        out = run.coq_eval("%s_%d" % (tag, k), body)
        res.extend((lo + i, v) for i, v in lib.parse_coq_list_pairs(out, "M"))
    return res


def run_stacks(probe, jobs, delay_us, par):
    return [o[0] for o in run_jobs(probe, [(n, [sc], stack_profile(outer, inner, login))
                                            for outer, n, login, inner, sc in jobs], delay_us, par)]


def check_stacks(run, probe):
    """returns (jobs, first-pass mismatches, confirmed [(job, obs)])"""
    jobs = gen_stacks(run)
    obs = run_stacks(probe, jobs, 2000, 16)
    mism = coq_smismatches(run, jobs, obs, "c20stack")
    pending = [i for i, _ in mism]
    last = {}
    for attempt in range(2):
        if not pending:
            break
        sub = [jobs[i] for i in pending]
        o2 = run_stacks(probe, sub, 20000, 8)
        m2 = coq_smismatches(run, sub, o2, "c20stackre_%d" % attempt)
        last = {pending[j]: o2[j] for j, _ in m2}
        pending = [pending[j] for j, _ in m2]
    return jobs, obs, mism, [(jobs[i], last[i]) for i in pending]


def gen_overlaps(run):
    """two requests through ONE middleware instance AT THE SAME TIME: the first attempt of request A is held inside the
    wire while request B runs to completion, then A carries on.  The property holds of each request on its own: state
    shared between the requests of one instance (an attempt counter, a budget, a last response) shows here and nowhere
    in the sequential groups"""
    jobs = []
    okk = ["200", "404", "302"]
    for n in (0, 1, 2, 3):
        fa = lambda k: [run.rng.choice(FAILING) for _ in range(k)]
        shapes = [(fa(n + 1), fa(n + 1)),                       # both exhaust
                  (fa(n) + [run.rng.choice(okk)], fa(n + 1)),   # A succeeds on its last attempt, B exhausts
                  (fa(n + 1), [run.rng.choice(okk)]),           # A exhausts, B succeeds at once
                  ([run.rng.choice(okk)], fa(n + 1))]           # A succeeds at once, B exhausts
        for _ in range(6 if run.thorough() else 2):
            shapes.append((fa(run.rng.randint(0, n + 1)) + [run.rng.choice(okk + FAILING)],
                           fa(run.rng.randint(0, n + 1)) + [run.rng.choice(okk + FAILING)]))
        for a, b in shapes:
            jobs.append((n, [pad(a, n), pad(b, n)], "overlap"))
    return jobs


def check_overlaps(run, probe):
    """returns (jobs, first-pass mismatches, confirmed [(job, which, verdict, obs)])"""
    jobs = gen_overlaps(run)

    def measure(js, delay, par):
        obs = run_jobs(probe, js, delay, par)
        cases = [(n, sc) for n, scs, _ in js for sc in scs]
        flat = [o for os_ in obs for o in os_]
        return cases, flat
    cases, flat = measure(jobs, 2000, 16)
    mism = coq_mismatches(run, cases, flat, "c20ovl")
    confirmed = []
    for idx, _v in mism[:40]:
        job = jobs[idx // 2]
        c2, f2 = measure([job], 20000, 1)
        m2 = coq_mismatches(run, c2, f2, "c20ovlre_%d" % idx)
        for k, v in m2:
            if k == idx % 2:
                confirmed.append((job, k, v, f2[k]))
    return jobs, mism, confirmed


def coq_mismatches(run, cases, obs, tag):
    """evaluate the comparison inside Coq, in shards; returns list of (index, verdict)"""
    shard = 400
    res = []
    import concurrent.futures as cf

    def one(k):
        lo = k * shard
        part = list(zip(cases[lo:lo + shard], obs[lo:lo + shard]))
        body = ("From Coq Require Import List ZArith NArith.\nFrom Shoot Require Import Model.Retry Corr.RetryCorr.\n"
                "Import ListNotations.\nSet Printing Width 1000000.\nSet Printing Depth 1000000.\n"
                "Definition cases : list case := [\n%s\n].\n"
                "Definition M := Eval vm_compute in mismatches cases.\nPrint M.\n"
                % ";\n".join(coq_case(n, sc, o) for (n, sc), o in part))
        out = run.coq_eval("%s_%d" % (tag, k), body)
        return [(lo + i, v) for i, v in lib.parse_coq_list_pairs(out, "M")]
    nsh = (len(cases) + shard - 1) // shard
    with cf.ThreadPoolExecutor(max_workers=16) as ex:
        for r in ex.map(one, range(nsh)):
            res.extend(r)
    return res


def scale_profile(prof, k):
    """the slow re-run multiplies d by k: latencies are scaled with it"""
    return "+".join(("lat%d" % (int(t[3:]) * k)) if t.startswith("lat") else t for t in prof.split("+"))


def main(run):
    proof_ok = run.prove("Properties/C20.v", ["Corr/RetryCorr.v", "Corr/RetryStackCorr.v"])
    probe = run.build_helper("rtprobe")
    cases, exhaustive_part = gen_cases(run)
    run.log("cases:", len(cases))
    obs = run_probe(probe, cases, 2000, 256)
    groups = gen_groups(run)
    gobs = run_jobs(probe, groups, 2000, 64)
    job_of = {}                      # case index -> (group index, position): re-measured with its predecessors
    for g, ((n, scs), os_) in enumerate(zip(groups, gobs)):
        for k, (sc, o) in enumerate(zip(scs, os_)):
            job_of[len(cases)] = (g, k)
            cases.append((n, sc))
            obs.append(o)
    pjobs = gen_profiles(run)
    pobs = run_jobs(probe, pjobs, 2000, 16)
    prof_of = {}
    for (n, scs, prof), os_ in zip(pjobs, pobs):
        prof_of[len(cases)] = prof
        cases.append((n, scs[0]))
        obs.append(os_[0])
    mism = coq_mismatches(run, cases, obs, "c20cases")
    # timing-based sleep counting can be disturbed by scheduling stalls: EVERY mismatching case is re-run
    # alone, slowly, and kept only if it persists (none is dropped unexamined); when there are more
    # mismatches than a stall can explain they are reported as they are
    RERUN_CAP = 3000
    if len(mism) > RERUN_CAP:
        confirmed = [(i, v, obs[i]) for i, v in mism]
    else:
        pending = [idx for idx, _ in mism]
        last = {}
        for attempt in range(2):
            if not pending:
                break
            sub = [cases[i] for i in pending]
            jobs2 = [groups[job_of[i][0]] if i in job_of else (cases[i][0], [cases[i][1]], scale_profile(prof_of.get(i, "-"), 10))
                     for i in pending]
            o2 = [o[job_of[i][1]] if i in job_of else o[0] for i, o in zip(pending, run_jobs(probe, jobs2, 20000, 8))]
            m2 = coq_mismatches(run, sub, o2, "c20re_%d" % attempt)
            last = {pending[j]: (v, o2[j]) for j, v in m2}
            pending = [pending[j] for j, _ in m2]
        confirmed = [(i, last[i][0], last[i][1]) for i in pending]
    for idx, v, o in confirmed[:5]:
        n, sc = cases[idx]
        replay = {"kind": "property-fails-on-implementation" if v == 2 else "correspondence-broken",
                  "theorem": "C20_stops_at_first_acceptable / C20_exhausted_returns_last",
                  "correspondence": "L1:C20:rtprobe vs Model/Retry.v",
                  "n": n, "script": sc, "observed": o, "profile": prof_of.get(idx, "-"),
                  "earlier_requests_through_the_same_middleware": (groups[job_of[idx][0]][1][:job_of[idx][1]] if idx in job_of else []),
                  "how": "go run harness/go/cmd/rtprobe <<< '0 %d 20000 %s %s'" % (n, ",".join(sc), scale_profile(prof_of.get(idx, "-"), 10))}
        run.violation(replay, no_input=(v != 2))
    # stacks of middlewares against Model/RetryStack.v
    sjobs, sobs, smism, sconfirmed = check_stacks(run, probe)
    for (outer, n, login, inner, sc), o in sconfirmed[:5]:
        budget = (n + 1) * ((outer or 0) + 1) * ((inner or 0) + 1)
        run.violation({"kind": "correspondence-broken",
                       "theorem": "C20_stack_refines_model / C20_nested_at_most_product / C20_logging_commutes",
                       "correspondence": "L1:C20:rtprobe stack vs Model/RetryStack.v",
                       "stack": {"outer": outer, "n": n, "logging_inside": login, "inner": inner,
                                 "note": "logging_inside = 'via' / 'via+logout': stack assembled by shoot.Use + RestConf.BuildMiddleware"},
                       "script": sc, "observed": o, "wire_call_budget": budget,
                       "how": "go run harness/go/cmd/rtprobe <<< '0 %d 20000 %s %s'" % (n, ",".join(sc), stack_profile(outer, inner, login))},
                      no_input=(o["calls"] <= budget))
    confirmed = confirmed + sconfirmed
    # overlapping requests through one instance
    ojobs, omism, oconfirmed = check_overlaps(run, probe)
    for (n, scs, _p), which, v, o in oconfirmed[:5]:
        run.violation({"kind": "property-fails-on-implementation" if v == 2 else "correspondence-broken",
                       "theorem": "C20_stops_at_first_acceptable / C20_exhausted_returns_last",
                       "correspondence": "L1:C20:rtprobe overlap vs Model/Retry.v",
                       "overlap": {"n": n, "scripts": scs, "failing_request": "AB"[which]},
                       "n": n, "script": scs[which], "observed": o,
                       "how": "go run harness/go/cmd/rtprobe <<< '0 %d 20000 %s overlap'   (request A's first attempt is held in the "
                              "transport while request B completes)" % (n, "|".join(",".join(sc) for sc in scs))},
                      no_input=(v != 2))
    confirmed = confirmed + oconfirmed
    if not proof_ok and not confirmed:
        run.proof_failure_violation()
    # second tie: the model regenerated from retry.go by the translator, bridged to Model/Retry.v inside Coq
    tie = translate_tie.translation_tie(run, "retry")
    run.log("translation tie:", tie["status"])
    if lib.tie_broken(tie["status"]) and not confirmed:
        # code and model are no longer provably equal on ALL inputs, and the differential stream found no input
        run.violation({"kind": "translation-bridge-broken", "bridge": tie["status"], "functions": tie.get("functions"),
                       "theorem": "coq/Bridge/RetryBridge.v (generated model of middleware/retry.go = Model/Retry.v)",
                       "correspondence": "translator:C20:go2gallina retry"}, no_input=True)
    retried = set()
    for (n, sc), o in zip(cases, obs):
        if o["calls"] >= 2:
            retried.add((n, tuple(sc)))
    dist = {}
    for (n, sc), o in zip(cases, obs):
        dist[o["calls"]] = dist.get(o["calls"], 0) + 1
    cov = {
        "evaluations": len(cases),
        "distinct_nontrivial": len(retried),
        "rule": ("all scripts of length <= %d over {transport error, 2xx, 3xx, 4xx, 5xx} x n in 0..5 "
                 "(%d cases, scripts shorter than n+1 padded with transport errors), plus %d random scripts "
                 "with boundary statuses (499/500/501, responses accompanied by errors, context/timeout transport "
                 "errors, responses with Retry-After, n up to 12), n<0, and %d groups of 2-4 consecutive requests through "
                 "ONE middleware instance, and %d runs under request/transport profiles (7 methods x Idempotency-Key / body / "
                 "context with value, transport latency 0.25 d .. 1.25 d, RetryMiddleware(0, d) stacked outside / inside); "
                 "non-trivial = distinct (n, script) on which the implementation made at least two calls"
                 % (6 if run.thorough() else 3, exhaustive_part, len(cases) - exhaustive_part - sum(len(g[1]) for g in groups) - len(pjobs),
                    len(groups), len(pjobs))),
        "exhaustive": bool(run.thorough()),
        "traces_validated_against_impl": len(cases),
        "calls_distribution": {str(k): v for k, v in sorted(dist.items())},
        "mismatches_first_pass": len(mism),
        "mismatches_confirmed_on_slow_rerun": len(confirmed),
        "timing_mismatches_not_reproduced": len(mism) - (len(confirmed) - len(sconfirmed)),
        "overlap_jobs": len(ojobs),
        "overlap_rule": "two overlapping requests through one RetryMiddleware instance (A's first attempt held in the transport while B "
                        "completes), n in 0..3: both exhaust / A late success / B immediate success / A immediate success + random; each "
                        "request's observation compared with the single-instance model",
        "overlap_mismatches_first_pass": len(omism),
        "overlap_mismatches_confirmed_on_slow_rerun": len(oconfirmed),
        "stack_cases": len(sjobs),
        "stack_rule": ("RetryMiddleware(outer) . RetryMiddleware(n) . [LoggingMiddleware] . RetryMiddleware(inner) over the scripted wire, "
                       "by hand and (without inner logging, with EnableLogging off/on) assembled by shoot.Use options + RestConf.BuildMiddleware over a replaced http.DefaultTransport, "
                       "outer, inner in {none, 0, 1, 2}, n in 0..2, scripts padded to the stack's budget (outer+1)(n+1)(inner+1): "
                       "one exhausting script, one late success and random ones per stack, compared with Model/RetryStack.v in Coq"),
        "stack_calls_distribution": {str(k): sum(1 for o in sobs if o["calls"] == k) for k in sorted({o["calls"] for o in sobs})},
        "stack_mismatches_first_pass": len(smism),
        "stack_mismatches_confirmed_on_slow_rerun": len(sconfirmed),
        "translation_tie": tie,
        "samples": [{"n": n, "script": sc, "observed": o} for (n, sc), o in
                    [(cases[i], obs[i]) for i in (7, len(cases) // 2, len(cases) - 3)]],
    }
    return run.finish(cov, assumptions=[
        "sleeping is observed as a gap >= d between consecutive calls of the scripted transport "
        "(d = 2 ms; mismatches are re-measured with d = 20 ms); real elapsed time is not modelled",
        "only a LOWER bound on the waiting is observed: a sleep longer than d, or one after the last attempt, would pass",
        "n + 1 does not overflow Go's int (the model's n is an unbounded Z)",
        "the exhaustive block pads scripts shorter than n+1 with transport errors, so it contains duplicates: "
        "it is exhaustive for the property's bound, its size is not a count of distinct inputs",
        "a RoundTripper returning (nil, nil) is outside the model (contract violation; the code would dereference nil)",
    ])


def replay(run, path):
    r = json.load(open(path))
    run.prove("Properties/C20.v", ["Corr/RetryCorr.v", "Corr/RetryStackCorr.v"])
    probe = run.build_helper("rtprobe")
    if r.get("overlap"):
        ov = r["overlap"]
        os_ = run_jobs(probe, [(ov["n"], ov["scripts"], "overlap")], 20000, 1)[0]
        m = coq_mismatches(run, [(ov["n"], sc) for sc in ov["scripts"]], os_, "c20ovlreplay")
        print("observed:", os_, "verdict:", m)
        if m:
            print("VIOLATION property=C20 replay=%s" % path)
            return 1
        return 0
    if r.get("stack"):
        st = r["stack"]
        job = (st["outer"], st["n"], st["logging_inside"], st["inner"], r["script"])
        o = run_stacks(probe, [job], 20000, 1)
        m = coq_smismatches(run, [job], o, "c20stackreplay")
        print("observed:", o[0], "verdict:", m)
        if m:
            print("VIOLATION property=C20 replay=%s" % path)
            return 1
        return 0
    cases = [(r["n"], r["script"])]
    pre = r.get("earlier_requests_through_the_same_middleware") or []
    obs = [run_jobs(probe, [(r["n"], pre + [r["script"]], scale_profile(r.get("profile") or "-", 10))], 20000, 1)[0][-1]]
    m = coq_mismatches(run, cases, obs, "c20replay")
    print("observed:", obs[0], "verdict:", m)
    if m:
        print("VIOLATION property=C20 replay=%s" % path)
        return 1
    return 0
