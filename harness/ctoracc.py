"""Shared L2 machinery of the accessor / JSON checks of `shoot new` (C03, C11), on top of the
constructor machinery of ctorgen / ctorlib (imported, not modified):

  * gen_acc_pkg(rng, name, ...)    struct packages of the C02 grammar with get/set field directives,
                                   type-level getter/setter directives, json tags (optional)
  * run_ctoracc(bin, mod)          harness/go/cmd/ctoracc: methods declared on T, method set of *T,
                                   accessor interfaces (embedded, explicit, complete), implements
  * leaf / embedded-pointer helpers, Coq rendering helpers
"""
import concurrent.futures as cf
import json
import random

import lib
import ctorgen
import ctorlib
import c02

TYPE_DIRS = [
    ["// shoot: getter"], ["// shoot: setter"], ["//shoot: getter;setter"], ["// shoot: getter", "// shoot: setter"],
    ["// Shoot: Getter"], ["// some type", "//shoot: setter;"], ["// shoot getter"], ["// note: shoot: getter"],
    ["//shoot:getter"], ["// shoot: settergetter"], ["// shoot: x;getter"],
]


def excluded(fd, n):
    return n.startswith("_") or (fd["tag"] is not None and 'new:"-"' in fd["tag"])


def gen_acc_pkg(rng, name, p_type_dir=0.35, p_exported_dir=0.0, **opts):
    """a ctorgen package with get/set directives on unexported fields and type-level directives"""
    base = dict(getset_dirs=True, p_under=0.012, p_tag=0.035, p_shadow=0.06, p_def=0.15, p_new=0.15)
    base.update(opts)
    pkg = ctorgen.gen_struct_pkg(rng, name, **base)
    for sd in pkg["structs"]:
        if rng.random() < p_type_dir:
            sd["comment"] = list(rng.choice(TYPE_DIRS))
            sd["doc"] = ctorgen.doc_text(sd["comment"])
        if rng.random() < p_exported_dir:
            # an exported field with a get/set directive: shoot must refuse the run
            t = ctorgen.T_basic(rng.choice(["int", "string"]))
            nm = rng.choice(["Flag", "Mode", "Level"])
            if nm not in [n for fd in sd["fields"] for n in fd["names"]]:
                sd["fields"].append(ctorgen.fdecl([nm], t, ["//shoot: " + rng.choice(["get", "set", "get;set"])]))
    return pkg


def pascal(s):
    return ctorgen._go_pascal(s)


def precheck(pkg, sd, selected):
    """python twin of c03_guard (steering only): 'in' | 'out' (compiles, outside the guard) | 'bad'"""
    cls = c02.precheck(pkg, sd)
    if cls == "bad":
        return "bad"
    res = "in" if cls == "in" else "out"
    occ = ctorgen.occurrences(pkg, sd, [("param", n) for n in ctorgen.tparam_names(sd)])
    own = [n for fd in sd["fields"] for n in fd["names"]]
    embnames = set(o[1] for o in occ if o[3] and o[4])
    for fd in sd["fields"]:
        for n in fd["names"]:
            if excluded(fd, n):
                res = "out"
    for o in occ:
        if len(o[0]) > 1 and o[1] in own:
            res = "out"
        if o[3] and o[4] and len(o[0]) == 1 and False:
            pass
        if not (o[3] and o[4]) and o[1] in embnames:
            res = "out"
        if o[3] and o[4] and o[1] in own:
            res = "out"
    # member names: accessor names must be unique among all member names of the closure
    members = [o[1] for o in occ]
    accs = []
    structs = [((), sd)] + [(o[0], ctorgen.struct_of(pkg, o[2])) for o in occ if o[3] and o[4]]
    for _, s in structs:
        if s["pkg"] != "" or s["name"] not in selected:
            continue
        for fd in s["fields"]:
            for n in fd["names"]:
                if not n[:1].isupper() and not excluded(fd, n):
                    p = pascal(n)
                    if p == "" or not ("a" <= n[:1] <= "z"):
                        return "bad"
                    accs += [p, "Set" + p]
    allnames = members + accs
    for a in accs:
        if allnames.count(a) != 1:
            # a repeated struct occurrence repeats its accessors: fine for Go only when ambiguous names are never used;
            # keep such shapes out of the stream
            return "bad"
    return res


def run_ctoracc(accbin, mod, patterns=("./...",)):
    rc, out, err = lib.sh([str(accbin), str(mod)] + list(patterns), cwd=mod, env=lib.go_env(), timeout=900)
    if rc != 0:
        raise lib.CheckBroken("ctoracc failed: " + err[-3000:])
    res = {}
    for line in out.splitlines():
        if line.strip():
            o = json.loads(line)
            res[o["pkg"]] = o
    return res


def leaves(pkg, sd, inst):
    """[(path tuple, type)] of the leaf occurrences, depth-first; [(path, is_ptr)] of embedded struct occurrences"""
    occ = ctorgen.occurrences(pkg, sd, inst)
    lf = [(o[0], o[2]) for o in occ if not (o[3] and o[4])]
    em = [(o[0], o[2][0] == "ptr") for o in occ if o[3] and o[4]]
    return lf, em


def coq_bool(b):
    return "true" if b else "false"


def coq_opt(x, f):
    return "None" if x is None else "(Some %s)" % f(x)


def coq_flags(getset=True, js=False, tagcase="TagCamel", opt=False, short=False):
    return ("{| fl_getset := %s; fl_json := %s; fl_tagcase := %s; fl_opt := %s; fl_exp := false; fl_short := %s |}"
            % (coq_bool(getset), coq_bool(js), tagcase, coq_bool(opt), coq_bool(short)))


def coq_row(r):
    cs = ctorgen.coq_str
    return "(%s, %s, %s)" % (cs(r[0]), cs(r[1]), cs(r[2]))


def spec_json(pkg):
    """the part of a package spec that goes into replay files"""
    return {"name": pkg["name"], "extra_decls": pkg["extra_decls"],
            "structs": [{k: x for k, x in s.items() if not k.startswith("_")} for s in pkg["structs"]]}


def spec_from_json(spec):
    pkg = dict(spec)
    pkg.setdefault("features", {})
    for sd in pkg["structs"]:
        for fd in sd["fields"]:
            fd["ty"] = c02._tuplify(fd["ty"])
            if fd["tag"] is not None:
                fd["tag"] = str(fd["tag"])
    return pkg


class _L1Run:
    """a view of the Run for the L1 checks that run in a background thread: same scratch / coqc, own random stream"""

    def __init__(self, run):
        self._run = run
        self.rng = random.Random(run.seed * 7919 + 11)
        self.scratch = run.scratch

    def __getattr__(self, name):
        return getattr(self._run, name)


def start_l1(run, probe):
    """transfer + directive L1 in a background thread; .result() -> (ncalls, tm, dcalls, dm)"""
    import transfer_l1
    import ctordirective_l1
    r1 = _L1Run(run)

    def work():
        ncalls, tm = (transfer_l1.check_transfer(r1, probe) if run.thorough()
                      else transfer_l1.check_transfer(r1, probe, n_random=400, maxlen=3))
        dcalls, dm = ctordirective_l1.check_directives(r1, probe, thorough=run.thorough())
        return ncalls, tm, dcalls, dm
    ex = cf.ThreadPoolExecutor(max_workers=1)
    fut = ex.submit(work)
    ex.shutdown(wait=False)
    return fut
