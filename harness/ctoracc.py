"""Shared L2 machinery of the accessor / JSON checks of `shoot new` (C03, C11), on top of the
constructor machinery of ctorgen / ctorlib (imported, not modified):

  * gen_acc_pkg(rng, name, ...)    struct packages of the C02 grammar with get/set field directives,
                                   type-level getter/setter directives, json tags (optional)
  * run_ctoracc(bin, mod)          harness/go/cmd/ctoracc: methods declared on T, method set of *T,
                                   accessor interfaces (embedded, explicit, complete), implements
  * leaf / embedded-pointer helpers, Coq rendering helpers
"""
import concurrent.futures as cf
import json
import random

import lib
import ctorgen
import ctorlib
import c02

RESERVED_METHODS = {"ShootNew", "With", "SetDefault", "MarshalJSON", "UnmarshalJSON"}

TYPE_DIRS = [
    ["// shoot: getter"], ["// shoot: setter"], ["//shoot: getter;setter"], ["// shoot: getter", "// shoot: setter"],
    ["// Shoot: Getter"], ["// some type", "//shoot: setter;"], ["// shoot getter"], ["// note: shoot: getter"],
    ["//shoot:getter"], ["// shoot: settergetter"], ["// shoot: x;getter"],
]


def excluded(fd, n):
    return n.startswith("_") or (fd["tag"] is not None and 'new:"-"' in fd["tag"])


def gen_acc_pkg(rng, name, p_type_dir=0.35, p_exported_dir=0.0, **opts):
    """a ctorgen package with get/set directives on unexported fields and type-level directives"""
    base = dict(getset_dirs=True, p_under=0.012, p_tag=0.035, p_shadow=0.2, p_def=0.15, p_new=0.15)
    base.update(opts)
    pkg = ctorgen.gen_struct_pkg(rng, name, **base)
    if hasattr(ctorgen, "strip_defs_of_embedded") and rng.random() < 0.9:
        ctorgen.strip_defs_of_embedded(pkg)       # keep most packages out of two C02 finding classes
    for sd in pkg["structs"]:
        if rng.random() < p_type_dir:
            sd["comment"] = list(rng.choice(TYPE_DIRS))
            sd["doc"] = ctorgen.doc_text(sd["comment"])
        if rng.random() < p_exported_dir:
            # an exported field with a get/set directive: shoot must refuse the run
            t = ctorgen.T_basic(rng.choice(["int", "string"]))
            nm = rng.choice(["Flag", "Mode", "Level"])
            if nm not in [n for fd in sd["fields"] for n in fd["names"]]:
                sd["fields"].append(ctorgen.fdecl([nm], t, ["//shoot: " + rng.choice(["get", "set", "get;set"])]))
    return pkg


def pascal(s):
    return ctorgen._go_pascal(s)


def struct_occurrences(pkg, sd):
    """[(path tuple, struct decl, type args)] of the struct itself and every embedded struct of its closure"""
    self_args = [("param", n) for n in ctorgen.tparam_names(sd)]
    res = [((), sd, self_args)]
    for o in ctorgen.occurrences(pkg, sd, self_args):
        if o[3] and o[4]:
            t = o[2][1] if o[2][0] == "ptr" else o[2]
            res.append((o[0], ctorgen.struct_of(pkg, o[2]), t[3]))
    return res


def precheck(pkg, sd, selected):
    """python twin of c03_guard + accessors_visible (steering only): 'in' | 'out' (compiles, outside the guard) | 'bad'"""
    cls = c02.precheck(pkg, sd)
    if cls == "bad":
        return "bad"
    res = "in" if cls == "in" else "out"
    self_args = [("param", n) for n in ctorgen.tparam_names(sd)]
    occ = ctorgen.occurrences(pkg, sd, self_args)
    embnames = set(o[1] for o in occ if o[3] and o[4])
    for fd in sd["fields"]:
        for n in fd["names"]:
            if excluded(fd, n):
                res = "out"
    # K_getset_once_shadow: no occurrence with an own field's name PRECEDES the field in depth-first declaration order
    seen = set()
    for fd in sd["fields"]:
        if not fd["names"]:
            seen.add(ctorgen.short_name(fd["ty"]))
            sub = ctorgen.struct_of(pkg, fd["ty"])
            if sub is not None:
                t = fd["ty"][1] if fd["ty"][0] == "ptr" else fd["ty"]
                for o in ctorgen.occurrences(pkg, sub, t[3]):
                    seen.add(o[1])
        else:
            for n in fd["names"]:
                if n in seen:
                    res = "out"
    for o in occ:
        if not (o[3] and o[4]) and o[1] in embnames:
            res = "out"             # a plain field with the name of an embedded struct
    # accessors of the closure must be visible on *T: not hidden by a field, unambiguous, and an accessor that is
    # shadowed by a shallower one must have the same type (else: duplicate method, K_getset_shadow_type_conflict)
    fields_at = {}
    for o in occ:
        fields_at.setdefault(o[1], []).append(len(o[0]) - 1)
    methods = {}
    for path, s, args in struct_occurrences(pkg, sd):
        if s is None or s["pkg"] != "" or s["name"] not in selected:
            continue
        for n, t, emb in ctorgen.struct_fields(s, args):
            if emb or n[:1].isupper():
                continue
            fd = next(f for f in s["fields"] if n in f["names"])
            if excluded(fd, n):
                continue
            p = pascal(n)
            if p == "" or not ("a" <= n[:1] <= "z"):
                return "bad"
            if p in RESERVED_METHODS or "Set" + p in RESERVED_METHODS:
                return "bad"            # K_ctor_method_name_collision
            for m in (p, "Set" + p):
                methods.setdefault(m, []).append((len(path), ctorgen.type_string(t)))
    for m, lst in methods.items():
        dmin = min(d for d, _ in lst)
        if m in fields_at and min(fields_at[m]) <= dmin:
            return "bad"            # K_getset_field_hides_accessor
        if sum(1 for d, _ in lst if d == dmin) > 1:
            return "bad"            # ambiguous promoted accessor
        tmin = next(t for d, t in lst if d == dmin)
        if any(t != tmin for _, t in lst):
            return "bad"            # K_getset_shadow_type_conflict: does not compile
    return res


def complete_order(pkg, order):
    """every selected struct comes after the selected structs it embeds (transitively)"""
    pos = {n: i for i, n in enumerate(order)}
    for sd in pkg["structs"]:
        if sd["name"] not in pos:
            continue
        for path, s, args in struct_occurrences(pkg, sd)[1:]:
            if s is not None and s["pkg"] == "" and s["name"] in pos and pos[s["name"]] > pos[sd["name"]]:
                return False
    return True


# ------------------------------------------------------------------ grouped type declarations
def render_go(pkg, modname):
    """ctorgen.render_go, with the structs named in pkg["groups"] rendered inside one `type ( ... )` declaration each;
    the group's doc comment is the GenDecl doc of every struct in it (sd["doc"]), the structs carry no own comment"""
    files = ctorgen.render_go(pkg, modname)
    if pkg.get("select") == "star":
        # -type=* names its all-in-one file after the source file that carries the //go:generate line of the command
        (fname, text), = files.items()
        head = "package %s\n" % pkg["name"]
        assert text.startswith(head), text[:40]
        files = {fname: head + "\n//go:generate shoot " + " ".join(select_args(pkg, fname, pkg.get("flags_for_generate_line",
                                                                                                   ["new", "-getset"]))) +
                 "\n" + text[len(head):]}
    groups = pkg.get("groups") or []
    if not groups:
        return files
    (fname, text), = files.items()
    for g in groups:
        sds = [sd for sd in pkg["structs"] if sd["name"] in g["names"]]
        block = list(g["comment"]) + ["type ("]
        for sd in sds:
            body = ctorgen.render_struct(sd).rstrip("\n").split("\n")
            assert body[0].startswith("type "), body[0]
            body[0] = body[0][len("type "):]
            block += ["\t" + l if l else l for l in body]
        block.append(")")
        first = True
        for sd in sds:
            piece = ctorgen.render_struct(sd)
            assert piece in text, sd["name"]
            text = text.replace(piece, "\n".join(block) + "\n" if first else "", 1)
            first = False
    import re as _re
    text = _re.sub(r"\n{3,}", "\n\n", text)
    return {fname: text}


def select_args(pkg, fname, head):
    """the command line: an explicit -type list, or the tool picks the types itself (-file=<source> / -type=*)"""
    sel = pkg.get("select") or "list"
    if sel == "file":
        return list(head) + ["-file=" + fname]
    if sel == "star":
        return list(head) + ["-type=*"]
    return list(head) + ["-type=" + ",".join(pkg["order"])]


def source_name(pkg, modname):
    (fname, _), = ctorgen.render_go(pkg, modname).items()
    return fname


def decl_order(pkg):
    """struct names in the TEXTUAL order of render_go: a grouped declaration stands where its first struct stood"""
    groups = pkg.get("groups") or []
    res = []
    for sd in pkg["structs"]:
        if sd["name"] in res:
            continue
        g = next((g for g in groups if sd["name"] in g["names"]), None)
        res += [x["name"] for x in pkg["structs"] if x["name"] in g["names"]] if g else [sd["name"]]
    return res


def add_groups(rng, pkg, p=0.12):
    """with probability p put 2..3 consecutive comment-less, non-generic structs into one grouped declaration, with
    a type-level directive on the group half of the time"""
    if rng.random() >= p:
        return
    cands = [sd for sd in pkg["structs"] if not sd.get("comment") and not sd["tparams"]]
    if len(cands) < 2:
        return
    k = rng.choice([2, 2, 3])
    start = rng.randrange(0, max(1, len(cands) - k + 1))
    sds = cands[start:start + k]
    comment = list(rng.choice(TYPE_DIRS)) if rng.random() < 0.6 else []
    for sd in sds:
        sd["comment"] = []
        sd["doc"] = ctorgen.doc_text(comment)
    pkg["groups"] = [{"names": [sd["name"] for sd in sds], "comment": comment}]


def run_ctoracc(accbin, mod, patterns=("./...",)):
    rc, out, err = lib.sh([str(accbin), str(mod)] + list(patterns), cwd=mod, env=lib.go_env(), timeout=900)
    if rc != 0:
        raise lib.CheckBroken("ctoracc failed: " + err[-3000:])
    res = {}
    for line in out.splitlines():
        if line.strip():
            o = json.loads(line)
            res[o["pkg"]] = o
    return res


def leaves(pkg, sd, inst):
    """[(path tuple, type)] of the leaf occurrences, depth-first; [(path, is_ptr)] of embedded struct occurrences"""
    occ = ctorgen.occurrences(pkg, sd, inst)
    lf = [(o[0], o[2]) for o in occ if not (o[3] and o[4])]
    em = [(o[0], o[2][0] == "ptr") for o in occ if o[3] and o[4]]
    return lf, em


def coq_bool(b):
    return "true" if b else "false"


def coq_opt(x, f):
    return "None" if x is None else "(Some %s)" % f(x)


def coq_flags(getset=True, js=False, tagcase="TagCamel", opt=False, short=False):
    return ("{| fl_getset := %s; fl_json := %s; fl_tagcase := %s; fl_opt := %s; fl_exp := false; fl_short := %s |}"
            % (coq_bool(getset), coq_bool(js), tagcase, coq_bool(opt), coq_bool(short)))


def coq_row(r):
    cs = ctorgen.coq_str
    return "(%s, %s, %s)" % (cs(r[0]), cs(r[1]), cs(r[2]))


def spec_json(pkg):
    """the part of a package spec that goes into replay files"""
    return {"name": pkg["name"], "extra_decls": pkg["extra_decls"], "groups": pkg.get("groups") or [],
            "select": pkg.get("select") or "list",
            "structs": [{k: x for k, x in s.items() if not k.startswith("_")} for s in pkg["structs"]]}


def spec_from_json(spec):
    pkg = dict(spec)
    pkg.setdefault("features", {})
    for sd in pkg["structs"]:
        for fd in sd["fields"]:
            fd["ty"] = c02._tuplify(fd["ty"])
            if fd["tag"] is not None:
                fd["tag"] = str(fd["tag"])
    return pkg


class _L1Run:
    """a view of the Run for the L1 checks that run in a background thread: same scratch / coqc, own random stream"""

    def __init__(self, run):
        self._run = run
        self.rng = random.Random(run.seed * 7919 + 11)
        self.scratch = run.scratch

    def __getattr__(self, name):
        return getattr(self._run, name)


def start_l1(run, probe):
    """transfer + directive L1 in a background thread; .result() -> (ncalls, tm, dcalls, dm)"""
    import transfer_l1
    import ctordirective_l1
    r1 = _L1Run(run)

    def work():
        ncalls, tm = (transfer_l1.check_transfer(r1, probe) if run.thorough()
                      else transfer_l1.check_transfer(r1, probe, n_random=400, maxlen=3))
        dcalls, dm = ctordirective_l1.check_directives(r1, probe, thorough=run.thorough())
        return ncalls, tm, dcalls, dm
    ex = cf.ThreadPoolExecutor(max_workers=1)
    fut = ex.submit(work)
    ex.shutdown(wait=False)
    return fut
