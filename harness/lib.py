"""Shared machinery of the /verif checks (see DESIGN.md sections 4, 6, 7).

Every check is   bin/check <Cxx> <quick|thorough>   ->  harness/<cxx>.py:main(run)

A Run object gives a check:
  * a scratch directory under /tmp (removed on exit),
  * the Coq build of exactly the files the property needs (make <targets>),
    the re-compilation of Properties/<Cxx>.v to capture Print Assumptions,
  * the freshly built shoot binary and harness Go helpers (from /repo's tree),
  * evaluation of cases.v files with coqc (the correspondence is computed
    inside Coq),
  * the VIOLATION / KNOWN-FINDING protocol and the evidence file.
"""
import atexit
import fcntl
import hashlib
import json
import os
import random
import re
import shutil
import subprocess
import sys
import tempfile
import time
from pathlib import Path

VERIF = Path(__file__).resolve().parent.parent
REPO = Path(os.environ.get("VERIF_REPO", "/repo"))
COQ = VERIF / "coq"
BUILD = VERIF / ".build"
OUT = VERIF / "out"

FORBIDDEN = re.compile(
    r"\b(Admitted|admit|Axiom|Axioms|Parameter|Parameters|Conjecture|Conjectures|"
    r"Unset\s+Guard|bypass_check|Admit\s+Obligations|type-in-type|impredicative-set|"
    r"Unset\s+Positivity|Unset\s+Universe\s+Checking|native_compute)\b")

TRUSTED_BASE_COMMON = [
    "Coq 8.16.1 kernel and its vm_compute (no native_compute); no axioms declared; "
    "Print Assumptions under every property theorem must say 'Closed under the global context'",
    "hand-written Gallina model of the code (named in the evidence), tied to /repo by the "
    "correspondence run of this check (differential execution, compared inside Coq)",
    "the harness: Python case generators/renderers and the Go probe/oracle programs",
    "no extraction is used (no Extract directives)",
]


def go_env():
    env = dict(os.environ)
    env["GOFLAGS"] = "-mod=mod"
    try:
        # many checks at once (development, mutation runs): do not let every go build fan out to 16 jobs
        if os.getloadavg()[0] > 24:
            env["GOFLAGS"] = "-mod=mod -p=3"
            env["GOMAXPROCS"] = "4"
    except OSError:
        pass
    env["GOPROXY"] = "off"
    env.pop("GOTOOLCHAIN", None)   # the repo needs the cached go1.24.6 via auto-switch
    env.pop("GOSUMDB", None)
    env.setdefault("HOME", "/root")
    return env


def sh(cmd, cwd=None, env=None, timeout=600, input=None, check=False):
    """run a command, return (rc, stdout, stderr); rc=124 on timeout"""
    try:
        p = subprocess.run(cmd, cwd=cwd, env=env, input=input, capture_output=True,
                           text=True, timeout=timeout, shell=isinstance(cmd, str))
        rc, out, err = p.returncode, p.stdout, p.stderr
    except subprocess.TimeoutExpired as e:
        rc, out, err = 124, (e.stdout or b"").decode("utf8", "replace") if isinstance(e.stdout, bytes) else (e.stdout or ""), "timeout"
    if check and rc != 0:
        raise RuntimeError("command failed (%s): %s\n%s\n%s" % (rc, cmd, out[-4000:], err[-4000:]))
    return rc, out, err


def tie_broken(status):
    """the translation tie no longer checks BECAUSE OF THE SOURCE: the bridge lemma fails, or the code left the
    translated subset / no longer type-checks against the primitive table (tooling failures are not in this class)"""
    return (status.startswith("bridge-broken") or "source outside the translated subset" in status
            or "does not type-check" in status)


class CheckBroken(Exception):
    """the machinery itself could not run (not a verdict about the property)"""


class Run:
    def __init__(self, prop, tier):
        self.prop = prop
        self.tier = tier
        self.seed = int(os.environ.get("VERIF_SEED", "20260926"))
        self.rng = random.Random(self.seed * 1000003 + int(prop[1:]))
        self.t0 = time.time()
        # the checks compile thousands of throw-away Go packages: the go build cache only trims entries older than five
        # days, so it is emptied when the disk runs low (a full disk makes every build fail, i.e. breaks every check)
        try:
            if shutil.disk_usage("/").free < 25 * 2**30:
                subprocess.run(["go", "clean", "-cache"], capture_output=True, timeout=600)
        except Exception:
            pass
        self.scratch = Path(tempfile.mkdtemp(prefix="verif-run.%s." % prop, dir="/tmp"))
        atexit.register(self._cleanup)
        self.violations = []       # (replay path, no_input flag)
        self.known_seen = []
        self.coverage = {}
        self.assumptions = []
        self.obligations = 0
        self.discharged = 0
        self.proof_ok = None
        self.proof_log = ""
        self.model_files = []
        self._viol_k = 0
        OUT.mkdir(exist_ok=True)
        (OUT / "replays").mkdir(exist_ok=True)
        BUILD.mkdir(exist_ok=True)

    # ------------------------------------------------------------------ infra
    def _cleanup(self):
        if os.environ.get("VERIF_KEEP"):
            print("scratch kept:", self.scratch, file=sys.stderr)
            return
        shutil.rmtree(self.scratch, ignore_errors=True)

    def log(self, *a):
        print("[%s %6.1fs]" % (self.prop, time.time() - self.t0), *a, file=sys.stderr, flush=True)

    def thorough(self):
        return self.tier == "thorough"

    # ------------------------------------------------------------------- coq
    def coq_make(self, targets):
        """make the given .vo targets (and their closure) under a lock.
        returns (ok, log)"""
        gen_coqproject()
        mk = COQ / "Makefile"
        if mk.exists() and mk.stat().st_mtime >= (COQ / "_CoqProject").stat().st_mtime:
            # nothing to do?  then do not queue behind other people's builds
            rc, out, err = sh(["make", "-q"] + [t for t in targets], cwd=COQ, timeout=300)
            if rc == 0:
                return True, "up to date"
        lock = open(BUILD / "coq.lock", "w")
        fcntl.flock(lock, fcntl.LOCK_EX)
        try:
            if not (COQ / "Makefile").exists() or \
               (COQ / "Makefile").stat().st_mtime < (COQ / "_CoqProject").stat().st_mtime:
                sh(["coq_makefile", "-f", "_CoqProject", "-o", "Makefile"], cwd=COQ, check=True)
            # every coqc call is capped (a runaway vm_compute in one file must not hold the shared
            # lock for everybody); the whole make as well
            rc, out, err = sh(["make", "-j16", "COQC=timeout 900 coqc"] + [t for t in targets], cwd=COQ, timeout=2400)
            return rc == 0, out + err
        finally:
            fcntl.flock(lock, fcntl.LOCK_UN)
            lock.close()

    def closure(self, files):
        """transitive closure of Shoot.* Requires, as paths relative to coq/"""
        seen, todo = [], list(files)
        while todo:
            f = todo.pop()
            if f in seen:
                continue
            seen.append(f)
            txt = (COQ / f).read_text()
            txt = strip_comments(txt)
            for m in re.finditer(r"From\s+Shoot\s+Require\s+(?:Import\s+|Export\s+)?(.*?)\.(?=\s|$)", txt, re.S):
                for mod in m.group(1).split():
                    p = mod.replace(".", "/") + ".v"
                    if (COQ / p).exists():
                        todo.append(p)
        return sorted(seen)

    def prove(self, prop_file, corr_files):
        """Build the property's theorems and correspondence files; audit them.
        Sets obligations/discharged.  A failure here is reported as a violation
        with no failing input unless the caller finds one."""
        files = self.closure([prop_file] + list(corr_files))
        self.model_files = files
        # audit sources
        bad = []
        for f in files:
            txt = strip_comments((COQ / f).read_text())
            for m in FORBIDDEN.finditer(txt):
                bad.append("%s: %s" % (f, m.group(0)))
        for f in files:
            for what in toplevel_assumptions(strip_comments((COQ / f).read_text())):
                bad.append("%s: %s outside a Section (declares an axiom)" % (f, what))
        # obligations = proof scripts the kernel checks when the closure is compiled: counted as the closed proofs
        # (Qed / Defined) of the closure's sources; the statement keywords are counted too and both are reported
        n_obl = n_stmt = 0
        for f in files:
            txt = strip_comments((COQ / f).read_text())
            n_stmt += len(re.findall(r"^\s*(?:Local\s+|Global\s+|#\[[^\]]*\]\s*)?(?:Theorem|Lemma|Example|Corollary|Fact|Remark|Proposition)\s", txt, re.M))
            n_obl += len(re.findall(r"\b(?:Qed|Defined)\s*\.", txt))
        self.obligations = n_obl
        self.statements = n_stmt
        ok, log = self.coq_make([f[:-2] + ".vo" for f in [prop_file] + list(corr_files)])
        self.proof_log = log
        closed = 0
        n_print = 0
        if ok:
            # recompile the property file alone to capture Print Assumptions
            outvo = self.scratch / Path(prop_file).with_suffix(".vo").name
            rc, out, err = sh(["coqc", "-Q", str(COQ), "Shoot", "-o", str(outvo), str(COQ / prop_file)],
                              cwd=self.scratch, timeout=1200)
            txt = strip_comments((COQ / prop_file).read_text())
            n_print = len(re.findall(r"Print\s+Assumptions", txt))
            n_thm = len(re.findall(r"^\s*Theorem\s", txt, re.M))
            closed = out.count("Closed under the global context")
            self.assumptions_output = out
            if rc != 0:
                ok = False
                self.proof_log += out + err
            if n_print < n_thm:
                bad.append("%s: %d theorems but only %d Print Assumptions" % (prop_file, n_thm, n_print))
            if closed != n_print:
                bad.append("%s: Print Assumptions not closed (%d of %d): %s" %
                           (prop_file, closed, n_print, out[-1500:]))
        self.coqchk_summary = None
        if ok and not bad and self.thorough() and not os.environ.get("VERIF_NO_COQCHK"):
            ck_ok, ck_txt = coqchk(self, files)
            m = re.search(r"CONTEXT SUMMARY.*", ck_txt, re.S)
            self.coqchk_summary = " ".join((m.group(0) if m else ck_txt[-800:]).split())
            if not ck_ok:
                bad.append("coqchk failed: " + ck_txt[-1500:])
            elif "* Axioms: <none>" not in " ".join(ck_txt.split()):
                # standard-library axioms are allowed but must be named in the evidence
                self.log("coqchk reports axioms:", self.coqchk_summary)
        self.proof_ok = ok and not bad
        self.discharged = n_obl if self.proof_ok else 0
        self.proof_bad = bad
        if not self.proof_ok:
            self.log("PROOF/AUDIT FAILURE", bad, self.proof_log[-3000:])
        return self.proof_ok

    def proof_failure_violation(self):
        """called by a check after its search found no concrete failing input"""
        m = re.search(r'File "([^"]+)", line (\d+)', self.proof_log or "")
        what = {"kind": "proof-obligation-broken",
                "file": m.group(1) if m else None, "line": int(m.group(2)) if m else None,
                "audit": getattr(self, "proof_bad", []),
                "log_tail": (self.proof_log or "")[-3000:]}
        self.violation(what, no_input=True)

    def coq_eval(self, name, body, timeout=3000):
        """write <scratch>/<name>.v with [body], compile it, return stdout.
        raises CheckBroken if coqc fails"""
        p = self.scratch / (name + ".v")
        p.write_text(body)
        rc, out, err = sh(["coqc", "-Q", str(COQ), "Shoot", "-w", "-all", str(p)], cwd=self.scratch, timeout=timeout)
        if rc != 0:
            raise CheckBroken("coqc failed on %s: %s %s" % (p, out[-3000:], err[-3000:]))
        return out

    # -------------------------------------------------------------------- go
    def build_shoot(self):
        """build cmd/shoot from /repo's working tree"""
        b = self.scratch / "bin"
        b.mkdir(exist_ok=True)
        rc, out, err = sh(["go", "build", "-o", str(b / "shoot"), "./cmd/shoot"], cwd=REPO, env=go_env(), timeout=900)
        if rc != 0:
            raise CheckBroken("go build ./cmd/shoot failed: " + err[-3000:])
        return b / "shoot"

    def harness_module(self):
        """copy harness/go into scratch (with /repo's go.sum) and return its dir"""
        d = self.scratch / "hgo"
        if not d.exists():
            shutil.copytree(VERIF / "harness" / "go", d)
            shutil.copy(REPO / "go.sum", d / "go.sum")
            gm = (d / "go.mod").read_text().replace("=> /repo", "=> " + str(REPO))
            (d / "go.mod").write_text(gm)
        return d

    def build_helper(self, name, tags=None):
        d = self.harness_module()
        b = self.scratch / "bin"
        b.mkdir(exist_ok=True)
        cmd = ["go", "build"]
        if tags:
            cmd += ["-tags", tags]
        cmd += ["-o", str(b / name), "./cmd/" + name]
        rc, out, err = sh(cmd, cwd=d, env=go_env(), timeout=900)
        if rc != 0:
            raise CheckBroken("go build of helper %s failed: %s" % (name, err[-3000:]))
        return b / name

    # ------------------------------------------------------ verdict protocol
    def violation(self, replay, no_input=False):
        self._viol_k += 1
        path = OUT / "replays" / ("%s-%s-%d-%d.json" % (self.prop, self.tier, self.seed, self._viol_k))
        replay = dict(replay)
        replay.setdefault("property", self.prop)
        replay.setdefault("seed", self.seed)
        replay.setdefault("tier", self.tier)
        replay.setdefault("replay_cmd", "VERIF_SEED=%d bin/check %s --replay %s" % (self.seed, self.prop, path))
        path.write_text(json.dumps(replay, indent=1, default=str))
        line = "VIOLATION property=%s replay=%s" % (self.prop, path)
        if no_input:
            line += " no-failing-input-found"
        print(line, flush=True)
        self.violations.append((str(path), no_input))

    def known_finding(self, kid, what):
        print("KNOWN-FINDING: property=%s %s %s" % (self.prop, kid, what), flush=True)
        self.known_seen.append(kid)

    def findings(self):
        """known findings that list this property (one JSON file per finding
        under known_findings/, committed; never written at run time)"""
        res = []
        d = VERIF / "known_findings"
        if d.exists():
            for p in sorted(d.glob("*.json")):
                f = json.loads(p.read_text())
                if self.prop in f.get("properties", []):
                    res.append(f)
        return res

    def replay_findings(self, handlers):
        """handlers: {finding id: fn(entry) -> 'buggy' | 'correct' | 'other: <what>'}
        open  + buggy   -> KNOWN-FINDING line (exit code unaffected)
        open  + correct -> quiet (someone repaired the code)
        fixed + buggy   -> VIOLATION (the defect came back)
        anything 'other' -> VIOLATION (a different failure on the witness)
        returns {id: outcome}"""
        res = {}
        self.findings_not_replayed = []
        self.findings_now_correct = []
        for f in self.findings():
            h = handlers.get(f["id"])
            if h is None:
                # listed for this property but replayed by another property's check only: say so in the evidence
                self.findings_not_replayed.append(f["id"])
                continue
            try:
                o = h(f)
            except CheckBroken:
                raise
            res[f["id"]] = o
            if o == "buggy":
                if f.get("status") == "fixed":
                    self.violation({"kind": "fixed-defect-returned", "finding": f, "observed": o})
                else:
                    self.known_finding(f["id"], f["what"])
            elif o != "correct":
                self.violation({"kind": "witness-of-known-finding-fails-differently", "finding": f, "observed": o})
            elif f.get("status") != "fixed":
                self.findings_now_correct.append(f["id"])     # an open finding that no longer reproduces
        self.findings_outcome = res
        return res

    # --------------------------------------------------------------- evidence
    # second tie (docs/translator.md): areas of small pure Go code that the Go->Gallina translator regenerates from
    # the source on every run and bridges to the hand-written model inside Coq; property -> areas whose model
    # functions its theorems rest on.  (C20 and C19 call translate_tie themselves.)
    TRANSLATION_TIES = {
        "C01": ["transfer", "filename"], "C02": ["transfer"], "C03": ["transfer"], "C11": ["transfer"], "C13": ["transfer"],
        "C05": ["transfer"], "C15": ["transfer"], "C06": ["transfer"], "C16": ["filename"], "C12": ["enum"],
    }
    # stage 5 (analysis code of the generators), one line per area: area -> properties
    # (mapmatch costs ~27 s of coqc: C05 carries it in both tiers, C09 and C15 in the thorough tier only)
    TRANSLATION_TIES.setdefault("C05", []).append("mapmatch")
    for _p in ("C09", "C15"): TRANSLATION_TIES.setdefault(_p, []).append("mapmatch@thorough")
    for _p in ("C02", "C03", "C11"): TRANSLATION_TIES.setdefault(_p, []).append("ctorshadow")
    for _p in ("C16",): TRANSLATION_TIES.setdefault(_p, []).append("cliselect")
    # stage 6 (file-system side): ~8 s, C17 in both tiers, C18 in the thorough tier
    TRANSLATION_TIES.setdefault("C17", []).append("writeproto")
    TRANSLATION_TIES.setdefault("C18", []).append("writeproto@thorough")
    # stage 7 (more analysis code): mapcheck 6 s
    for _p in ("C09", "C05"): TRANSLATION_TIES.setdefault(_p, []).append("mapcheck")
    for _p in ("C15",): TRANSLATION_TIES.setdefault(_p, []).append("mapctor")   # 7 s
    for _p in ("C02", "C13"): TRANSLATION_TIES.setdefault(_p, []).append("ctornew")   # 7 s
    for _p in ("C11",): TRANSLATION_TIES.setdefault(_p, []).append("ctorjson")   # 5 s
    for _p in ("C06",): TRANSLATION_TIES.setdefault(_p, []).append("restparam")   # 3 s

    def run_translation_ties(self, cov):
        areas = self.TRANSLATION_TIES.get(self.prop)
        if not areas or "translation_tie" in cov or os.environ.get("VERIF_NO_TRANSLATION_TIE"):
            return
        try:
            import translate_tie
        except ImportError:
            return
        ties = []
        for a in areas:
            if a.endswith("@thorough"):
                if not self.thorough():
                    continue
                a = a[:-len("@thorough")]
            try:
                t = translate_tie.translation_tie(self, a)
            except CheckBroken as e:
                t = {"area": a, "status": "unavailable: %s" % str(e)[:200]}
            self.log("translation tie %s: %s" % (a, t["status"]))
            ties.append(t)
            if tie_broken(t["status"]) and not self.violations:
                # the translated code is no longer provably the model and the differential stream found no input
                self.violation({"kind": "translation-bridge-broken", "area": a, "bridge": t["status"],
                                "functions": t.get("functions"),
                                "correspondence": "translator:%s:go2gallina %s" % (self.prop, a)}, no_input=True)
        cov["translation_tie"] = ties

    def finish(self, coverage, assumptions=None, level="proof"):
        cov = dict(coverage)
        self.run_translation_ties(cov)
        cov.setdefault("obligations", self.obligations)
        cov.setdefault("discharged", self.discharged)
        cov.setdefault("checker_cmd",
                       "make -C /verif/coq (coqc 8.16.1, full .vo build) + coqc Properties/%s.v "
                       "(Print Assumptions) ; thorough tier: coqchk -silent -o" % self.prop)
        cov.setdefault("trusted_base", TRUSTED_BASE_COMMON)
        cov.setdefault("model_files", self.model_files)
        cov.setdefault("obligations_counted_as", "closed proof scripts (Qed/Defined) in the Coq files of the dependency closure of "
                       "Properties/%s.v and its Corr files; all are re-checked by coqc when the closure builds; "
                       "%d statements (Theorem/Lemma/Example/...) carry them" % (self.prop, getattr(self, "statements", 0)))
        cov.setdefault("known_findings_seen", self.known_seen)
        if getattr(self, "coqchk_summary", None):
            cov.setdefault("coqchk", self.coqchk_summary)
        if getattr(self, "l1_skipped", None):
            cov.setdefault("l1_probe_skipped", self.l1_skipped)
        if getattr(self, "findings_outcome", None) is not None:
            cov.setdefault("findings_replayed", self.findings_outcome)
            cov.setdefault("findings_listed_but_replayed_by_other_checks_only", getattr(self, "findings_not_replayed", []))
            cov.setdefault("open_findings_that_no_longer_reproduce", getattr(self, "findings_now_correct", []))
        if self.proof_ok is False and not self.violations:
            # a broken proof/audit with no concrete failing input found by the caller is still a violation
            self.proof_failure_violation()
        ev = {
            "property_id": self.prop,
            "tier": self.tier,
            "seed": self.seed,
            "level": level,
            "coverage": cov,
            "assumptions": assumptions or [],
            "wall_s": round(time.time() - self.t0, 2),
            "violations": len(self.violations),
        }
        # runs against another checkout (mutation experiments) must not overwrite the evidence
        evdir = VERIF / "evidence" if str(REPO) == "/repo" else OUT / "evidence-alt"
        evdir.mkdir(exist_ok=True)
        (evdir / (self.prop + ".json")).write_text(json.dumps(ev, indent=1, default=str) + "\n")
        self.log("done: violations=%d wall=%.1fs" % (len(self.violations), time.time() - self.t0))
        return 1 if self.violations else 0


def strip_comments(txt):
    """remove (possibly nested) Coq comments"""
    out, depth, i = [], 0, 0
    while i < len(txt):
        if txt.startswith("(*", i):
            depth += 1
            i += 2
        elif txt.startswith("*)", i) and depth > 0:
            depth -= 1
            i += 2
        else:
            if depth == 0:
                out.append(txt[i])
            i += 1
    return "".join(out)


def toplevel_assumptions(txt):
    """Variable(s)/Hypothesis(-es)/Context commands that are not inside a Section"""
    depth, res = 0, []
    for m in re.finditer(r"(?m)^\s*(?:Local\s+|Global\s+|#\[[^\]]*\]\s*)?(Section|End|Variable|Variables|Hypothesis|Hypotheses|Context)\b\s*([\w']*)", txt):
        kw, name = m.group(1), m.group(2)
        if kw == "Section":
            depth += 1
            sections = getattr(toplevel_assumptions, "_s", [])
            sections.append(name)
            toplevel_assumptions._s = sections
        elif kw == "End":
            sections = getattr(toplevel_assumptions, "_s", [])
            if sections and sections[-1] == name:
                sections.pop()
                depth -= 1
        elif depth <= 0:
            res.append(kw + " " + name)
    toplevel_assumptions._s = []
    return res


def gen_coqproject():
    head = (COQ / "_CoqProject.head").read_text()
    # coq/Bridge/*.v need the file generated by the Go->Gallina translator (-Q <scratch>/gen ShootGen): they are
    # compiled by harness/translate_tie.py, not by the project make
    files = sorted(str(p.relative_to(COQ)) for p in COQ.rglob("*.v") if p.relative_to(COQ).parts[0] != "Bridge")
    txt = head + "\n".join(files) + "\n"
    p = COQ / "_CoqProject"
    if not p.exists() or p.read_text() != txt:
        p.write_text(txt)


def parse_coq_list_pairs(out, name):
    """parse the output of  Print <name>.  for a list (N*N): returns list of (i, v)"""
    flat = " ".join(out.split())
    m = re.search(re.escape(name) + r" = (\[.*?\]) : list", flat)
    if not m:
        raise CheckBroken("cannot parse coq output for %s: %s" % (name, flat[:2000]))
    body = m.group(1)
    pairs = [(int(a), int(b)) for a, b in re.findall(r"\((\d+)%?N?, (\d+)%?N?\)", body)]
    if body.count("(") != len(pairs):
        raise CheckBroken("unparsed entries in the coq output for %s: %s" % (name, body[:1500]))
    return pairs


def coqchk(run, files):
    """thorough tier: independent re-check of the compiled files, cached by hash"""
    h = hashlib.sha256()
    for f in sorted(files):
        h.update((COQ / f).read_bytes())
    key = h.hexdigest()[:24]
    cache = BUILD / ("coqchk-%s.txt" % key)
    if cache.exists():
        return True, cache.read_text()
    mods = ["Shoot." + f[:-2].replace("/", ".") for f in files]
    rc, out, err = sh(["coqchk", "-silent", "-o", "-Q", str(COQ), "Shoot"] + mods, cwd=COQ, timeout=7200)
    txt = out + err
    if rc == 0:
        cache.write_text(txt)
    return rc == 0, txt


def build_baseline_shoot(run):
    """the shoot binary of the recorded baseline commit of /repo (/verif/baseline_commit), built from
    `git archive` into the scratch directory (nothing is written under /repo).  Used ONLY to make the excuse
    "this failure belongs to a recorded open defect" precise: a failure on an input of an excused class is
    excused only if the baseline fails on it in the same way.  Returns None when it cannot be built."""
    f = VERIF / "baseline_commit"
    if not f.exists():
        return None
    commit = f.read_text().split()[0]
    d = run.scratch / "baseline"
    out = run.scratch / "bin" / "shoot-baseline"
    if out.exists():
        return out
    d.mkdir(parents=True, exist_ok=True)
    (run.scratch / "bin").mkdir(exist_ok=True)
    rc, o, e = sh("git -C %s archive %s | tar -x -C %s" % (REPO, commit, d), timeout=300)
    if rc != 0:
        run.log("baseline unavailable:", (o + e)[-300:])
        return None
    rc, o, e = sh(["go", "build", "-o", str(out), "./cmd/shoot"], cwd=d, env=go_env(), timeout=900)
    if rc != 0:
        run.log("baseline does not build:", e[-300:])
        return None
    return out


def build_verifprobe(run):
    """build /repo/cmd/verifprobe with -tags verif (L1 function probe); returns its path"""
    b = run.scratch / "bin"
    b.mkdir(exist_ok=True)
    rc, out, err = sh(["go", "build", "-tags", "verif", "-o", str(b / "verifprobe"), "./cmd/verifprobe"],
                      cwd=REPO, env=go_env(), timeout=900)
    if rc != 0:
        # The hooks are add-only wrappers of unexported helpers: a harmless refactoring of /repo
        # (renaming an internal function) can stop them from compiling while every property still
        # holds.  L1 is a supporting layer of the tie, so it degrades to "skipped" (recorded in the
        # evidence) instead of breaking the check; L2 (the built binary) still decides.
        run.log("L1 probe unavailable (go build -tags verif ./cmd/verifprobe failed): L1 skipped:", err[-600:])
        run.l1_skipped = err[-600:]
        return None
    return b / "verifprobe"


def go_quote(s):
    """Go-quoted string literal for the verifprobe line protocol"""
    out = ['"']
    for ch in s:
        o = ord(ch)
        if ch == '"':
            out.append('\\"')
        elif ch == "\\":
            out.append("\\\\")
        elif ch == "\n":
            out.append("\\n")
        elif ch == "\t":
            out.append("\\t")
        elif ch == "\r":
            out.append("\\r")
        elif o < 32 or o == 127:
            out.append("\\x%02x" % o)
        else:
            out.append(ch)
    out.append('"')
    return "".join(out)


def probe_calls(probe, calls):
    """calls: list of (function, [args]); returns list of decoded JSON results
    (None when the probe is unavailable, see build_verifprobe)"""
    if probe is None:
        return None
    inp = "".join(fn + "".join("\t" + go_quote(a) for a in args) + "\n" for fn, args in calls)
    rc, out, err = sh([str(probe)], input=inp, timeout=1200)
    if rc != 0:
        raise CheckBroken("verifprobe failed: " + err[-2000:])
    res = [json.loads(l) for l in out.splitlines()]
    if len(res) != len(calls):
        raise CheckBroken("verifprobe: %d results for %d calls" % (len(res), len(calls)))
    return res
