"""Shared L2 machinery of the enum checks C04 / C12 / C14.

A *job* is one rendered package: Go sources, the shoot command lines, the
targets (type, kind, flags), the oracle inputs per target, the Coq term of the
package spec.  Jobs are plain dicts (JSON-serialisable: a replay file holds one).

    batch = Batch(run, "c04mod")
    batch.add(job) ...
    batch.generate(shoot)      # real `shoot enum` per package (parallel, timeout)
    batch.build_and_run()      # ONE go build of all packages + oracle main, one run
    cases = batch.coq_cases()  # per target: Coq term of type EnumCorr.case
    mism = coq_mismatches(run, "mismatches04", cases, tag)

The oracle runtime is harness/enum_go/zz.go.txt (package emod/zz in the scratch
module); gorm.io/gorm is replaced by a stub module (not available offline)."""
import concurrent.futures as cf
import json
import re
import shutil
from pathlib import Path

import lib
import l2
import enumgen as eg

HERE = Path(__file__).resolve().parent
PAR = 4
GEN_GLOB = "*.shootenum*.go"
FLAGS = ("bit", "json", "text", "sql", "gorm")

GORM_STUB = {
    "stubs/gorm/go.mod": "module gorm.io/gorm\n\ngo 1.24.0\n",
    "stubs/gorm/gorm.go": "// stub of gorm.io/gorm (the real module is not available offline)\npackage gorm\n\ntype DB struct{}\n",
    "stubs/gorm/schema/schema.go": "package schema\n\ntype Field struct{}\n",
}

COMPONENTS = ["-", "built", "consts", "values", "strings", "vmap", "smap", "points", "mjson", "mtext", "sqlval",
              "ujson", "utext", "scan", "rt", "parse", "try", "isenum", "gorm", "bitn", "bitstr", "bitops", "bitpairs",
              "ctypes"]


# --------------------------------------------------------------------- jobs
def job_of_spec(spec, inputs, compare=True, note=None):
    """inputs: {type name: input dict (see zz.Input)}"""
    env = spec.const_env()
    targets = []
    for t in spec.targets:
        consts = []
        for n, v, ct in env:
            if ct is None:
                continue
            k = spec.kind_of(ct[1]) if ct[0] == "named" else ct[1]
            if k == t.kind:
                consts.append(n)
        targets.append({"type": t.tname, "kind": t.kind, "flags": {f: bool(t.flags.get(f)) for f in FLAGS},
                        "consts": consts, "declared": [[n, v] for n, v in spec.declared(t.tname)]})
    allc = []        # every named constant: (name, how to print its value)
    for n, v, ct in env:
        if ct is None:
            allc.append([n, "I"])                      # untyped: int64(n)
        else:
            k = spec.kind_of(ct[1]) if ct[0] == "named" else ct[1]
            allc.append([n, "I" if eg.KINFO[k][1] else "U"])
    return {"name": spec.name, "sources": eg.render_go(spec), "runs": [list(a) for a, _ in spec.runs],
            "allconsts": allc,
            "targets": targets, "inputs": inputs, "coq_pkg": eg.coq_pkg(spec), "compare": compare,
            "features": sorted(spec.features), "note": note}


def oracle_go(job):
    out = ["// oracle written by the verification harness; executes the generated code", "package %s" % job["name"], "",
           'import "emod/zz"', "", "func ZZOracle(in map[string]*zz.Input, out *zz.Out) {"]
    for t in job["targets"]:
        signed = eg.KINFO[t["kind"]][1]
        cs = ", ".join('{Name: "%s", Val: zz.%s(%s(%s))}' % (n, "I" if signed else "U", "int64" if signed else "uint64", n)
                       for n in t["consts"])
        out.append('\tzz.Consts(out, "%s", []zz.C{%s})' % (t["type"], cs))
        cts = ", ".join('{Name: "%s", Type: zz.TypeOf(%s), Val: zz.%s(%s(%s))}' % (n, n, how, "int64" if how == "I" else "uint64", n)
                        for n, how in job.get("allconsts", []))
        out.append('\tzz.Types(out, "%s", []zz.CT{%s})' % (t["type"], cts))
        out.append('\tzz.Run[%s](out, "%s", in["%s"])' % (t["type"], t["type"], t["type"]))
        if t["flags"]["bit"]:
            out.append('\tzz.Bits[%s](out, "%s", in["%s"])' % (t["type"], t["type"], t["type"]))
    out.append("}")
    return "\n".join(out) + "\n"


def main_go(names):
    out = ["package main", "", "import (", '\t"os"', "", '\t"emod/zz"']
    for n in names:
        out.append('\t%s "emod/%s"' % (n, n))
    out += [")", "", "func main() {", "\tzz.Main(os.Args[1], map[string]func(map[string]*zz.Input, *zz.Out){"]
    for n in names:
        out.append('\t\t"%s": %s.ZZOracle,' % (n, n))
    out += ["\t})", "}"]
    return "\n".join(out) + "\n"


SHIM_ERR = re.compile(r"^\S*\.shootenum\S*\.go:\d+:\d+: undefined: (_\w+_map)$")


def shim_idents(err_lines):
    """the K_bit_map observation shim applies iff EVERY compiler error of the package is
    `undefined: _<t>_map` (not _string_map/_value_map) in a generated file; returns the identifiers or None"""
    ids = set()
    for l in err_lines:
        l = l.strip()
        if not l:
            continue
        m = SHIM_ERR.match(l)
        if not m or m.group(1).endswith("_string_map") or m.group(1).endswith("_value_map"):
            return None
        ids.add(m.group(1))
    return ids or None


def apply_shim(pkgdir, ids):
    n = 0
    for p in Path(pkgdir).glob(GEN_GLOB):
        txt = p.read_text()
        new = txt
        for ident in ids:
            new = re.sub(r"(?<![A-Za-z0-9_])" + re.escape(ident) + r"\[", ident[:-4] + "_string_map[", new)
        if new != txt:
            p.write_text(new)
            n += 1
    return n


class Batch:
    def __init__(self, run, name="emod"):
        self.run = run
        # the module is always called emod (the oracle imports emod/zz); only the directory differs
        self.mod = l2.make_module(run, name)
        gm = (self.mod / "go.mod").read_text().replace("module %s" % name, "module emod", 1)
        gm += "\nrequire gorm.io/gorm v0.0.0\n\nreplace gorm.io/gorm => ./stubs/gorm\n"
        (self.mod / "go.mod").write_text(gm)
        l2.write_files(self.mod, GORM_STUB)
        l2.write_files(self.mod, {"zz/zz.go": (HERE / "enum_go" / "zz.go.txt").read_text()})
        self.jobs = []
        self.gen = {}        # name -> {"rc":[..], "err": str, "files": [...]}
        self.failed = {}     # name -> error lines (package does not build, after the shim)
        self.shimmed = {}    # name -> identifiers
        self.first_errors = {}
        self.obs = {}        # (pkg, type) -> merged observation dict
        self.panics = {}
        self.extra_dirs = {}   # dir -> {"expect": ...}  (stale variants, build-only witnesses)
        self.extra_errs = {}
        self.builds = 0

    def add(self, job):
        self.jobs.append(job)
        l2.write_files(self.mod / job["name"], job["sources"])

    # ------------------------------------------------------------ shoot runs
    def generate(self, shoot, jobs=None):
        def one(job):
            d = self.mod / job["name"]
            res = {"rc": [], "err": "", "timed_out": False, "panicked": False}
            for args in job["runs"]:
                r = l2.run_shoot(shoot, d, args, timeout=60)
                res["rc"].append(r["rc"])
                if r["rc"] != 0:
                    res["err"] += (r["out"] + r["err"])[-1500:]
                res["timed_out"] |= r["timed_out"]
                res["panicked"] |= r["panicked"]
            res["files"] = sorted(p.name for p in d.glob(GEN_GLOB))
            return job["name"], res
        with cf.ThreadPoolExecutor(max_workers=PAR) as ex:
            for name, res in ex.map(one, jobs if jobs is not None else self.jobs):
                self.gen[name] = res

    # ------------------------------------------------------- build + execute
    def build_and_run(self):
        run = self.run
        for job in self.jobs:
            l2.write_files(self.mod / job["name"], {"zz_oracle_verif.go": oracle_go(job)})
        inputs = {job["name"]: job["inputs"] for job in self.jobs}
        (self.mod / "inputs.json").write_text(json.dumps(inputs))
        binp = run.scratch / "bin" / ("zzmain_" + self.mod.name)
        binp.parent.mkdir(exist_ok=True)
        alive = [j["name"] for j in self.jobs]
        for attempt in range(6):
            l2.write_files(self.mod, {"cmd/zzmain/main.go": main_go(alive)})
            rc, out, err = lib.sh(["go", "build", "-o", str(binp), "./cmd/zzmain"], cwd=self.mod, env=lib.go_env(),
                                  timeout=1500)
            self.builds += 1
            if rc == 0:
                break
            errs = parse_build_errors(err)
            progress = False
            for pkg, lines in errs.items():
                name = pkg.split("/")[-1]
                if name not in alive:
                    continue
                if name not in self.first_errors:
                    self.first_errors[name] = lines
                ids = shim_idents(lines)
                if ids and name not in self.shimmed and apply_shim(self.mod / name, ids):
                    self.shimmed[name] = sorted(ids)
                    progress = True
                else:
                    self.failed[name] = lines
                    alive.remove(name)
                    progress = True
            if not progress:
                raise lib.CheckBroken("go build of the oracle main failed: " + err[-3000:])
        else:
            raise lib.CheckBroken("go build of the oracle main did not converge")
        rc, out, err = lib.sh([str(binp), str(self.mod / "inputs.json")], cwd=self.mod, timeout=1500)
        if rc != 0:
            raise lib.CheckBroken("oracle main failed: rc=%s %s" % (rc, err[-3000:]))
        for line in out.splitlines():
            if not line.strip():
                continue
            r = json.loads(line)
            if r["rec"] == "panic":
                self.panics[r["pkg"]] = r["what"]
                continue
            self.obs.setdefault((r["pkg"], r["type"]), {}).update(r)

    def build_extra(self):
        """one go build over the build-only directories (stale variants, witnesses)"""
        if not self.extra_dirs:
            return
        rc, out, err = lib.sh(["go", "build"] + ["./" + d for d in sorted(self.extra_dirs)], cwd=self.mod,
                              env=lib.go_env(), timeout=1500)
        self.builds += 1
        errs = parse_build_errors(err)
        known = set()
        for pkg, lines in errs.items():
            name = pkg.split("/")[-1]
            known.add(name)
            self.extra_errs[name] = lines
        if rc != 0 and not known:
            raise lib.CheckBroken("go build of the extra directories failed without package errors: " + err[-2000:])

    def copy_generated(self, src_name, dst_name):
        for p in (self.mod / src_name).glob(GEN_GLOB):
            shutil.copy(p, self.mod / dst_name / p.name)

    # ---------------------------------------------------------- Coq rendering
    def target_obs(self, job, t):
        name = job["name"]
        g = self.gen.get(name, {"rc": [1]})
        ok = all(rc == 0 for rc in g["rc"]) and name not in self.failed and name not in self.panics
        o = self.obs.get((name, t["type"]))
        if not ok or o is None or "values" not in o:
            return None
        return o

    def coq_cases(self, only_compare=True):
        """returns [(job, target, coq term, observation or None)]"""
        res = []
        for job in self.jobs:
            if only_compare and not job["compare"]:
                continue
            for t in job["targets"]:
                o = self.target_obs(job, t)
                res.append((job, t, coq_case(job, t, o), o))
        return res


def parse_build_errors(err):
    errs, cur = {}, None
    for line in err.splitlines():
        m = re.match(r"# (\S+)", line)
        if m:
            cur = m.group(1)
            errs.setdefault(cur, [])
        elif cur is not None and line.strip():
            errs[cur].append(line)
    return errs


# ------------------------------------------------------------- Coq rendering
def cs(s):
    if not all(32 <= ord(c) < 127 for c in s):
        s = "".join(c if 32 <= ord(c) < 127 else "?" for c in s) + "<non-ascii>"
    return '"' + s.replace('"', '""') + '"'


def cz(z):
    z = int(z)
    return "(%d)" % z if z < 0 else "%d" % z


def cb(b):
    if isinstance(b, str):
        b = b == "true"
    return "true" if b else "false"


def cl(items):
    return "[" + "; ".join(items) + "]"


def sqlv(kind, payload):
    if kind == "nil":
        return "SNil"
    if kind == "bytes":
        return "(SBytes %s)" % cs(payload)
    if kind == "str":
        return "(SStr %s)" % cs(payload)
    if kind == "int":
        return "(SInt %s)" % cz(payload)
    if kind == "float":
        return "(SFloat %s)" % cz(payload)
    if kind == "time":
        return "(STime %s)" % cz(payload)
    return "(SBool %s)" % cb(payload)


EMPTY_OBS = ("{| o_built := false; o_consts := []; o_values := []; o_strings := []; o_vmap := []; o_smap := []; "
             "o_points := []; o_mjson := []; o_mtext := []; o_sqlval := []; o_ujson := []; o_utext := []; o_scan := []; "
             "o_rt := []; o_parse := []; o_try := []; o_isenum := []; o_gorm := []; o_bitn := 0; o_bitstr := []; "
             "o_bitops := []; o_bitpairs := []; o_ctypes := [] |}")


def local_type(tname, pkgname):
    """'p0001.Level' -> 'Level' for a type of the package itself, '' otherwise (time.Duration, int, ...)"""
    pre = pkgname + "."
    return tname[len(pre):] if tname.startswith(pre) and "." not in tname[len(pre):] else ""


def coq_obs(o):
    if o is None:
        return EMPTY_OBS
    f = []
    f.append("o_built := true")
    f.append("o_consts := " + cl("(%s, %s)" % (cs(n), cz(v)) for n, v in o.get("consts", [])))
    f.append("o_values := " + cl(cz(v) for v in o["values"]))
    f.append("o_strings := " + cl(cs(s) for s in o["strings"]))
    f.append("o_vmap := " + cl("(%s, %s)" % (cs(k), cz(v)) for k, v in o["vmap"]))
    f.append("o_smap := " + cl("(%s, %s)" % (cz(v), cs(k)) for v, k in o["smap"]))
    f.append("o_points := " + cl("(%s, (%s, %s))" % (cz(x), cs(s), cb(b)) for x, s, b in o["points"]))
    f.append("o_mjson := " + cl("(%s, %s)" % (cz(x), cs(s)) for x, s in o["mjson"]))
    f.append("o_mtext := " + cl("(%s, %s)" % (cz(x), cs(s)) for x, s in o["mtext"]))
    f.append("o_sqlval := " + cl("(%s, %s)" % (cz(x), cs(s)) for x, s in o["sqlval"]))
    f.append("o_ujson := " + cl("(%s, %s, %s, (%s, %s))" % (cs(d), ("(Some %s)" % cs(ds)) if dok == "1" else "None",
                                                         cz(t0), cz(e), cz(t1))
                                for d, t0, e, t1, dok, ds in o["ujson"]))
    f.append("o_utext := " + cl("(%s, %s, (%s, %s))" % (cs(d), cz(t0), cz(e), cz(t1)) for d, t0, e, t1 in o["utext"]))
    f.append("o_scan := " + cl("(%s, %s, (%s, %s))" % (sqlv(k, p), cz(t0), cz(e), cz(t1)) for k, p, t0, e, t1 in o["scan"]))
    f.append("o_rt := " + cl("(%s, %s, %s, (%s, %s))" % (cz(c), cz(x), cz(t0), cz(e), cz(t1)) for c, x, t0, e, t1 in o["rt"]))
    f.append("o_parse := " + cl("(%s, (%s, %s))" % (cs(s), cz(v), cz(e)) for s, v, e in o["parse"]))
    f.append("o_try := " + cl("(%s, %s, (%s, %s))" % (cs(s), cz(t0), cb(ok), cz(t1)) for s, t0, ok, t1 in o["try"]))
    f.append("o_isenum := " + cl("(%s, %s, %s)" % (eg.COQ_KIND[k], cz(v), cb(b)) for k, v, b in o["isenum"]))
    f.append("o_gorm := " + cl(cs(s) for s in o.get("gorm", [])))
    f.append("o_bitn := %d" % int(o.get("bitn", 0)))
    f.append("o_bitstr := " + cl(cs(s) for s in o.get("bitstr", [])))
    f.append("o_bitops := " + cl("(%s, (%s, (%s, (%s, (%s, %s)))))" % (cz(fl), cz(mask), cz(ma), cz(mr),
                                                                       cl(cz(a) for a in adds), cl(cz(r) for r in rems))
                                 for fl, mask, ma, mr, adds, rems in o.get("bitops", [])))
    f.append("o_bitpairs := " + cl("(%s, %s, (%s, (%s, (%s, (%s, %s)))))" % (cz(x), cz(fl), cb(h), cz(a), cz(r), cb(ha), cb(hr))
                                   for x, fl, h, a, r, ha, hr in o.get("bitpairs", [])))
    f.append("o_ctypes := " + cl("(%s, (%s, %s))" % (cs(n), cs(local_type(t, o["pkg"])), cz(v))
                                 for n, t, v in o.get("ctypes", [])))
    return "{| " + "; ".join(f) + " |}"


def coq_case(job, t, o):
    return "{| c_pkg := %s; c_type := %s; c_flags := %s; c_obs := %s |}" % (
        job["coq_pkg"], cs(t["type"]), eg.coq_flags(t["flags"]), coq_obs(o))


HEADER = ("From Coq Require Import List ZArith NArith String.\n"
          "From Shoot Require Import Model.Enum Corr.EnumCorr.\n"
          "Import ListNotations.\nLocal Open Scope string_scope.\nLocal Open Scope Z_scope.\n"
          "Set Printing Width 1000000.\nSet Printing Depth 1000000.\n")


def coq_mismatches(run, fn, rendered, tag, shard=24, ctype="case"):
    """rendered: list of Coq terms; returns [(index, verdict code)]"""
    def one(k):
        lo = k * shard
        defs = "".join("Definition c%d : %s := %s.\n" % (i, ctype, c) for i, c in enumerate(rendered[lo:lo + shard]))
        body = (HEADER + defs + "Definition cases : list %s := %s.\n" % (ctype, cl("c%d" % i for i in range(len(rendered[lo:lo + shard]))))
                + "Definition M := Eval vm_compute in %s cases.\nPrint M.\n" % fn)
        if ctype == "case":
            body += "Definition G := Eval vm_compute in guard_count cases.\nPrint G.\n"
        out = run.coq_eval("%s_%d" % (tag, k), body)
        g = 0
        if ctype == "case":
            m = re.search(r"G = (\d+)%N", " ".join(out.split()))
            if not m:
                raise lib.CheckBroken("cannot parse guard_count: " + out[-500:])
            g = int(m.group(1))
        return [(lo + i, v) for i, v in lib.parse_coq_list_pairs(out, "M")], g
    res = []
    n = (len(rendered) + shard - 1) // shard
    coq_mismatches.in_guard = 0
    with cf.ThreadPoolExecutor(max_workers=PAR) as ex:
        for r, g in ex.map(one, range(n)):
            res.extend(r)
            coq_mismatches.in_guard += g
    return res


def coq_explain(run, term, comp, tag):
    """the model's prediction for one component of one case (for the replay file)"""
    field = {1: "o_built", 2: "o_consts", 3: "o_values", 4: "o_strings", 5: "o_vmap", 6: "o_smap", 7: "o_points",
             8: "o_mjson", 9: "o_mtext", 10: "o_sqlval", 11: "o_ujson", 12: "o_utext", 13: "o_scan", 14: "o_rt",
             15: "o_parse", 16: "o_try", 17: "o_isenum", 18: "o_gorm", 19: "o_bitn", 20: "o_bitstr", 21: "o_bitops"}.get(comp)
    body = HEADER + "Definition c : case := %s.\n" % term
    body += "Definition D := Eval vm_compute in (declared (c_type c) (c_pkg c)).\nPrint D.\n"
    body += "Definition G := Eval vm_compute in (option_map (fun g => (g_names g, g_guard g)) (the_gen c)).\nPrint G.\n"
    if field:
        body += "Definition X := Eval vm_compute in (%s (model_obs c (c_obs c))).\nPrint X.\n" % field
    try:
        return run.coq_eval(tag, body)[-6000:]
    except lib.CheckBroken as e:
        return "explain failed: %s" % e


def report(run, batch, prop, theorem, mism, rows, limit=4):
    """turn (index, code) pairs into VIOLATION lines with replay files"""
    # concrete failing inputs (verdict 2) first
    mism = sorted(mism, key=lambda m: (m[1] % 10 != 2, m[0]))
    for k, (idx, code) in enumerate(mism[:limit]):
        job, t, term, o = rows[idx]
        comp, v = code // 10, code % 10
        name = job["name"]
        replay = {
            "kind": {2: "property-fails-on-implementation", 3: "model-violates-its-own-boolean-property-inside-the-guard"}.get(v, "correspondence-broken"),
            "theorem": theorem,
            "correspondence": "L2:%s:shoot enum + oracle vs Model/Enum.v, component %s" % (prop, COMPONENTS[comp] if comp < len(COMPONENTS) else comp),
            "type": t["type"], "kind_of_type": t["kind"], "flags": t["flags"],
            "commands": [" ".join(["shoot"] + a) for a in job["runs"]],
            "sources": job["sources"],
            "shoot_result": batch.gen.get(name),
            "build_errors": batch.failed.get(name), "first_build_errors": batch.first_errors.get(name),
            "shimmed_K_bit_map": batch.shimmed.get(name), "oracle_panic": batch.panics.get(name),
            "declared": t["declared"],
            "observed": {kk: vv for kk, vv in (o or {}).items() if kk not in ("bitops",)} if o else None,
            "expected_by_model": coq_explain(run, term, comp, "explain_%s_%d" % (prop, k)),
            "job": job,
            "how": "write the sources into a package of a module that replaces github.com/lopolopen/shoot by the "
                   "checkout, run the commands there, go build, and call the generated methods (see job.inputs)",
        }
        run.violation(replay, no_input=(v != 2))


# ------------------------------------------------------------ oracle inputs
def pick_t0(rng, kind, vals, avoid=None):
    lo, hi = eg.krange(kind)
    cands = [v for v in vals] + [lo, hi, 0, 1, 7, hi - 3]
    cands = [c for c in cands if lo <= c <= hi and c != avoid]
    return rng.choice(cands)


def make_inputs(rng, spec, prop, thorough=False):
    """{type: zz.Input as dict} for the targets of a spec; prop selects what is exercised"""
    res = {}
    for t in spec.targets:
        T, kind = t.tname, t.kind
        decl = spec.declared(T)
        vals = [v for _, v in decl]
        lo, hi = eg.krange(kind)
        fl = t.flags
        cap = {"C04": 56, "C12": 14, "C14": 22}[prop] * (2 if thorough else 1)
        inp = {"points": [str(x) for x in eg.window_points(rng, kind, vals, cap=cap)],
               "mjson": [], "mtext": [], "sqlval": [], "ujson": [], "utext": [], "scan": [], "rt": [], "parse": [],
               "try": [], "isenum": [], "gorm": bool(fl.get("gorm")), "bitn": 0, "bitflags": [], "bitpairs": []}
        if prop == "C12":
            strings = eg.codec_strings(rng, spec, T, decl, cap=40 if thorough else 26)
            und = [x for x in eg.window_points(rng, kind, vals, cap=12) if x not in vals][:3]
            mv = [str(v) for v in vals[:10] + und]

            def t0(avoid=None):
                return str(pick_t0(rng, kind, vals, avoid))
            name2val = {eg.trim(n, T): v for n, v in decl}
            if fl.get("json"):
                inp["mjson"] = mv
                inp["ujson"] = [['"%s"' % s, t0(name2val.get(s))] for s in strings] + \
                               [[raw, t0()] for raw in eg.JSON_NONSTRING + ['""']]
                # other JSON spellings of declared names (and of near misses): padding, \u escapes; what they
                # mean is taken from encoding/json itself (the oracle records its decoding of every input)
                for n, v in decl[:4]:
                    t = eg.trim(n, T)
                    if t:
                        esc = "\\u%04x" % ord(t[0]) + t[1:]
                        for raw in (' "%s" ' % t, '"%s"  ' % t, '"%s"' % esc, '"%s\\u0020"' % t, '" %s"' % t,
                                    '"%s"x' % t, '"\\%s"' % t):
                            inp["ujson"].append([raw, t0(v)])
            if fl.get("text"):
                inp["mtext"] = mv
                inp["utext"] = [[s, t0(name2val.get(s))] for s in strings]
            if fl.get("sql"):
                inp["sqlval"] = mv
                sc = [["bytes", s, t0(name2val.get(s))] for s in strings[:22]]
                for n, v in decl[:3]:
                    sc.append(["str", eg.trim(n, T), t0(v)])       # a declared name as a Go string: rejected
                i64 = [v for v in vals if -(1 << 63) <= v < (1 << 63)]
                sc += [["nil", "", t0()], ["int", str(i64[0] if i64 else 1), t0(i64[0] if i64 else None)],
                       ["int", "0", t0(0)], ["float", str(rng.randint(0, 9)), t0()], ["bool", "true", t0()],
                       ["bool", "false", t0()], ["str", "", t0()], ["bytes", "", t0()],
                       ["time", str(rng.randint(0, 2000000000)), t0()]]
                for n, v in decl[:2]:
                    sc.append(["str", n, t0(v)])                   # the full constant name as a string: rejected
                inp["scan"] = sc
            codecs = [c for c, f in (("0", "json"), ("1", "text"), ("2", "sql"), ("3", "json")) if fl.get(f)]
            inp["rt"] = [[c, str(v), t0(v)] for v in vals[:10] for c in codecs]
            inp["parse"] = strings
            inp["try"] = [[s, t0(name2val.get(s))] for s in strings[:22]]
            inp["isenum"] = [[k, str(v)] for k, v in eg.isenum_args(rng, kind, vals)]
        if fl.get("bit") and prop in ("C14", "C12"):
            top = max([v.bit_length() - 1 for v in vals if v > 0] + [0])
            inp["bitn"] = min(1 << (top + 2), hi + 1)
            if prop == "C12":
                inp["bitn"] = min(inp["bitn"], 32)
            # operands of Has/Add/Remove: first the operands that are NOT declared (0, undeclared single bits and
            # unions, a bit above all flags), then the declared values (sampled if there are many)
            extra = []
            for e in [0, 1 << (top + 1), (1 << top) | 1, 3, 5, 6, (1 << (top + 2)) - 1] + \
                     [1 << b for b in range(top + 1) if (1 << b) not in vals][:2]:
                if 0 <= e <= hi and e not in vals and e not in extra:
                    extra.append(e)
            extra = extra[:6]
            dvals = []
            for v in vals:
                if 0 <= v <= hi and v not in dvals:
                    dvals.append(v)
            room = 14 - len(extra)
            if len(dvals) > room:
                dvals = sorted(rng.sample(dvals, room))
            inp["bitflags"] = [str(f) for f in extra + dvals]
            # pairs over the whole kind: negative values and the sign bit for signed kinds, the top bit for
            # unsigned ones, the extremes, random values
            pool = [lo, lo + 1, hi, hi - 1, 0, 1, -1, -2, 1 << (eg.KINFO[kind][0] - 1), (1 << (eg.KINFO[kind][0] - 1)) - 1,
                    -(1 << (eg.KINFO[kind][0] - 2)), rng.randint(lo, hi), rng.randint(lo, hi)] + vals[:4]
            pool = [q for q in pool if lo <= q <= hi]
            pairs = []
            for _ in range(16 if thorough else 10):
                pairs.append([str(rng.choice(pool)), str(rng.choice(pool))])
            inp["bitpairs"] = pairs
        res[T] = inp
    return res


def count_evaluations(inputs):
    n = 0
    for inp in inputs.values():
        for k, v in inp.items():
            if isinstance(v, list) and k != "bitflags":     # bitpairs count as one evaluation each
                n += len(v)
        n += inp.get("bitn", 0) * (1 + 3 * len(inp.get("bitflags", [])))
        n += 4      # the four tables
    return n


# ------------------------------------------------------------- stale edits
def stale_variant(rng, spec, of_type=None):
    """an edited copy of spec (source changed, output NOT regenerated) that is still a valid
    package; returns (spec2, description) or None.  of_type: change the value of a constant of that type"""
    kinds = ["value", "value", "value", "insert-blank", "swap", "unrelated", "unrelated", "rename", "new-const", "none"]
    rng.shuffle(kinds)
    if of_type is not None:
        kinds = ["value-of"]
    target_types = [t.tname for t in spec.targets]
    for kind in kinds:
        for _ in range(12):
            s2 = spec.clone()
            blocks = [(f, b) for f in s2.files for b in f.blocks()]
            try:
                if kind == "none":
                    desc = "nothing edited"
                elif kind == "unrelated":
                    f = rng.choice(s2.files)
                    f.items.append(("const", eg.Block([eg.VSpec(["zzExtra"], None, [("lit", rng.randint(0, 99))])], paren=False)))
                    desc = "an untyped constant zzExtra added"
                elif kind == "new-const":
                    T = rng.choice(target_types)
                    k = s2.kind_of(T)
                    used = {v for _, v in s2.declared(T)}
                    v = eg.interesting_value(rng, k, used)
                    f = rng.choice(s2.files)
                    f.items.append(("const", eg.Block([eg.VSpec(["zzNew" + T.replace("_", "")], ("ident", T), [("lit", v)])], paren=False)))
                    desc = "a new constant of type %s = %d added (not in the old output)" % (T, v)
                else:
                    f, b = rng.choice(blocks)
                    i = rng.randrange(len(b.specs))
                    sp = b.specs[i]
                    if kind == "value-of":
                        names = {n for n, _ in spec.declared(of_type)}
                        cands = [(bb, ii) for _, bb in blocks for ii, ss in enumerate(bb.specs)
                                 if ss.vals and any(n in names for n in ss.names)]
                        if not cands:
                            break
                        b, i = rng.choice(cands)
                        sp = b.specs[i]
                        j = rng.choice([jj for jj, n in enumerate(sp.names) if n in names])
                        d = rng.choice([1, -1, 2, 3, -2, 10])
                        # `e - 2`, not `e + (-2)`: next to a typed operand an untyped -2 must itself fit the type
                        sp.vals[j] = ("add", sp.vals[j], ("lit", d)) if d > 0 else ("sub", sp.vals[j], ("lit", -d))
                        desc = "%s: expression of %s changed by %+d" % (of_type, sp.names[j], d)
                    elif kind == "value":
                        if not sp.vals:
                            continue
                        j = rng.randrange(len(sp.vals))
                        d = rng.choice([1, -1, 2, 3, -2, 10, 1 << rng.randint(2, 9)])
                        sp.vals[j] = ("add", sp.vals[j], ("lit", d)) if d > 0 else ("sub", sp.vals[j], ("lit", -d))
                        desc = "expression %d of spec %s changed by %+d" % (j, ",".join(sp.names), d)
                    elif kind == "insert-blank":
                        if i == 0 or b.specs[i].vals or not b.paren:
                            continue
                        b.specs.insert(i, eg.VSpec(["_"] * len(sp.names), None, []))
                        desc = "a blank carried-down spec inserted before %s" % ",".join(sp.names)
                    elif kind == "swap":
                        if i + 1 >= len(b.specs):
                            continue
                        b.specs[i], b.specs[i + 1] = b.specs[i + 1], b.specs[i]
                        desc = "specs %s and %s swapped" % (",".join(b.specs[i].names), ",".join(b.specs[i + 1].names))
                    elif kind == "rename":
                        j = rng.randrange(len(sp.names))
                        if sp.names[j] == "_":
                            continue
                        old = sp.names[j]
                        sp.names[j] = "zzRenamed" + old.replace("_", "")
                        desc = "constant %s renamed" % old
                s2.const_env()
            except (eg.EvalError, KeyError, IndexError, ValueError):
                continue
            return s2, "%s: %s" % (kind, desc)
    return None


def coq_stale_case(spec, spec2, built):
    tgts = cl(["(%s, %s)" % (cs(t.tname), eg.coq_flags(t.flags)) for t in spec.targets] +
              ["(%s, %s)" % (cs(U), eg.coq_flags(fl)) for U, fl in getattr(spec, "extra_generated", [])])
    return "{| s_pkg := %s; s_targets := %s; s_pkg2 := %s; s_shimmed := true; s_built := %s |}" % (
        eg.coq_pkg(spec), tgts, eg.coq_pkg(spec2), cb(built))


# ------------------------------------------------- hand-made specs (witnesses)
def hand_spec(name, types, blocks, targets, runs=None, cli=()):
    """types [(T, kind)], blocks [[(names, vtype, vals)]] in one file a.go, targets [(T, flags dict)];
    cli: further command-line flags (-v, -sep, ...)"""
    spec = eg.EnumPkg(name)
    spec.types = list(types)
    f = eg.GoFile("a.go")
    for T, k in types:
        f.items.append(("type", T, k))
    for b in blocks:
        f.items.append(("const", eg.Block([eg.VSpec(n, vt, vals) for n, vt, vals in b])))
    spec.files = [f]
    for T, fl in targets:
        full = {x: bool(fl.get(x)) for x in FLAGS}
        spec.targets.append(eg.Target(T, spec.kind_of(T), full))
        spec.runs.append((["enum"] + ["-" + x for x in FLAGS if full[x]] + list(cli) + ["-type=" + T], [T]))
    for c in cli:
        spec.features.add("cli" + c.split("=")[0])
    spec.features.add("hand-made")
    return spec


def lit(z):
    return ("lit", z)


def witness_neg(name="wneg"):
    """K_enum_neg / K_enum_sort_unsigned: negative constants (in the grammar: also part of the comparison)"""
    T = ("ident", "Level")
    return hand_spec(name, [("Level", "int8")],
                     [[(["LevelLow"], T, [lit(-2)]), (["LevelMid"], T, [lit(0)]), (["LevelHigh"], T, [lit(3)])]],
                     [("Level", {})])


def witness_alias(name="walias"):
    """K_enum_dup (fixed): several constants with one value; in the grammar, part of the comparison"""
    T = ("ident", "Color")
    return hand_spec(name, [("Color", "int")],
                     [[(["Red"], T, [lit(1)]), (["Crimson"], T, [lit(1)]), (["Blue"], T, [lit(2)]),
                       (["ColorFirst"], T, [("ref", "Red")])]],
                     [("Color", {"json": True})])


def coincidence_specs():
    """A fixed block, part of every C04 run: signed enums with a negative value whose LARGEST value happens to be
    (number of constants - 1) -- a count/maximum shortcut ("the constants are 0..n-1") is wrong on them --, an
    unsigned enum that really is 0..n-1, one with an alias, each generated with one of the common CLI flags
    (-v, -verbose, -sep, -separate, -ver, -version), which must not change the output; the names are never in
    alphabetical order when sorted by value."""
    I = ("iota",)
    res = []
    T = ("ident", "Temp")
    res.append(hand_spec("wco1", [("Temp", "int8")],
                         [[(["TempLow"], T, [("sub", I, lit(1))]), (["TempMid"], None, []), (["_"], None, []),
                           (["TempHigh"], None, [])]], [("Temp", {})], cli=["-v"]))                    # -1 0 2
    T = ("ident", "Grade")
    res.append(hand_spec("wco2", [("Grade", "int")],
                         [[(["GradeZ"], T, [lit(-1)]), (["GradeM"], T, [lit(1)]), (["GradeA"], T, [lit(2)])]],
                         [("Grade", {})], cli=["-verbose"]))                                             # -1 1 2
    T = ("ident", "Span")
    res.append(hand_spec("wco3", [("Span", "int64")],
                         [[(["SpanWide"], T, [lit(-5)]), (["SpanTiny"], T, [lit(-1)]), (["SpanNone"], T, [lit(0)]),
                           (["SpanHuge"], T, [lit(3)])]], [("Span", {})], cli=["-sep"]))                # -5 -1 0 3
    T = ("ident", "Color")
    res.append(hand_spec("wco4", [("Color", "uint8")],
                         [[(["ColorRed"], T, [I]), (["ColorGreen"], None, []), (["ColorBlue"], None, [])]],
                         [("Color", {})], cli=["-v", "-separate"]))                                      # 0 1 2, really sequential
    T = ("ident", "Step")
    res.append(hand_spec("wco5", [("Step", "int16")],
                         [[(["StepUp"], T, [lit(-2)]), (["StepSame"], T, [lit(0)]), (["StepAlso"], T, [("ref", "StepSame")]),
                           (["StepDown"], T, [lit(2)])]], [("Step", {})], cli=["-ver=t9"]))              # -2 0 0 2: 3 distinct, max 2
    T = ("ident", "Mode")
    res.append(hand_spec("wco6", [("Mode", "int32")],
                         [[(["ModeZulu"], T, [lit(-3)]), (["ModeYank"], T, [lit(-2)]), (["ModeAlfa"], T, [lit(2)])]],
                         [("Mode", {})], cli=["-version=t8", "-verbose"]))                                # -3 -2 2
    # multi-name specs in which a blank identifier stands FIRST, in the middle or last, next to real constants, and
    # the rows carried down from them: `_` declares nothing, its neighbours in the same spec are declared constants
    T = ("ident", "Level")
    res.append(hand_spec("wco7", [("Level", "int")],
                         [[(["_", "LevelLow"], T, [I, ("add", I, lit(10))]), (["_", "LevelMid"], None, []),
                           (["LevelHigh", "_"], None, [])]], [("Level", {})]))                           # 10 11 2
    T = ("ident", "Lane")
    res.append(hand_spec("wco8", [("Lane", "uint16")],
                         [[(["LaneA", "_", "LaneB"], T, [("mul", I, lit(3)), ("add", ("mul", I, lit(3)), lit(1)),
                                                        ("add", ("mul", I, lit(3)), lit(2))]),
                           (["_", "_", "LaneC"], None, []), (["_", "LaneD", "_"], None, []),
                           (["_", "_", "_"], None, []), (["LaneE", "LaneF", "LaneG"], None, [])]],
                         [("Lane", {})], cli=["-v"]))                                                    # 0 2 5 7 12 13 14
    T = ("ident", "Pair")
    res.append(hand_spec("wco9", [("Pair", "int8")],
                         [[(["_", "PairOnly"], T, [lit(-1), lit(7)])], [(["_"], T, [I]), (["PairNext"], None, [])]],
                         [("Pair", {})]))                                                                # 7 | 1
    return res


def bit_flag_cross_product():
    """A fixed block, part of every C14 run: -bit together with EVERY subset of -json -text -sql (and -gorm
    with -sql, against the stub gorm module): 12 flag sets.  The constant names are deliberately NOT in
    alphabetical order when sorted by value, and a declared combination precedes one of its members
    alphabetically, so any reordering of the name list shows in String()."""
    I = ("iota",)
    res = []
    kinds = ["uint8", "int16", "uint32", "int", "uint64", "int8", "uint16", "int32", "uint", "int64", "uint8", "int"]
    k = 0
    for j in (False, True):
        for t in (False, True):
            for q in (False, True):
                for g in ((False, True) if q else (False,)):
                    T = ("ident", "Perm")
                    fl = {"bit": True, "json": j, "text": t, "sql": q, "gorm": g}
                    res.append(hand_spec("wx%02d" % k, [("Perm", kinds[k])],
                                         [[(["PermNone"], T, [lit(0)]),
                                           (["PermRead"], T, [("shl", lit(1), ("sub", I, lit(1)))]),
                                           (["PermWrite"], None, []), (["PermExec"], None, []),
                                           (["PermRW"], T, [("or", ("ref", "PermRead"), ("ref", "PermWrite"))]),
                                           (["PermAll"], T, [lit(7)]), (["PermDelete"], T, [lit(8)])]],
                                         [("Perm", fl)]))
                    k += 1
    return res


def witness_alias_many(name="walias3"):
    """a value with FOUR names and one with two: every alias -- the middle ones too -- is a declared name that
    ValueMap / ParseEnum / every decoder must accept; a fixed part of every C12 run"""
    T = ("ident", "Color")
    return hand_spec(name, [("Color", "int16")],
                     [[(["ColorRed"], T, [lit(1)]), (["ColorScarlet"], T, [("ref", "ColorRed")]),
                       (["Crimson"], T, [("ref", "ColorRed")]), (["ColorRuby"], T, [lit(1)]),
                       (["ColorBlue"], T, [lit(2)]), (["ColorNavy"], T, [("ref", "ColorBlue")]),
                       (["ColorGreen"], T, [lit(-3)])]],
                     [("Color", {"json": True, "text": True, "sql": True})])


def witness_big(name="wbig"):
    """uint64 values above MaxInt64 (second half of K_enum_neg / K_enum_sort_unsigned)"""
    T = ("ident", "Big")
    return hand_spec(name, [("Big", "uint64")],
                     [[(["BigOne"], T, [lit(1)]), (["BigTop"], T, [lit((1 << 64) - 1)]),
                       (["BigHalf"], T, [lit(1 << 63)]), (["BigTwo"], T, [lit(2)])]],
                     [("Big", {})])


def witness_implicit(name="wimpl"):
    T = ("ident", "Perm")
    return hand_spec(name, [("Perm", "uint8")],
                     [[(["PermRead"], T, [("shl", lit(1), ("iota",))]), (["PermWrite"], None, []),
                       (["PermRW"], None, [("or", ("ref", "PermRead"), ("ref", "PermWrite"))])]],
                     [("Perm", {})])


def witness_bit(name="wbit"):
    T = ("ident", "Perm")
    return hand_spec(name, [("Perm", "uint8")],
                     [[(["PermNone"], T, [lit(0)]), (["PermRead"], T, [("shl", lit(1), ("sub", ("iota",), lit(1)))]),
                       (["PermWrite"], None, []), (["PermExec"], None, []),
                       (["PermRW"], T, [("or", ("ref", "PermRead"), ("ref", "PermWrite"))])]],
                     [("Perm", {"bit": True})])


def witness_vis(name="wvis"):
    """K_bit_receiver_shadow, receiver v"""
    T = ("ident", "Vis")
    return hand_spec(name, [("Vis", "uint8")],
                     [[(["VisA"], T, [("shl", lit(1), ("iota",))]), (["VisB"], None, []), (["VisC"], None, [])]],
                     [("Vis", {"bit": True})])


def witness_iom(name="wiom"):
    """K_bit_receiver_shadow, receiver i"""
    T = ("ident", "IOMode")
    return hand_spec(name, [("IOMode", "uint8")],
                     [[(["IOModeR"], T, [("shl", lit(1), ("iota",))]), (["IOModeW"], None, [])]],
                     [("IOMode", {"bit": True})])


def witness_cint(name="wcint"):
    T = ("ident", "Color")
    return hand_spec(name, [("Color", "int")],
                     [[(["Red"], T, [("iota",)]), (["Green"], None, [])]],
                     [("Color", {"json": True, "text": True, "sql": True})])


def witness_wrap(name="wwrap"):
    """K_is_enum_wrap (fixed): IsEnum with arguments outside the range of an int8 enum; in the grammar"""
    T = ("ident", "Level")
    return hand_spec(name, [("Level", "int8")],
                     [[(["LevelLow"], T, [lit(3)]), (["LevelHigh"], T, [lit(7)]), (["LevelNeg"], T, [lit(-5)])]],
                     [("Level", {"sql": True})])


WITNESS_DUP_TRIMMED = {"a.go": "package wdtrim\n\ntype Level int\n\nconst (\n\tLevelHigh Level = 1\n\tHigh      Level = 2\n)\n"}
WITNESS_RESERVED = {"a.go": "package wresv\n\ntype Axis int\n\nconst (\n\tx Axis = iota\n\ty\n\tz\n)\n"}
WITNESS_DUP = {"a.go": "package wdup\n\ntype Color int\n\nconst (\n\tRed     Color = 1\n\tCrimson Color = 1\n\tBlue    Color = 2\n)\n"}
WITNESS_FOREIGN = {"a.go": "package wforeign\n\nimport \"time\"\n\ntype Lvl int64\n\nconst (\n\tLvlA Lvl           = 1\n"
                           "\tTick time.Duration = 5\n\tTock\n)\n"}


class BuildOnly:
    """a witness package that is only generated and compiled"""

    def __init__(self, batch, shoot, name, files, args):
        self.name = name
        d = batch.mod / name
        l2.write_files(d, files)
        self.gen = l2.run_shoot(shoot, d, args, timeout=60)
        batch.extra_dirs[name] = {}
        self.batch = batch

    def errors(self):
        return self.batch.extra_errs.get(self.name, [])


GUARD_ERR = re.compile(r"\.shootenum\S*\.go:\d+:\d+: (invalid argument: index .*|.*overflows.*|undefined: \w+|"
                       r"cannot use .* constant.*|duplicate key .* in map literal)")


def declared_changed(spec, spec2):
    """has the value of a constant that was declared at generation time changed (or is it gone)?"""
    env2 = {n: v for n, v, _ in spec2.const_env()}
    for T in [t.tname for t in spec.targets] + [U for U, _ in getattr(spec, "extra_generated", [])]:
        for n, v in spec.declared(T):
            if env2.get(n) != v:
                return True
    return False


def stale_failure_is_guard(errors):
    """a failed build of a stale variant must show an error of the guard (or of a table key) in a generated file"""
    return any(GUARD_ERR.search(l) for l in errors)
