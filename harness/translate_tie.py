"""The translation tie: regenerate the model of the small runtime functions from
the CURRENT source text (harness/go/cmd/go2gallina) and let Coq re-prove that
the translated definitions equal the hand-written models the property theorems
are about (coq/Bridge/<Area>Bridge.v), plus the property theorems restated over
the translated definitions.  See docs/translator.md.

    translation_tie(run, area) -> {"status": ..., "functions": [...], "wall_s": ...}

status
    "proved"                    the bridge and its corollaries were checked by coqc against
                                the code as it is now
    "unavailable: <why>"        the source uses a construct outside the translator's subset
                                (or the translator / generated file could not be processed):
                                NOT a statement about the property; the differential tie stands alone
    "bridge-broken: <lemma> (<file>:<line>): <message>"
                                the translated code is no longer provably the model: on SOME input
                                code and model may differ; the caller searches for a concrete one
"""
import os
import re
import time

import lib

AREAS = {
    "retry": {
        "module": "RetryGen",
        "bridge": "Bridge/RetryBridge.v",
        # "prims": files of coq/Bridge without dependency on generated code; like everything under coq/Bridge they are
        # not part of the project make (lib.gen_coqproject leaves the directory out): they are compiled here, into
        # the run's scratch directory, mapped to the logical path Shoot.Bridge
        # "targets": project files the bridge needs, built through the locked make
        "prims": ["GoPrims", "RetryPrims"],
        "targets": ["Base/Str.vo", "Proofs/RetryProofs.vo"],
        "property": "C20",
    },
    "rest": {
        "module": "RestGen",
        "bridge": "Bridge/RestBridge.v",
        "prims": ["GoPrims", "RestPrims"],
        "targets": ["Base/Str.vo", "Proofs/RestRuntimeProofs.vo"],
        "property": "C19",
    },
    "transfer": {
        "module": "TransferGen",
        "bridge": "Bridge/TransferBridge.v",
        "prims": ["GoPrims", "StrFacts"],
        "targets": ["Base/Str.vo", "Proofs/TransferProofs.vo"],
        "property": "transfer (C02 C03 C05 C11 C13 C16 ...: every model that uses Model/Transfer.v)",
    },
    "filename": {
        "module": "FileNameGen",
        "bridge": "Bridge/FileNameBridge.v",
        "prims": ["GoPrims", "StrFacts", "CliPrims"],
        "targets": ["Base/Str.vo", "Model/Cli.vo"],
        "property": "C16 (file_name / fix_path of Model/Cli.v; also used by C07 C08 C17)",
    },
    # stage 5: analysis code (store discipline: docs/translator.md)
    "mapmatch": {
        "module": "MapMatchGen",
        "bridge": "Bridge/MapMatchBridge.v",
        "prims": ["GoPrims", "MapPrims"],
        "targets": ["Base/Str.vo", "Proofs/MapperProofs.vo", "Proofs/MapperAttribProofs.vo"],
        "property": "C05 C09 C15 (makeTypeMatch / canNameMatch / matchType of internal/mapper/match.go = step_match pass of Model/Mapper.v)",
    },
    "ctorshadow": {
        "module": "CtorShadowGen",
        "bridge": "Bridge/CtorShadowBridge.v",
        "prims": ["GoPrims", "CtorPrims"],
        "targets": ["Base/Str.vo", "Proofs/CtorFlattenProofs.vo"],
        "property": "C02 C03 C11 (checkShadowAndAppend of internal/constructor/fields.go = mark_pass / check_shadow_and_append of Model/Ctor.v)",
    },
    "cliselect": {
        "module": "CliSelectGen",
        "bridge": "Bridge/CliSelectBridge.v",
        "prims": ["GoPrims", "CliSelPrims"],
        "targets": ["Base/Str.vo", "Proofs/CliProofs.vo"],
        "property": "C16 (confirmTypes of internal/shoot/generatorbase.go = confirm_specified / the type-list choice of run_loaded; Contains = mem)",
    },
    # stage 6: the file-system side
    "writeproto": {
        "module": "WriteProtoGen",
        "bridge": "Bridge/WriteProtoBridge.v",
        "prims": ["GoPrims", "FsPrims"],
        "targets": ["Base/Str.vo", "Proofs/FsProofs.vo"],
        "property": "C17 C18 (notedownSrc, the write loop / message / Clean order of main, Clean, isAllInOneFile, isGeneratedBy: "
                    "the system calls issued = plan / faulted plan k of Model/Fs.v)",
    },
    # stage 7: more analysis code
    "mapcheck": {
        "module": "MapCheckGen",
        "bridge": "Bridge/MapCheckBridge.v",
        "prims": ["GoPrims", "MapPrims", "MapCheckPrims"],
        "targets": ["Base/Str.vo", "Model/Mapper.vo"],
        "property": "C09 C05 (prepareReadPaths, nilCheckRead, nilCheckWrite of internal/mapper/check.go = paths_map / the need predicates / "
                    "ptr_path_list of Model/Mapper.v analyse)",
    },
    "mapctor": {
        "module": "MapCtorGen",
        "bridge": "Bridge/MapCtorBridge.v",
        "prims": ["GoPrims", "MapCtorPrims"],
        "targets": ["Base/Str.vo", "Model/Mapper.vo", "Proofs/MapperCtorProofs.vo"],
        "property": "C15 (makeCtorMatch of internal/mapper/ctor.go: the three nested loops, the zero-value loop and the method calling it "
                    "for both directions = make_ctor_match / ctor_step / ctor_func_loop of Model/Mapper.v, as used by prepare)",
    },
    "ctornew": {
        "module": "CtorNewGen",
        "bridge": "Bridge/CtorNewBridge.v",
        "prims": ["GoPrims", "NewPrims"],
        "targets": ["Base/Str.vo", "Model/Ctor.vo", "Model/CtorOpt.vo"],
        "property": "C02 C13 (Generator.makeNew of internal/constructor/new.go and newParamsList of fields.go = make_new_loop / "
                    "new_params_list / new_tparams of Model/Ctor.v make_new, the inputs of Model/CtorOpt.v make_opt; newBody is not translated)",
    },
    "ctorjson": {
        "module": "CtorJsonGen",
        "bridge": "Bridge/CtorJsonBridge.v",
        "prims": ["GoPrims", "JsonPrims"],
        "targets": ["Base/Str.vo", "Model/CtorJson.vo"],
        "property": "C11 (Generator.makeJson of internal/constructor/json.go with Field.JSONTag / HasJSONTag = make_json / make_json_loop of "
                    "Model/CtorJson.v: tag transform, needJSON, the four lists and the tag map)",
    },
    "restparam": {
        "module": "RestParamGen",
        "bridge": "Bridge/RestParamBridge.v",
        "prims": ["GoPrims", "RestParamPrims"],
        "targets": ["Base/Str.vo", "Model/Rest.vo", "Proofs/RestBase.vo"],
        "property": "C06 (setBodyParamName, handleMapType, handleIdent and the field loop of handleStruct of internal/restclient/"
                    "paramhandler.go simulate set_body / handle_map / handle_ident / handle_field of Model/Rest.v)",
    },
    "enum": {
        "module": "EnumGen",
        "bridge": "Bridge/EnumBridge.v",
        "prims": ["GoPrims", "EnumPrims", "EnumFacts"],
        "targets": ["Base/Str.vo", "Model/Enum.vo"],
        "property": "C12",
    },
}

GEN_TIMEOUT = 120
PRIMS_TIMEOUT = 600
BRIDGE_TIMEOUT = 300


def _first_error(txt):
    """(file, line, message) of the first coqc error"""
    m = re.search(r'File "([^"]+)", line (\d+), characters [^\n]*\n(.*)', txt, re.S)
    if not m:
        return None, None, " ".join(txt.split())[:300]
    msg = " ".join(m.group(3).split())
    msg = re.sub(r"^Error:\s*", "", msg)
    return m.group(1), int(m.group(2)), msg[:300]


def _enclosing(path, line):
    """name of the lemma/theorem/definition that contains the line"""
    name = "?"
    try:
        for i, l in enumerate(open(path), 1):
            if i > line:
                break
            m = re.match(r"\s*(?:Lemma|Theorem|Corollary|Definition|Fixpoint|Example|Ltac)\s+(\w+)", l)
            if m:
                name = m.group(1)
    except OSError:
        pass
    return name


# ---------------------------------------------------------------------------------------------------
# The probe.  When an area ends "bridge-broken" (the source translated, a lemma of the bridge fails) the
# translated ROOT functions - whose names and signatures refactorings keep - are evaluated inside Coq
# (vm_compute, one coqc call) against the model functions on a corpus: a fixed list plus pseudo-random
# inputs from the run's seed.  The status then says either "K of N inputs differ, first: <input>" (code
# and model disagree: a concrete input) or "agrees on N inputs" (the proof script no longer fits the
# generated definitions: the bridge needs maintenance).  A probe file refers to roots only.
PROBE_TIMEOUT = 120
_WORDS_L = ["id", "user", "name", "http", "url", "x", "ab", "json", "v", "get", "case", "is"]
_WORDS_C = ["Id", "User", "Name", "Http", "Url", "X", "Ab", "Json", "V", "Get", "Case", "Is"]
_WORDS_U = ["ID", "HTTP", "URL", "JSON", "XML", "API", "IP", "A", "AB", "DB", "UUID"]
_FIXED_STRINGS = [
    "", "a", "A", "z", "Z", "0", "_", "__", "___", "ID", "id", "Id", "iD", "userID", "UserID", "userId", "user_id", "User_ID",
    "HTTPServer", "httpServer", "HttpServer", "getHTTPResponse", "URL2Path", "url2path", "XMLHttpReq", "JSONData", "jsonDATA",
    "X", "xY", "Xy", "XY", "XYz", "xYZ", "XyZ", "aBC", "ABc", "AbC", "abC", "_a", "a_", "_A", "A_", "a_b", "a__b", "A_B", "a_B", "A_b",
    "_a_", "__a", "a__", "A1", "a1", "1a", "1A", "a1B", "A1b", "a1b2", "A1B2", "v2", "V2", "V2Ray", "IPv6", "IPV6Addr", "ipv6",
    "x_1", "_1", "1_", "9", "99", "snake_case", "Snake_Case", "SNAKE_CASE", "SNAKE_case", "mixed_CaseID", "aB_cD", "AB_CD", "ab_cd",
    "ABC", "ABCD", "ABCDe", "ABCde", "aBCDe", "abcde", "Abcde", "ABCDEFGHIJKL", "abcdefghijkl", "aAaAaAaAaAaA", "A_A_A_A_A_A_",
    "ID_", "_ID", "ID_ID", "IDs", "IDS", "iDs", "URLs", "UrlS", "a0A", "A0a", "A0A", "a0a", "aA0", "Aa0", "AA0", "aa0", "0aA", "0Aa",
]


def _rand_strings(seed, k):
    import random
    rnd = random.Random("probe-%s" % seed)
    alpha = "abcxyzABCXYZ019__"
    out = []
    while len(out) < k:
        if rnd.random() < 0.55:
            s = ""
            while len(s) < rnd.randint(1, 12):
                pool = rnd.choice([_WORDS_L, _WORDS_C, _WORDS_U, ["_"], ["_"], ["0", "1", "2", "42"]])
                s += rnd.choice(pool)
            s = s[:12]
        else:
            s = "".join(rnd.choice(alpha) for _ in range(rnd.randint(1, 12)))
        out.append(s)
    return out


def _coq_strings(l):
    return "[" + "; ".join('"%s"' % x for x in l) + "]"


def _probe_transfer(seed):
    corpus = list(dict.fromkeys(_FIXED_STRINGS + _rand_strings(seed, 400)))
    import random
    rnd = random.Random("probe-pairs-%s" % seed)
    pairs = []
    for x in corpus[:260]:
        pairs += [(x, x), (x, x.lower()), (x, x.replace("_", "")), (x, x[:1].lower() + x[1:]), (x, rnd.choice(corpus))]
    pairs = list(dict.fromkeys(pairs))[:900]
    txt = """From Coq Require Import List ZArith Bool String Ascii.
From Shoot Require Import Base.Str Model.Transfer Bridge.GoPrims.
From ShootGen Require Import TransferGen.
Import ListNotations.
Local Open Scope string_scope.
Definition show (o : outcome string) : string :=
  match o with Returned s => "returns " ++ s | Panicked _ => "PANICS" | OutOfFuel => "OUT OF FUEL" end.
Definition showl (o : outcome (list string)) : string :=
  match o with Returned l => "returns " ++ String.concat "|" l | Panicked _ => "PANICS" | OutOfFuel => "OUT OF FUEL" end.
Definition showb (o : outcome bool) : string :=
  match o with Returned true => "returns true" | Returned false => "returns false" | Panicked _ => "PANICS" | OutOfFuel => "OUT OF FUEL" end.
Definition chk (f input got want : string) : list (string * string * string * string) :=
  if String.eqb got want then [] else [(f, input, got, want)].
Definition corpus : list string := %s.
Definition pairs : list (string * string) := %s.
Definition bytes : list ascii := map ascii_of_nat (seq 0 256).
Definition byte_name (b : ascii) : string := String b "".
Definition tf (b : bool) : string := if b then "true" else "false".
Definition bad : list (string * string * string * string) :=
  List.concat [
    flat_map (fun s => List.concat [
       chk "FirstLowerLetter" s (show (fst (FirstLowerLetter s tt))) ("returns " ++ first_lower_letter s);
       chk "ToPascalCase" s (show (fst (ToPascalCase s tt))) ("returns " ++ to_pascal_case s);
       chk "splitCamelTokensASCII" s (showl (fst (splitCamelTokensASCII s tt))) ("returns " ++ String.concat "|" (split_camel_tokens s));
       chk "ToCamelCase" s (show (fst (ToCamelCase s tt))) ("returns " ++ to_camel_case s);
       chk "ToCamelCaseGO" s (show (fst (ToCamelCaseGO s tt))) ("returns " ++ to_camel_case_go s)]) corpus;
    flat_map (fun p => chk "smartMatch" (fst p ++ " , " ++ snd p) (showb (fst (smartMatch (fst p) (snd p) tt)))
                           ("returns " ++ tf (smart_match (fst p) (snd p)))) pairs;
    flat_map (fun b => List.concat [
       chk "IsUpper" (byte_name b) (tf (IsUpper b)) (tf (is_upper b)); chk "IsLower" (byte_name b) (tf (IsLower b)) (tf (is_lower b));
       chk "ToUpper" (byte_name b) (byte_name (ToUpper b)) (byte_name (to_upper_c b));
       chk "ToLower" (byte_name b) (byte_name (ToLower b)) (byte_name (to_lower_c b))]) (map ascii_of_nat (seq 32 95)) ].
Eval vm_compute in ("PROBE_COUNT", List.length bad).
Eval vm_compute in ("PROBE_FIRST", firstn 4 bad).
""" % (_coq_strings(corpus), "[" + "; ".join('("%s", "%s")' % p for p in pairs) + "]")
    return txt, 5 * len(corpus) + len(pairs) + 4 * 95


def _probe_retry(seed):
    import random
    rnd = random.Random("probe-retry-%s" % seed)

    def out():
        k = rnd.random()
        st = rnd.choice([200, 204, 301, 404, 499, 500, 501, 503, 599, 0, -1, 1000])
        if k < 0.5:
            return "RResp {| r_id := %d%%nat; r_status := (%d) |}" % (rnd.randint(0, 9), st)
        if k < 0.8:
            return "RErr %d%%nat None" % rnd.randint(0, 9)
        return "RErr %d%%nat (Some {| r_id := %d%%nat; r_status := (%d) |})" % (rnd.randint(0, 9), rnd.randint(0, 9), st)
    cases = []
    rr = lambda i, st: "RResp {| r_id := %d%%nat; r_status := (%d) |}" % (i, st)
    fixed = [[], [rr(1, 200)], [rr(1, 500)], ["RErr 1%nat None"], [rr(1, 499)], ["RErr 1%nat None", rr(2, 200)],
             [rr(1, 503), rr(2, 503), rr(3, 200)], [rr(1, 500), rr(2, 499)], ["RErr 1%nat (Some " + rr(4, 200)[6:] + ")", rr(2, 200)]]
    for sc in fixed:
        for n in (-2, -1, 0, 1, 2, 3, 5):
            cases.append((n, sc))
    for _ in range(300):
        cases.append((rnd.randint(-2, 7), [out() for _ in range(rnd.randint(0, 8))]))
    body = "; ".join("((%d), [%s])" % (n, "; ".join(sc)) for n, sc in cases)
    txt = """From Coq Require Import List ZArith Bool.
From Shoot Require Import Model.Retry Bridge.RetryPrims.
From ShootGen Require Import RetryGen.
Import ListNotations.
Local Open Scope Z_scope.
Definition eresp (r : resp) : list Z := [Z.of_nat (r_id r); r_status r].
Definition eres (x : option resp * option nat) : list Z :=
  (match fst x with Some r => 1%%Z :: eresp r | None => [0%%Z] end) ++ (match snd x with Some e => [1%%Z; Z.of_nat e] | None => [0%%Z] end).
Definition eev (e : event) : Z := match e with ESleep => (-1)%%Z | ECall i => Z.of_nat i end.
Fixpoint zs_eqb (a b : list Z) : bool :=
  match a, b with [], [] => true | x :: a', y :: b' => Z.eqb x y && zs_eqb a' b' | _, _ => false end.
Definition dflt : rt_out := RErr 99%%nat None.
(* what a run does, as a list of numbers: outcome (9 result | 7 panic | 8 out of fuel), calls, events *)
Definition got (n : Z) (sc : list rt_out) : list Z :=
  let '(o, w) := RetryMiddleware n 5%%Z (init_world (script_of sc dflt)) in
  (match o with Returned r => 9%%Z :: eres r | Panicked _ => [7%%Z] | OutOfFuel => [8%%Z] end)
  ++ [Z.of_nat (w_calls w)] ++ map eev (w_events w).
Definition want (n : Z) (sc : list rt_out) : list Z :=
  let '(ev, r) := retry n (script_of sc dflt) in (9%%Z :: eres r) ++ [Z.of_nat (calls ev)] ++ map eev ev.
Definition eout (o : rt_out) : list Z :=
  match o with RResp r => 100%%Z :: eresp r | RErr e None => [200%%Z; Z.of_nat e] | RErr e (Some r) => 300%%Z :: Z.of_nat e :: eresp r end.
Definition cases : list (Z * list rt_out) := [%s].
Definition bad := flat_map (fun c => if zs_eqb (got (fst c) (snd c)) (want (fst c) (snd c)) then []
                                     else [(fst c, map eout (snd c), got (fst c) (snd c), want (fst c) (snd c))]) cases.
Eval vm_compute in (0, Z.of_nat (List.length bad), 424242).
Eval vm_compute in (1, firstn 3 bad, 424242).
""" % body
    return txt, len(cases)


PROBES = {"transfer": _probe_transfer, "retry": _probe_retry}


def _probe(area, base, gen):
    mk = PROBES.get(area)
    if mk is None:
        return None
    seed = os.environ.get("VERIF_SEED", "0")
    txt, n = mk(seed)
    p = gen / "Probe.v"
    p.write_text(txt)
    rc, out, err = lib.sh(base + [str(p)], cwd=gen, timeout=PROBE_TIMEOUT)
    if rc != 0:
        _, line, msg = _first_error(out + err) if rc != 124 else (None, 0, "coqc did not finish within %d s" % PROBE_TIMEOUT)
        return {"inputs": 0, "seed": seed, "error": "the probe does not compile against the translated roots (line %s): %s" % (line, msg)}
    flat = " ".join(out.split())
    if area == "retry":
        m = re.search(r"\(0, (\d+), 424242\)", flat)
        first = re.search(r"\(1, (.*?), 424242\)", flat)
        dis = []
        if m and int(m.group(1)) > 0 and first:
            legend = ("script entries: 100 id status = a response | 200 e = an error | 300 e id status = both; behaviour: 9 = returned, "
                      "1 id status | 0 = response or nil, 1 e | 0 = error or nil, number of calls, events (i = call i, -1 = sleep)")
            for n_, sc, g, w in re.findall(r"\((-?\d+), (\[(?:\[[^\]]*\](?:; )?)*\]), (\[[^\]]*\]), (\[[^\]]*\])\)", first.group(1)):
                dis.append({"function": "RetryMiddleware", "input": "maxRetries=%s script=%s" % (n_, sc), "translated": g, "model": w,
                            "legend": legend})
        return {"inputs": n, "seed": seed, "differ": int(m.group(1)) if m else -1, "disagreements": dis}
    m = re.search(r'\("PROBE_COUNT", (\d+)\)', flat)
    first = re.search(r'\("PROBE_FIRST", (.*?)\) : string \*', flat)
    dis = []
    if first:
        for f, i, g, w in re.findall(r'\("([^"]*)", "([^"]*)", "([^"]*)", "([^"]*)"\)', first.group(1)):
            dis.append({"function": f, "input": i, "translated": g, "model": w})
    return {"inputs": n, "seed": seed, "differ": int(m.group(1)) if m else -1, "disagreements": dis}


def _probe_text(pr):
    if pr is None:
        return ""
    if pr.get("error"):
        return "; probe: " + pr["error"]
    if pr.get("differ", -1) < 0:
        return "; probe: no answer"
    if pr["differ"] == 0:
        return "; probe: agrees on %d inputs (proof script no longer fits the generated definitions)" % pr["inputs"]
    d = pr["disagreements"][0] if pr["disagreements"] else {}
    if "function" in d:
        first = '%s("%s") %s, model: %s' % (d["function"], d["input"], d["translated"], d["model"])
        if d.get("legend"):
            first += " (" + d["legend"] + ")"
    else:
        first = " ".join(str(v) for v in d.values())[:300]
    return "; probe: %d of %d inputs differ, first: %s" % (pr["differ"], pr["inputs"], first)


def translation_tie(run, area):
    t0 = time.time()
    spec = AREAS.get(area)

    def res(status, **kw):
        d = {"status": status, "area": area, "functions": [], "wall_s": round(time.time() - t0, 2)}
        d.update(kw)
        return d
    if spec is None:
        return res("unavailable: no translator area %r" % area)
    tool = run.build_helper("go2gallina")
    gen = run.scratch / ("gen_" + area)
    gen.mkdir(exist_ok=True)
    rc, out, err = lib.sh([str(tool), "-repo", str(lib.REPO), "-area", area, "-o", str(gen)], timeout=60)
    if rc == 2:
        msg = err.strip().splitlines()[-1] if err.strip() else "?"
        return res("unavailable: " + msg.replace("go2gallina: unsupported: ", "source outside the translated subset: "))
    if rc != 0:
        return res("unavailable: go2gallina failed (rc %s): %s" % (rc, " ".join(err.split())[-200:]))
    import json
    info = json.loads(out.strip().splitlines()[-1])
    genfile = gen / (spec["module"] + ".v")
    bridge = lib.COQ / spec["bridge"]
    # the same source audit as for every other Coq file of a check
    for p in (genfile, bridge):
        m = lib.FORBIDDEN.search(lib.strip_comments(p.read_text()))
        if m:
            return res("unavailable: forbidden vernacular %r in %s" % (m.group(0), p.name), functions=info["functions"])
    ok, log = run.coq_make(spec["targets"])
    if not ok:
        raise lib.CheckBroken("translation tie: make %s failed: %s" % (spec["targets"], log[-1500:]))
    bdir = run.scratch / ("bridge_" + area)
    bdir.mkdir(exist_ok=True)
    base = ["coqc", "-Q", str(lib.COQ), "Shoot", "-Q", str(bdir), "Shoot.Bridge", "-Q", str(gen), "ShootGen"]
    # the files of coq/Bridge that do not depend on generated code are compiled once per content
    # (their text, the earlier ones of the list, and the project .vo files the area builds on) and kept
    # under .build/bridge-cache; a run copies them into its scratch directory
    import hashlib
    h = hashlib.sha256()
    for tgt in spec["targets"]:
        h.update((lib.COQ / tgt).read_bytes())
    for name in spec["prims"]:
        src = lib.COQ / "Bridge" / (name + ".v")
        txt = src.read_text()
        m = lib.FORBIDDEN.search(lib.strip_comments(txt))
        if m:
            return res("unavailable: forbidden vernacular %r in %s" % (m.group(0), src.name), functions=info["functions"])
        h.update(txt.encode())
        cache = lib.BUILD / "bridge-cache" / (name + "-" + h.hexdigest()[:24] + ".vo")
        dst = bdir / (name + ".v")
        dst.write_text(txt)
        if cache.exists():
            (bdir / (name + ".vo")).write_bytes(cache.read_bytes())
            continue
        rc, out, err = lib.sh(base + [str(dst)], cwd=gen, timeout=PRIMS_TIMEOUT)
        if rc != 0:
            raise lib.CheckBroken("translation tie: coqc %s failed: %s" % (src, (out + err)[-1500:]))
        cache.parent.mkdir(parents=True, exist_ok=True)
        tmp = cache.with_suffix(".tmp%d" % os.getpid())
        tmp.write_bytes((bdir / (name + ".vo")).read_bytes())
        os.replace(tmp, cache)
    rc, out, err = lib.sh(base + [str(genfile)], cwd=gen, timeout=GEN_TIMEOUT)
    if rc != 0:
        _, line, msg = _first_error(out + err)
        return res("unavailable: the translated file does not type-check (%s line %s): %s"
                   % (genfile.name, line, msg), functions=info["functions"])
    rc, out, err = lib.sh(base + ["-o", str(gen / (bridge.stem + ".vo")), str(bridge)], cwd=gen, timeout=BRIDGE_TIMEOUT)
    if rc == 124:
        return res("unavailable: coqc did not finish %s within %d s" % (bridge.name, BRIDGE_TIMEOUT),
                   functions=info["functions"])
    if rc != 0:
        f, line, msg = _first_error(out + err)
        pr = _probe(area, base, gen)
        kw = {"probe": pr} if pr is not None else {}
        return res("bridge-broken: %s (%s:%s): %s%s" % (_enclosing(bridge, line or 0), bridge.name, line, msg, _probe_text(pr)),
                   functions=info["functions"], generated=genfile.read_text()[:6000], **kw)
    txt = lib.strip_comments(bridge.read_text())
    n_print = len(re.findall(r"Print\s+Assumptions", txt))
    closed = out.count("Closed under the global context")
    if closed != n_print:
        return res("bridge-broken: Print Assumptions not closed (%d of %d)" % (closed, n_print),
                   functions=info["functions"])
    theorems = re.findall(r"^\s*Theorem\s+(\w+)", txt, re.M)
    return res("proved", functions=info["functions"], definitions=info["definitions"], theorems=theorems,
               bridge=spec["bridge"], property=spec["property"])


if __name__ == "__main__":
    # python3 harness/translate_tie.py retry      (VERIF_REPO selects the checkout)
    import json
    import sys
    run = lib.Run("C00", "quick")
    print(json.dumps(translation_tie(run, sys.argv[1] if len(sys.argv) > 1 else "retry"), indent=1)[:3000])
