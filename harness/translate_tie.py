"""The translation tie: regenerate the model of the small runtime functions from
the CURRENT source text (harness/go/cmd/go2gallina) and let Coq re-prove that
the translated definitions equal the hand-written models the property theorems
are about (coq/Bridge/<Area>Bridge.v), plus the property theorems restated over
the translated definitions.  See docs/translator.md.

    translation_tie(run, area) -> {"status": ..., "functions": [...], "wall_s": ...}

status
    "proved"                    the bridge and its corollaries were checked by coqc against
                                the code as it is now
    "unavailable: <why>"        the source uses a construct outside the translator's subset
                                (or the translator / generated file could not be processed):
                                NOT a statement about the property; the differential tie stands alone
    "bridge-broken: <lemma> (<file>:<line>): <message>"
                                the translated code is no longer provably the model: on SOME input
                                code and model may differ; the caller searches for a concrete one
"""
import os
import re
import time

import lib

AREAS = {
    "retry": {
        "module": "RetryGen",
        "bridge": "Bridge/RetryBridge.v",
        # "prims": files of coq/Bridge without dependency on generated code; like everything under coq/Bridge they are
        # not part of the project make (lib.gen_coqproject leaves the directory out): they are compiled here, into
        # the run's scratch directory, mapped to the logical path Shoot.Bridge
        # "targets": project files the bridge needs, built through the locked make
        "prims": ["GoPrims", "RetryPrims"],
        "targets": ["Base/Str.vo", "Proofs/RetryProofs.vo"],
        "property": "C20",
    },
    "rest": {
        "module": "RestGen",
        "bridge": "Bridge/RestBridge.v",
        "prims": ["GoPrims", "RestPrims"],
        "targets": ["Base/Str.vo", "Proofs/RestRuntimeProofs.vo"],
        "property": "C19",
    },
    "transfer": {
        "module": "TransferGen",
        "bridge": "Bridge/TransferBridge.v",
        "prims": ["GoPrims", "StrFacts"],
        "targets": ["Base/Str.vo", "Proofs/TransferProofs.vo"],
        "property": "transfer (C02 C03 C05 C11 C13 C16 ...: every model that uses Model/Transfer.v)",
    },
    "filename": {
        "module": "FileNameGen",
        "bridge": "Bridge/FileNameBridge.v",
        "prims": ["GoPrims", "StrFacts", "CliPrims"],
        "targets": ["Base/Str.vo", "Model/Cli.vo"],
        "property": "C16 (file_name / fix_path of Model/Cli.v; also used by C07 C08 C17)",
    },
    # stage 5: analysis code (store discipline: docs/translator.md)
    "mapmatch": {
        "module": "MapMatchGen",
        "bridge": "Bridge/MapMatchBridge.v",
        "prims": ["GoPrims", "MapPrims"],
        "targets": ["Base/Str.vo", "Proofs/MapperProofs.vo", "Proofs/MapperAttribProofs.vo"],
        "property": "C05 C09 C15 (makeTypeMatch / canNameMatch / matchType of internal/mapper/match.go = step_match pass of Model/Mapper.v)",
    },
    "ctorshadow": {
        "module": "CtorShadowGen",
        "bridge": "Bridge/CtorShadowBridge.v",
        "prims": ["GoPrims", "CtorPrims"],
        "targets": ["Base/Str.vo", "Proofs/CtorFlattenProofs.vo"],
        "property": "C02 C03 C11 (checkShadowAndAppend of internal/constructor/fields.go = mark_pass / check_shadow_and_append of Model/Ctor.v)",
    },
    "cliselect": {
        "module": "CliSelectGen",
        "bridge": "Bridge/CliSelectBridge.v",
        "prims": ["GoPrims", "CliSelPrims"],
        "targets": ["Base/Str.vo", "Proofs/CliProofs.vo"],
        "property": "C16 (confirmTypes of internal/shoot/generatorbase.go = confirm_specified / the type-list choice of run_loaded; Contains = mem)",
    },
    # stage 6: the file-system side
    "writeproto": {
        "module": "WriteProtoGen",
        "bridge": "Bridge/WriteProtoBridge.v",
        "prims": ["GoPrims", "FsPrims"],
        "targets": ["Base/Str.vo", "Proofs/FsProofs.vo"],
        "property": "C17 C18 (notedownSrc, the write loop / message / Clean order of main, Clean, isAllInOneFile, isGeneratedBy: "
                    "the system calls issued = plan / faulted plan k of Model/Fs.v)",
    },
    # stage 7: more analysis code
    "mapcheck": {
        "module": "MapCheckGen",
        "bridge": "Bridge/MapCheckBridge.v",
        "prims": ["GoPrims", "MapPrims", "MapCheckPrims"],
        "targets": ["Base/Str.vo", "Model/Mapper.vo"],
        "property": "C09 C05 (prepareReadPaths, nilCheckRead, nilCheckWrite of internal/mapper/check.go = paths_map / the need predicates / "
                    "ptr_path_list of Model/Mapper.v analyse)",
    },
    "mapctor": {
        "module": "MapCtorGen",
        "bridge": "Bridge/MapCtorBridge.v",
        "prims": ["GoPrims", "MapCtorPrims"],
        "targets": ["Base/Str.vo", "Model/Mapper.vo", "Proofs/MapperCtorProofs.vo"],
        "property": "C15 (makeCtorMatch of internal/mapper/ctor.go: the three nested loops, the zero-value loop and the method calling it "
                    "for both directions = make_ctor_match / ctor_step / ctor_func_loop of Model/Mapper.v, as used by prepare)",
    },
    "ctornew": {
        "module": "CtorNewGen",
        "bridge": "Bridge/CtorNewBridge.v",
        "prims": ["GoPrims", "NewPrims"],
        "targets": ["Base/Str.vo", "Model/Ctor.vo", "Model/CtorOpt.vo"],
        "property": "C02 C13 (Generator.makeNew of internal/constructor/new.go and newParamsList of fields.go = make_new_loop / "
                    "new_params_list / new_tparams of Model/Ctor.v make_new, the inputs of Model/CtorOpt.v make_opt; newBody is not translated)",
    },
    "ctorjson": {
        "module": "CtorJsonGen",
        "bridge": "Bridge/CtorJsonBridge.v",
        "prims": ["GoPrims", "JsonPrims"],
        "targets": ["Base/Str.vo", "Model/CtorJson.vo"],
        "property": "C11 (Generator.makeJson of internal/constructor/json.go with Field.JSONTag / HasJSONTag = make_json / make_json_loop of "
                    "Model/CtorJson.v: tag transform, needJSON, the four lists and the tag map)",
    },
    "restparam": {
        "module": "RestParamGen",
        "bridge": "Bridge/RestParamBridge.v",
        "prims": ["GoPrims", "RestParamPrims"],
        "targets": ["Base/Str.vo", "Model/Rest.vo", "Proofs/RestBase.vo"],
        "property": "C06 (setBodyParamName, handleMapType, handleIdent and the field loop of handleStruct of internal/restclient/"
                    "paramhandler.go simulate set_body / handle_map / handle_ident / handle_field of Model/Rest.v)",
    },
    "enum": {
        "module": "EnumGen",
        "bridge": "Bridge/EnumBridge.v",
        "prims": ["GoPrims", "EnumPrims", "EnumFacts"],
        "targets": ["Base/Str.vo", "Model/Enum.vo"],
        "property": "C12",
    },
}

GEN_TIMEOUT = 120
PRIMS_TIMEOUT = 600
BRIDGE_TIMEOUT = 300


def _first_error(txt):
    """(file, line, message) of the first coqc error"""
    m = re.search(r'File "([^"]+)", line (\d+), characters [^\n]*\n(.*)', txt, re.S)
    if not m:
        return None, None, " ".join(txt.split())[:300]
    msg = " ".join(m.group(3).split())
    msg = re.sub(r"^Error:\s*", "", msg)
    return m.group(1), int(m.group(2)), msg[:300]


def _enclosing(path, line):
    """name of the lemma/theorem/definition that contains the line"""
    name = "?"
    try:
        for i, l in enumerate(open(path), 1):
            if i > line:
                break
            m = re.match(r"\s*(?:Lemma|Theorem|Corollary|Definition|Fixpoint|Example|Ltac)\s+(\w+)", l)
            if m:
                name = m.group(1)
    except OSError:
        pass
    return name


def translation_tie(run, area):
    t0 = time.time()
    spec = AREAS.get(area)

    def res(status, **kw):
        d = {"status": status, "area": area, "functions": [], "wall_s": round(time.time() - t0, 2)}
        d.update(kw)
        return d
    if spec is None:
        return res("unavailable: no translator area %r" % area)
    tool = run.build_helper("go2gallina")
    gen = run.scratch / ("gen_" + area)
    gen.mkdir(exist_ok=True)
    rc, out, err = lib.sh([str(tool), "-repo", str(lib.REPO), "-area", area, "-o", str(gen)], timeout=60)
    if rc == 2:
        msg = err.strip().splitlines()[-1] if err.strip() else "?"
        return res("unavailable: " + msg.replace("go2gallina: unsupported: ", "source outside the translated subset: "))
    if rc != 0:
        return res("unavailable: go2gallina failed (rc %s): %s" % (rc, " ".join(err.split())[-200:]))
    import json
    info = json.loads(out.strip().splitlines()[-1])
    genfile = gen / (spec["module"] + ".v")
    bridge = lib.COQ / spec["bridge"]
    # the same source audit as for every other Coq file of a check
    for p in (genfile, bridge):
        m = lib.FORBIDDEN.search(lib.strip_comments(p.read_text()))
        if m:
            return res("unavailable: forbidden vernacular %r in %s" % (m.group(0), p.name), functions=info["functions"])
    ok, log = run.coq_make(spec["targets"])
    if not ok:
        raise lib.CheckBroken("translation tie: make %s failed: %s" % (spec["targets"], log[-1500:]))
    bdir = run.scratch / ("bridge_" + area)
    bdir.mkdir(exist_ok=True)
    base = ["coqc", "-Q", str(lib.COQ), "Shoot", "-Q", str(bdir), "Shoot.Bridge", "-Q", str(gen), "ShootGen"]
    # the files of coq/Bridge that do not depend on generated code are compiled once per content
    # (their text, the earlier ones of the list, and the project .vo files the area builds on) and kept
    # under .build/bridge-cache; a run copies them into its scratch directory
    import hashlib
    h = hashlib.sha256()
    for tgt in spec["targets"]:
        h.update((lib.COQ / tgt).read_bytes())
    for name in spec["prims"]:
        src = lib.COQ / "Bridge" / (name + ".v")
        txt = src.read_text()
        m = lib.FORBIDDEN.search(lib.strip_comments(txt))
        if m:
            return res("unavailable: forbidden vernacular %r in %s" % (m.group(0), src.name), functions=info["functions"])
        h.update(txt.encode())
        cache = lib.BUILD / "bridge-cache" / (name + "-" + h.hexdigest()[:24] + ".vo")
        dst = bdir / (name + ".v")
        dst.write_text(txt)
        if cache.exists():
            (bdir / (name + ".vo")).write_bytes(cache.read_bytes())
            continue
        rc, out, err = lib.sh(base + [str(dst)], cwd=gen, timeout=PRIMS_TIMEOUT)
        if rc != 0:
            raise lib.CheckBroken("translation tie: coqc %s failed: %s" % (src, (out + err)[-1500:]))
        cache.parent.mkdir(parents=True, exist_ok=True)
        tmp = cache.with_suffix(".tmp%d" % os.getpid())
        tmp.write_bytes((bdir / (name + ".vo")).read_bytes())
        os.replace(tmp, cache)
    rc, out, err = lib.sh(base + [str(genfile)], cwd=gen, timeout=GEN_TIMEOUT)
    if rc != 0:
        _, line, msg = _first_error(out + err)
        return res("unavailable: the translated file does not type-check (%s line %s): %s"
                   % (genfile.name, line, msg), functions=info["functions"])
    rc, out, err = lib.sh(base + ["-o", str(gen / (bridge.stem + ".vo")), str(bridge)], cwd=gen, timeout=BRIDGE_TIMEOUT)
    if rc == 124:
        return res("unavailable: coqc did not finish %s within %d s" % (bridge.name, BRIDGE_TIMEOUT),
                   functions=info["functions"])
    if rc != 0:
        f, line, msg = _first_error(out + err)
        return res("bridge-broken: %s (%s:%s): %s" % (_enclosing(bridge, line or 0), bridge.name, line, msg),
                   functions=info["functions"], generated=genfile.read_text()[:6000])
    txt = lib.strip_comments(bridge.read_text())
    n_print = len(re.findall(r"Print\s+Assumptions", txt))
    closed = out.count("Closed under the global context")
    if closed != n_print:
        return res("bridge-broken: Print Assumptions not closed (%d of %d)" % (closed, n_print),
                   functions=info["functions"])
    theorems = re.findall(r"^\s*Theorem\s+(\w+)", txt, re.M)
    return res("proved", functions=info["functions"], definitions=info["definitions"], theorems=theorems,
               bridge=spec["bridge"], property=spec["property"])


if __name__ == "__main__":
    # python3 harness/translate_tie.py retry      (VERIF_REPO selects the checkout)
    import json
    import sys
    run = lib.Run("C00", "quick")
    print(json.dumps(translation_tie(run, sys.argv[1] if len(sys.argv) > 1 else "retry"), indent=1)[:3000])
