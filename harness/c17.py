"""C17: writes are confined, atomic and never delete hand-written files.

Theorems: coq/Properties/C17.v (model coq/Model/Fs.v, lemmas coq/Proofs/FsProofs.v).
Correspondence (coq/Corr/FsCorr.v), layer L3: the freshly built shoot binary runs
under strace on generated directory states; the projected syscall trace, the
directory/inode state before and after, and the content of every pre-existing
inode (through hard links kept outside the package) are compared with the
model's operation list and final state inside Coq.  Runs killed with SIGKILL at
random instants and concurrent readers: a handful in the quick tier, 260 / 12 in
the thorough tier."""
import concurrent.futures as cf
import json
import os
import shutil
import signal
import subprocess
import threading
import time
from pathlib import Path

import fsgen
import l2
import lib

PAR = 4
PROP_FILE = "Properties/C17.v"
CORR = ["Corr/FsCorr.v"]


# ------------------------------------------------------------------ building
def build_case(run, shoot, mod, idx, rng, cmd=None, force_mode=None, force_invoke=None, expect_fail=None,
               traced=True, fixed=False, force_kinds=(), supfix=False, obstacle=None, nothing=False, rawflag=None):
    """create the directory state of one case and run shoot on it under strace.
    returns the case dict (JSON-able except for bytes, which are latin-1 strings)"""
    cmd = cmd or fsgen.CMDS[idx % 4]
    root = mod / ("case_%d" % idx)
    if root.exists():
        shutil.rmtree(root)
    (root / "p").mkdir(parents=True)
    p = fsgen.gen_pkg(rng, cmd)
    if nothing:
        # the package declares only types the -file / -type=* selection skips: the run generates nothing;
        # stale outputs of the same subcommand are planted next to it (main returns before g.Clean())
        p.nothing, p.extra = True, {}
    # history of earlier runs + the final invocation
    nhist = 0 if nothing else rng.choice([0, 1, 1, 2, 2, 3])
    hist = [fsgen.gen_inv(rng, p, root, history=True) for _ in range(nhist)]
    hist = [h for h in hist if h.mode != "star_space"]
    if force_mode == "getset_multi":
        # `new -getset -type=A,B[,C]` re-loads the package with an in-memory overlay between the types; the
        # same command ran before, so old outputs of every type exist
        while len(p.all_types()) < 2:
            p = fsgen.gen_pkg(rng, cmd)
        final = fsgen.gen_inv(rng, p, root, mode="types", invoke=force_invoke)
        final.types = p.all_types()[:3]
        final.flags = ["-getset"]
        h0 = fsgen.Inv(p, "types", "pkg", ["-getset"], types=list(final.types))
        hist = [h0]
    else:
        final = fsgen.gen_inv(rng, p, root, mode=force_mode, invoke=force_invoke)
    if rawflag:
        # -raw / -r (unformatted source): same names, same protocol, same cleanup as without it
        final.flags = list(final.flags) + [rawflag]
    if final.mode == "star_space" and not final.dirdot() and not fixed:
        final.invoke = rng.choice(["pkg", "pkgdot"])     # the other combination is finding K_clean_own_output
    for inv in hist + [final]:
        if inv.mode != "star_noline":
            fsgen.place_genline(rng, p, inv, root)
    for inv in hist + [final]:
        # "no generate line" only holds if no other invocation placed the very same command line
        if inv.mode == "star_noline" and any(l.endswith(inv.cmdline(root)) for ls in p.genlines.values() for l in ls):
            inv.mode = "star"
    # a later placement can change which file comes first: recompute
    for inv in hist + [final]:
        if inv.mode in ("star", "starsep", "star_space"):
            line = inv.cmdline(root)
            inv.genfile_src = [f for f in sorted(p.files) if any(l.endswith(line) for l in p.genlines[f])][0]
    files = fsgen.render_pkg(p)
    l2.write_files(root, files)
    if final.twin_dir() is not None:
        # the working directory is itself a loadable package holding the same types
        twin = {}
        for rel, txt in files.items():
            if rel.startswith("p/"):
                twin[str(Path(final.twin_dir()) / rel[2:])] = txt
        l2.write_files(root, twin)
        files = dict(files, **twin)
    hist_log = []
    for inv in hist:
        r = l2.run_shoot(shoot, inv.cwd(root), inv.args(root), timeout=60)
        hist_log.append({"args": inv.args(root), "rc": r["rc"]})
    planted = fsgen.plant(rng, root / "p", cmd, rng.randint(2, 7), forced=force_kinds)
    links = fsgen.plant_links(rng, root, cmd, rng.randint(0, 3))
    # planted files are old (an hour or a month): nothing may treat old leftovers as garbage
    for k, name in enumerate(sorted(planted)):
        age = 3600 if k % 2 == 0 else 30 * 86400
        try:
            os.utime(root / "p" / name, (time.time() - age, time.time() - age))
        except OSError:
            pass
    fail = None
    args = final.args(root)
    obst = {}
    if obstacle and not expect_fail:
        g0, t0 = final.selection()[0]
        obst = fsgen.plant_obstacle(root, fsgen.out_name(cmd, g0, t0), obstacle, "%s%d" % (obstacle.replace("_", "").capitalize(), idx))
    if expect_fail:
        fail = expect_fail
        if fail == "missing_type":
            args = [a if not a.startswith("-type") else "-type=Nope" for a in args]
            if not any(a.startswith("-type") for a in args):
                args = [cmd] + final.flags + ["-type=Nope"] + ([final.dirarg(root)] if final.dirarg(root) else [])
        elif fail == "missing_file":
            args = [cmd] + final.flags + ["-file=nosuch.go"] + ([final.dirarg(root)] if final.dirarg(root) else [])
        elif fail == "bad_flag":
            args = [cmd, "-bogus"] + args[1:]
        elif fail == "missing_dir":
            args = [cmd] + final.flags + ["-type=*", "./nosuchdir"]
        elif fail == "format_error":
            # a struct whose constructor parameter would be the keyword `type`: gofmt of the generated text
            # fails (exit 1) after the whole analysis, just before the write phase
            extra = {"p/kw.go": "package p\n\ntype Kw struct {\n\tType int\n\tname string\n}\n"}
            l2.write_files(root, extra)
            files = dict(files, **extra)
            args = ["new", "-exp", "-type=Kw"] + ([final.dirarg(root)] if final.dirarg(root) else [])
    before = fsgen.snapshot(root)
    keep = fsgen.keep_links(root, mod / ("keep_%d" % idx))
    trace = run.scratch / ("trace_%d.txt" % idx)
    if traced:
        res = fsgen.run_traced(shoot, final.cwd(root), args, trace)
    else:
        r0 = l2.run_shoot(shoot, final.cwd(root), args, timeout=40)
        res = {"rc": r0["rc"], "out": r0["out"], "err": r0["err"], "timed_out": r0["timed_out"]}
    text = trace.read_text(errors="replace") if trace.exists() else ""
    # every mutating call below the module directory that is not in the package directory counts as "outside"
    ops, outside = fsgen.project(text, mod, root / "p", final.cwd(root))
    after = fsgen.snapshot(root)
    kept = {ino: fsgen.read_kept(k) for ino, k in keep.items()}
    try:
        trace.unlink()
    except OSError:
        pass
    shutil.rmtree(mod / ("keep_%d" % idx), ignore_errors=True)
    case = {
        "idx": idx, "cmd": cmd, "mode": final.mode, "invoke": final.invoke, "args": args,
        "cwd": str(final.cwd(root).relative_to(root)) or ".", "root_hint": str(root),
        "clean": final.clean_active() and not fail, "dirdot": final.dirdot(), "fixed": fixed, "supfix": supfix,
        "sel": [] if fail else final.selection(), "expect_ok": not fail, "fail": fail,
        "sources": files, "history": hist_log, "planted": planted, "links": links, "obstacle": obst, "nothing": nothing,
        "before": before, "after": after, "kept": kept, "ops": ops, "outside_trace": outside,
        "rc": res["rc"], "stderr": res["err"][-1500:], "timed_out": res["timed_out"],
    }
    shutil.rmtree(root, ignore_errors=True)
    return case


def fault_case(run, shoot, mod, idx, rng, kind, cmd, fixed=False, supfix=False):
    """one run in which a system call of the write protocol is made to fail:
    kind 1: the package directory is a tmpfs without room for the output (write fails with ENOSPC, possibly
            after a partial write) -> main.go closes and removes the temporary, exit 1;
    kind 2: the output name is occupied by a directory (rename fails) -> exit 1, the temporary stays.
    Single output, invoked from the package directory."""
    root = mod / ("fault_%d" % idx)
    shutil.rmtree(root, ignore_errors=True)
    (root / "p").mkdir(parents=True)
    mounted = False
    try:
        if kind == 1:
            rc, _, err = lib.sh(["mount", "-t", "tmpfs", "-o", "size=256k,mode=0755", "tmpfs", str(root / "p")], timeout=30)
            if rc != 0:
                return {"skipped": "mount -t tmpfs not permitted: " + err.strip()[:200]}
            mounted = True
        free_pages = rng.choice([0, 1, 1]) if kind == 1 else None
        if free_pages == 1:
            # one free page and an output of more than a page: the first write(2) is PARTIAL, the second fails
            cmd = "enum"
            p = fsgen.gen_pkg(rng, cmd)
            while len(p.all_types()) < 3:
                p = fsgen.gen_pkg(rng, cmd)
            final = fsgen.gen_inv(rng, p, root, mode="star", invoke="pkg")
        else:
            p = fsgen.gen_pkg(rng, cmd)
            final = fsgen.gen_inv(rng, p, root, mode=rng.choice(["star", "types"]), invoke="pkg")
        if final.mode == "types":
            final.types = final.types[:1]
        fsgen.place_genline(rng, p, final, root)
        files = fsgen.render_pkg(p)
        l2.write_files(root, files)
        planted = fsgen.plant(rng, root / "p", cmd, rng.randint(1, 3))
        (g, ty), = final.selection()
        outname = fsgen.out_name(cmd, g, ty)
        if kind == 2:
            (root / "p" / outname).mkdir()
        else:
            # fill the file system, then give back 0 or 1 page
            fill = root / "p" / "_filler.txt"
            n = 0
            with open(fill, "wb", buffering=0) as f:
                try:
                    while n < 4096:
                        f.write(b"filler\n" + b"x" * 4089)
                        n += 1
                except OSError:
                    pass
            size = os.path.getsize(fill) // 4096 * 4096
            os.truncate(fill, max(0, size - 4096 * free_pages))
        args = final.args(root)
        before = fsgen.snapshot(root)
        keep = {} if kind == 1 else fsgen.keep_links(root, mod / ("keepf_%d" % idx))
        trace = run.scratch / ("ftrace_%d.txt" % idx)
        res = fsgen.run_traced(shoot, final.cwd(root), args, trace)
        text = trace.read_text(errors="replace") if trace.exists() else ""
        ops, outside = fsgen.project(text, root, root / "p", final.cwd(root))
        after = fsgen.snapshot(root)
        if kind == 1:
            kept = {ino: b for rel, ino, b in before + after if not rel.endswith("/")}
        else:
            kept = {ino: fsgen.read_kept(k) for ino, k in keep.items()}
        if trace.exists():
            trace.unlink()
        shutil.rmtree(mod / ("keepf_%d" % idx), ignore_errors=True)
        failed = res["rc"] != 0
        return {
            "idx": 100000 + idx, "cmd": cmd, "mode": final.mode, "invoke": final.invoke, "args": args, "cwd": "p",
            "root_hint": str(root), "clean": final.clean_active(), "dirdot": True, "fixed": fixed, "supfix": supfix,
            "sel": final.selection(), "expect_ok": True, "fail": None,
            "faultkind": (kind if (failed or kind == 2) else 0), "fault": {"kind": kind, "free_pages": free_pages},
            "sources": files, "history": [], "planted": planted, "links": {},
            "before": before, "after": after, "kept": kept, "ops": ops, "outside_trace": outside,
            "rc": res["rc"], "stderr": res["err"][-1500:], "timed_out": res["timed_out"],
        }
    finally:
        if mounted:
            for _ in range(5):
                rc, _, _ = lib.sh(["umount", str(root / "p")], timeout=30)
                if rc == 0:
                    break
                time.sleep(0.2)
            else:
                lib.sh(["umount", "-l", str(root / "p")], timeout=30)
        shutil.rmtree(root, ignore_errors=True)


def pkg_files(snap):
    """files directly in p/ : [(name, ino, bytes)]"""
    return [(rel[2:], ino, b) for rel, ino, b in snap if rel.startswith("p/") and "/" not in rel[2:] and not rel.endswith("/")]


def outside_changed(case):
    """anything below the case root but outside p/ that differs (path, inode or content), or
    any directory created/removed inside p/"""
    def rest(snap):
        return [(rel, ino, b) for rel, ino, b in snap
                if not (rel.startswith("p/") and "/" not in rel[2:] and not rel.endswith("/"))]
    return rest(case["before"]) != rest(case["after"]) or bool(case["outside_trace"])


def coq_case(case):
    bf = pkg_files(case["before"])
    af = pkg_files(case["after"])
    ids = {}
    for _, ino, _ in sorted(bf):
        ids.setdefault(ino, len(ids))
    # one write per temp file is the rule; otherwise contents are passed unabstracted
    nwrites = {}
    cur = {}
    for o in case["ops"]:
        if o[0] in ("CreateTemp", "OpenTrunc"):
            cur[o[1]] = o[2]
            nwrites.setdefault(o[2], 0)
        elif o[0] == "Write" and o[1] in cur:
            nwrites[cur[o[1]]] += 1
    single = all(v <= 1 for v in nwrites.values())
    absf = fsgen.abstract if single else (lambda b: b)
    before = fsgen.coq_list("{| fi_name := %s; fi_ino := %d; fi_bytes := %s |}"
                            % (fsgen.coq_str(n), ids[ino], fsgen.coq_bytes(absf(b))) for n, ino, b in bf)
    after = fsgen.coq_list("{| af_name := %s; af_ino := %s; af_bytes := %s |}"
                           % (fsgen.coq_str(n), ("Some %d" % ids[ino]) if ino in ids else "None",
                              fsgen.coq_bytes(absf(b))) for n, ino, b in af)
    kept = fsgen.coq_list("(%d, %s)" % (ids[ino], fsgen.coq_bytes(absf(b)))
                          for ino, b in sorted(case["kept"].items()) if ino in ids)
    ops = fsgen.coq_list(fsgen.coq_op(o, absf) for o in case["ops"])
    sel = fsgen.coq_list("(%s, %s)" % (fsgen.coq_str(g), fsgen.coq_str(t)) for g, t in case["sel"])
    rc = case["rc"] if 0 <= case["rc"] < 256 else 255
    tags = {}
    for _, _, b in bf + af:
        tg = fsgen.type_tags(b)
        if tg:
            tags[absf(b)] = tg
    tagtbl = fsgen.coq_list("(%s, %s)" % (fsgen.coq_bytes(k), fsgen.coq_list(fsgen.coq_str(x) for x in v))
                            for k, v in sorted(tags.items()))
    return ("{| k_cmd := %s; k_clean := %s; k_dirdot := %s; k_fixed := %s; k_supfix := %s; k_tags := %s; k_faultkind := %d;\n"
            "   k_sel := %s; k_expect_ok := %s;\n   k_before := %s;\n"
            "   k_ops := %s;\n   k_after := %s;\n   k_kept := %s; k_rc := %d; k_outside := %s |}"
            % (fsgen.coq_str(case["cmd"]), fsgen.coq_bool(case["clean"]), fsgen.coq_bool(case["dirdot"]),
               fsgen.coq_bool(case.get("fixed", False)), fsgen.coq_bool(case.get("supfix", False)), tagtbl,
               case.get("faultkind", 0), sel,
               fsgen.coq_bool(case["expect_ok"]), before, ops, after, kept, rc,
               fsgen.coq_bool(outside_changed(case))))


HEADER = ("From Coq Require Import List NArith String.\nFrom Shoot Require Import Model.Fs Corr.FsCorr.\n"
          "Import ListNotations.\nLocal Open Scope string_scope.\n"
          "Set Printing Width 1000000.\nSet Printing Depth 1000000.\n")


def coq_verdicts(run, tag, rendered, ctype="case", fn="mismatches", shard=25):
    def one(k):
        lo = k * shard
        body = (HEADER + "Definition cases : list %s := [\n%s\n].\n"
                "Definition M := Eval vm_compute in %s cases.\nPrint M.\n"
                % (ctype, ";\n".join(rendered[lo:lo + shard]), fn))
        out = run.coq_eval("%s_%d" % (tag, k), body)
        return [(lo + i, v) for i, v in lib.parse_coq_list_pairs(out, "M")]
    res = []
    n = (len(rendered) + shard - 1) // shard
    with cf.ThreadPoolExecutor(max_workers=PAR) as ex:
        for r in ex.map(one, range(n)):
            res.extend(r)
    return res


DIAG_NAMES = ["P_modelled (every traced operation is one of the model's and succeeds there)",
              "P_atomic (every name shows complete old or complete new content at every instant)",
              "P_stable (an inode reachable under a name is never written afterwards)",
              "P_transient (names existing only during the run are not Go files)",
              "P_confined (changed names match *.shoot<cmd>*.go; removed ones are superseded outputs of the same subcommand)",
              "P_kept (every pre-existing inode keeps its bytes)",
              "P_superseded (a file is gone only when every created/replaced name already shows its final content)",
              "nothing outside the package directory changed",
              "model_agrees (plan = trace, final state = model's)",
              "P_covered (every removed file is superseded: its types are provided by the created/replaced files)"]


def coq_diag(run, tag, rendered_case, ctype="case"):
    if ctype != "case":
        return []
    body = (HEADER + "Definition c : case := %s.\nDefinition D := Eval vm_compute in diag c.\nPrint D.\n"
            "Definition PL := Eval vm_compute in plan (cfg_of c) (init_of c) (extract_outs (k_ops c)).\nPrint PL.\n"
            % rendered_case)
    out = run.coq_eval(tag, body)
    flat = " ".join(out.split())
    import re
    m = re.search(r"D = \[(.*?)\] : list bool", flat)
    flags = [x.strip() == "true" for x in m.group(1).split(";")] if m else []
    failed = [DIAG_NAMES[i] for i, ok in enumerate(flags) if not ok]
    m2 = re.search(r"PL = (\[.*?\]) : list op", flat)
    return {"failed": failed, "model_plan": m2.group(1)[:6000] if m2 else None}


def jsonable(case):
    c = dict(case)
    c["before"] = [(r, i, b.decode("latin-1")) for r, i, b in case["before"]]
    c["after"] = [(r, i, b.decode("latin-1")) for r, i, b in case["after"]]
    c["kept"] = {str(k): v.decode("latin-1") for k, v in case["kept"].items()}
    c["ops"] = [[x.decode("latin-1") if isinstance(x, bytes) else x for x in o] for o in case["ops"]]
    return c


def summary(case):
    """a compact, readable version of a case for replay files and evidence samples"""
    bf, af = pkg_files(case["before"]), pkg_files(case["after"])
    return {
        "cmd": "shoot " + " ".join(case["args"]), "cwd": case["cwd"], "mode": case["mode"], "rc": case["rc"],
        "history": case["history"], "planted": case["planted"], "links": case["links"],
        "entry_at_output_name": case.get("obstacle") or None,
        "before": sorted(n for n, _, _ in bf), "after": sorted(n for n, _, _ in af),
        "trace": [[x.decode("latin-1")[:60] if isinstance(x, bytes) else x for x in o] for o in case["ops"]],
    }


# ------------------------------------------------------------ known findings
def _fresh(mod, name):
    d = mod / name
    shutil.rmtree(d, ignore_errors=True)
    (d / "p").mkdir(parents=True)
    return d


def h_dir_arg_cwd(shoot, mod):
    def h(entry):
        d = _fresh(mod, "kf_dirarg")
        (d / "p" / "a.go").write_text("package p\n\ntype A struct {\n\tid int\n}\n")
        before = sorted(x.name for x in d.iterdir())
        r = l2.run_shoot(shoot, d, ["new", "-type=A", "./p"], timeout=60)
        here = sorted(x.name for x in d.iterdir())
        inp = (d / "p" / "a.shootnew.a.go").exists()
        shutil.rmtree(d, ignore_errors=True)
        if r["rc"] == 0 and inp and here == before:
            return "correct"
        if here != before and not inp:
            return "buggy"
        return "other: rc=%s cwd=%s in_pkg=%s %s" % (r["rc"], here, inp, r["err"][-300:])
    return h


def h_clean_lookalike(shoot, mod):
    def h(entry):
        d = _fresh(mod, "kf_lookalike")
        files = dict(entry["witness"]["files"])
        files["gen.go"] = files["gen.go"] + "\ntype T struct {\n\tx int\n}\n"
        for n, t in files.items():
            (d / "p" / n).write_text(t)
        r = l2.run_shoot(shoot, d / "p", ["new", "-type=*"], timeout=60)
        there = (d / "p" / "notes.shootnewish.go").exists()
        gen = (d / "p" / "gen.shootnew.go").exists()
        shutil.rmtree(d, ignore_errors=True)
        if r["rc"] == 0 and gen and there:
            return "correct"
        if r["rc"] == 0 and gen and not there:
            return "buggy"
        return "other: rc=%s generated=%s lookalike_exists=%s %s" % (r["rc"], gen, there, r["err"][-300:])
    return h


def h_clean_error_after_write(shoot, mod):
    def h(entry):
        d = _fresh(mod, "kf_cleanerr")
        (d / "p" / "gen.go").write_text("package p\n\n//go:generate shoot new -type=*\n\ntype T struct {\n\tx int\n}\n")
        for n, t in entry["witness"]["files"].items():
            (d / "p" / n).write_text(t)
        r = l2.run_shoot(shoot, d / "p", ["new", "-type=*"], timeout=60)
        gen = (d / "p" / "gen.shootnew.go").exists()
        shutil.rmtree(d, ignore_errors=True)
        if r["rc"] == 0 and gen:
            return "correct"
        if r["rc"] != 0 and gen:
            return "buggy"
        return "other: rc=%s generated=%s %s" % (r["rc"], gen, r["err"][-300:])
    return h


def h_clean_own_output(shoot, mod):
    def h(entry):
        d = _fresh(mod, "kf_ownout")
        for n, t in entry["witness"]["files"].items():
            (d / n).write_text(t)
        r = l2.run_shoot(shoot, d, ["new", "-type", "*", "./p"], timeout=60)
        gen = (d / "p" / "a.shootnew.go").exists()
        listed = "a.shootnew.go" in r["err"] + r["out"]
        shutil.rmtree(d, ignore_errors=True)
        if r["rc"] == 0 and gen:
            return "correct"
        if r["rc"] == 0 and listed and not gen:
            return "buggy"
        return "other: rc=%s listed=%s exists=%s %s" % (r["rc"], listed, gen, r["err"][-300:])
    return h


def h_clean_not_superseded(shoot, mod):
    def h(entry):
        d = mod / "kf_notsup"
        shutil.rmtree(d, ignore_errors=True)
        for n, txt in entry["witness"]["files"].items():
            (d / n).parent.mkdir(parents=True, exist_ok=True)
            (d / n).write_text(txt)
        r1 = l2.run_shoot(shoot, d / "q", ["map", "-path=../domain", "-type=OrderPO", "-to=Order"], timeout=60)
        had = (d / "q" / "a.shootmap.orderpo.go").exists()
        r2 = l2.run_shoot(shoot, d / "q", ["map", "-path=../domain", "-type=*"], timeout=60)
        aio = d / "q" / "a.shootmap.go"
        covered = fsgen.type_tags(aio.read_bytes()) if aio.exists() else []
        still = (d / "q" / "a.shootmap.orderpo.go").exists()
        shutil.rmtree(d, ignore_errors=True)
        if not covered:
            return "other: the -type=* run wrote no all-in-one file with marker methods"
        if r1["rc"] != 0 or r2["rc"] != 0 or not had:
            return "other: rc=%s/%s first output written=%s %s" % (r1["rc"], r2["rc"], had, (r1["err"] + r2["err"])[-300:])
        if still or "OrderPO" in covered:
            return "correct"
        return "buggy"
    return h


# -------------------------------------------------------------------- thorough
def clone_tree(src, dst):
    """copy a directory tree, reproducing its hard-link structure"""
    shutil.rmtree(dst, ignore_errors=True)
    shutil.copytree(src, dst)
    first = {}
    for rel, ino, _ in fsgen.snapshot(src):
        if rel.endswith("/"):
            continue
        if ino in first:
            os.unlink(Path(dst) / rel)
            os.link(Path(dst) / first[ino], Path(dst) / rel)
        else:
            first[ino] = rel


def kill_case(run, shoot, mod, idx, rng, traced, fixed=False, supfix=False):
    """one reference run and one run killed with SIGKILL at a random instant on two
    copies of the same directory state"""
    cmd = fsgen.CMDS[idx % 4]
    base = mod / ("kill_%d" % idx)
    shutil.rmtree(base, ignore_errors=True)
    root = base / "ref"
    (root / "p").mkdir(parents=True)
    p = fsgen.gen_pkg(rng, cmd)
    hist = [fsgen.gen_inv(rng, p, root, history=True) for _ in range(rng.choice([0, 1, 2]))]
    hist = [h for h in hist if h.mode != "star_space"]
    final = fsgen.gen_inv(rng, p, root, mode=rng.choice(["star", "star", "types", "filesep", "starsep", "file"]),
                          invoke=rng.choice(["pkg", "pkgdot", "parent", "parent_bare"]))
    for inv in hist + [final]:
        fsgen.place_genline(rng, p, inv, root)
    for inv in hist + [final]:
        if inv.mode in ("star", "starsep", "star_space"):
            line = inv.cmdline(root)
            inv.genfile_src = [f for f in sorted(p.files) if any(l.endswith(line) for l in p.genlines[f])][0]
    files = fsgen.render_pkg(p)
    l2.write_files(root, files)
    for inv in hist:
        l2.run_shoot(shoot, inv.cwd(root), inv.args(root), timeout=60)
    planted = fsgen.plant(rng, root / "p", cmd, rng.randint(2, 6),
                          forced=("stale_same_cmd", "hand_lookalike"))
    links = fsgen.plant_links(rng, root, cmd, rng.randint(1, 3))
    # a backup of the state (same names, contents, hard-link structure); the reference run and the
    # killed run both happen at the SAME path (generated code may mention import paths)
    backup = base / "backup"
    clone_tree(root, backup)
    args = final.args(root)
    before_ref = fsgen.snapshot(root)
    r0 = l2.run_shoot(shoot, final.cwd(root), args, timeout=60)
    t_ref = r0["wall"]
    after_ref = fsgen.snapshot(root)
    bnames = {n: b for n, _, b in pkg_files(before_ref)}
    anames = {n: b for n, _, b in pkg_files(after_ref)}
    binos = {n: i for n, i, _ in pkg_files(before_ref)}
    ainos = {n: i for n, i, _ in pkg_files(after_ref)}
    new = sorted((n, b) for n, b in anames.items() if n not in bnames or binos[n] != ainos[n])
    removed = sorted(n for n in bnames if n not in anames)
    # restore the state and run again, to be killed
    twin = root
    clone_tree(backup, twin)
    before = fsgen.snapshot(twin)
    keep = fsgen.keep_links(twin, base / "keep")
    targs = final.args(twin)
    trace = run.scratch / ("ktrace_%d.txt" % idx)
    if traced:
        cmdv = ["strace", "-f", "--seccomp-bpf", "-y", "-xx", "-s", "4000000", "-e", "trace=" + fsgen.STRACE_SET, "-o", str(trace),
                str(shoot)] + targs
    else:
        cmdv = [str(shoot)] + targs
    pkgdir = twin / "p"
    names_before = set(os.listdir(pkgdir))
    how = rng.choice(["uniform", "watch", "watch", "watch"])
    delay = rng.random() * (t_ref * (2.5 if traced else 0.8))
    after_watch = rng.choice([0, 0, 0, 0.00002, 0.00005, 0.0001, 0.0003, 0.001]) * (6 if traced else 1)
    proc = subprocess.Popen(cmdv, cwd=str(final.cwd(twin)), env=lib.go_env(), stdout=subprocess.DEVNULL,
                            stderr=subprocess.DEVNULL, start_new_session=True)
    t0 = time.time()
    killed_at = None
    try:
        if how == "uniform":
            while time.time() - t0 < delay and proc.poll() is None:
                time.sleep(0.0002)
        else:
            # wait until the directory listing changes (the write phase has begun), then a little more
            while proc.poll() is None and time.time() - t0 < 30:
                try:
                    if set(os.listdir(pkgdir)) != names_before:
                        break
                except OSError:
                    pass
            t1 = time.time()
            while time.time() - t1 < after_watch:
                pass
        if proc.poll() is None:
            killed_at = time.time() - t0
            os.killpg(proc.pid, signal.SIGKILL)
    finally:
        try:
            os.killpg(proc.pid, signal.SIGKILL)
        except OSError:
            pass
        proc.wait()
    time.sleep(0.01)
    after = fsgen.snapshot(twin)
    kept = {ino: fsgen.read_kept(k) for ino, k in keep.items()}
    ops = []
    if traced and trace.exists():
        ops, _ = fsgen.project(trace.read_text(errors="replace"), twin, pkgdir, final.cwd(twin))
        trace.unlink()
    kc = {"idx": idx, "cmd": cmd, "args": args, "mode": final.mode, "invoke": final.invoke,
          "cwd": str(final.cwd(root).relative_to(root)) or ".",
          "clean": final.clean_active(), "dirdot": final.dirdot(), "fixed": fixed, "supfix": supfix, "ref_rc": r0["rc"],
          "before": before, "after": after, "kept": kept, "new": new, "removed": removed,
          "killed_at": killed_at, "how": how, "traced": traced, "planted": planted, "links": links,
          "ops_seen": len(ops), "sources": files}
    shutil.rmtree(base, ignore_errors=True)
    return kc


def coq_kcase(kc):
    bf = pkg_files(kc["before"])
    af = pkg_files(kc["after"])
    ids = {}
    for _, ino, _ in sorted(bf):
        ids.setdefault(ino, len(ids))
    A = fsgen.abstract

    def rest(snap):
        return [(rel, b) for rel, ino, b in snap
                if not (rel.startswith("p/") and "/" not in rel[2:] and not rel.endswith("/"))]
    outside = rest(kc["before"]) != rest(kc["after"])
    tags = {}
    for b in [x[2] for x in bf] + [x[1] for x in kc["new"]]:
        tg = fsgen.type_tags(b)
        if tg:
            tags[A(b)] = tg
    tagtbl = fsgen.coq_list("(%s, %s)" % (fsgen.coq_bytes(k), fsgen.coq_list(fsgen.coq_str(x) for x in v))
                            for k, v in sorted(tags.items()))
    return ("{| q_cmd := %s; q_clean := %s; q_dirdot := %s; q_fixed := %s; q_supfix := %s; q_tags := %s;\n   q_before := %s;\n   q_new := %s; q_ref_removed := %s;\n"
            "   q_after := %s;\n   q_kept := %s; q_outside := %s |}"
            % (fsgen.coq_str(kc["cmd"]), fsgen.coq_bool(kc["clean"]), fsgen.coq_bool(kc["dirdot"]),
               fsgen.coq_bool(kc.get("fixed", False)), fsgen.coq_bool(kc.get("supfix", False)), tagtbl,
               fsgen.coq_list("{| fi_name := %s; fi_ino := %d; fi_bytes := %s |}"
                              % (fsgen.coq_str(n), ids[ino], fsgen.coq_bytes(A(b))) for n, ino, b in bf),
               fsgen.coq_list("(%s, %s)" % (fsgen.coq_str(n), fsgen.coq_bytes(A(b))) for n, b in kc["new"]),
               fsgen.coq_list(fsgen.coq_str(n) for n in kc["removed"]),
               fsgen.coq_list("{| af_name := %s; af_ino := %s; af_bytes := %s |}"
                              % (fsgen.coq_str(n), ("Some %d" % ids[ino]) if ino in ids else "None",
                                 fsgen.coq_bytes(A(b))) for n, ino, b in af),
               fsgen.coq_list("(%d, %s)" % (ids[ino], fsgen.coq_bytes(A(b)))
                              for ino, b in sorted(kc["kept"].items()) if ino in ids),
               fsgen.coq_bool(outside)))


def reader_case(run, shoot, mod, idx, rng):
    """concurrent readers: while shoot replaces existing outputs, reader threads open and
    read every output name in a loop; every read must return the complete old or the
    complete new content.  returns (reads, bad, detail)"""
    cmd = fsgen.CMDS[idx % 4]
    root = mod / ("rd_%d" % idx)
    shutil.rmtree(root, ignore_errors=True)
    (root / "p").mkdir(parents=True)
    p = fsgen.gen_pkg(rng, cmd)
    first = fsgen.gen_inv(rng, p, root, mode="types", history=True)
    first.types = p.all_types()
    first.flags = fsgen.extra_flags(rng, cmd)
    # same selection, another pinned version: every output changes (its header line does)
    second = fsgen.Inv(p, "types", "pkg", list(first.flags) + ["-ver=v9.9.9"], types=list(first.types))
    l2.write_files(root, fsgen.render_pkg(p))
    l2.run_shoot(shoot, first.cwd(root), first.args(root), timeout=60)
    names = [fsgen.out_name(cmd, g, t) for g, t in first.selection()]
    old = {n: (root / "p" / n).read_bytes() for n in names if (root / "p" / n).exists()}
    # the complete new contents: run the second command once (same path), then go back to the first
    l2.run_shoot(shoot, root / "p", second.args(root), timeout=60)
    new = {n: (root / "p" / n).read_bytes() for n in old}
    l2.run_shoot(shoot, root / "p", first.args(root), timeout=60)
    back = {n: (root / "p" / n).read_bytes() for n in old}
    if back != old:
        raise lib.CheckBroken("reader case: re-running the first command did not reproduce its outputs")
    stop = threading.Event()
    stats = {"reads": 0, "bad": []}
    lock = threading.Lock()

    def reader():
        k, bad = 0, []
        while not stop.is_set():
            for n in old:
                try:
                    with open(root / "p" / n, "rb") as f:
                        b = f.read()
                except FileNotFoundError:
                    bad.append((n, "missing"))
                    continue
                k += 1
                if b != old[n] and b != new[n]:
                    bad.append((n, "partial: %d bytes" % len(b)))
        with lock:
            stats["reads"] += k
            stats["bad"] += bad[:5]
    ths = [threading.Thread(target=reader) for _ in range(3)]
    for t in ths:
        t.start()
    rcs = []
    for rep in range(6):
        inv = second if rep % 2 == 0 else first
        rcs.append(l2.run_shoot(shoot, root / "p", inv.args(root), timeout=60)["rc"])
    stop.set()
    for t in ths:
        t.join()
    changed = sum(1 for n in old if old[n] != new[n])
    shutil.rmtree(root, ignore_errors=True)
    return {"reads": stats["reads"], "bad": stats["bad"], "rcs": rcs, "outputs": len(old), "changing": changed,
            "cmd": cmd, "args": second.args(root)}


# ---------------------------------------------------------------- L1: regexps, glob
FRAGS = ["// Code generated by", "// Code generated by ", '"shoot ', '"', "shoot", " ", "-type=*", "-type=", "--type=*",
         "-type *", "X", "*", "; ", "DO NOT EDIT", "DO NOT EDIT.", ".", " (v0.7.0)", "\n", "\r\n", "er", "-file=a.go",
         "//", "/", "-getset ", "DO NOT", " EDIT", "package p", "\t", "=", "-"]
NAME_FRAGS = [".shoot", "shoot", ".", "go", ".go", "a", "x_", "_", "o", "g", "test", "_test", ".g", "oo", "-", "A"]


def l1_cases(run):
    rng = run.rng
    n = 4000 if run.thorough() else 400
    heads = []
    for _ in range(n):
        cmd = rng.choice(fsgen.CMDS)
        r = rng.random()
        if r < 0.5:
            # a real header, damaged
            h = fsgen.header(cmd, rng.choice(["-type=*", "-type=Foo", "-file=a.go", "-getset -type=* ./p", "-type *",
                                              "--type=*", "-type=*,Foo"]))
            h += rng.choice(["\n", "", "\r\n", "\npackage p\n"])
            for _ in range(rng.choice([0, 1, 1, 2, 3])):
                k = rng.randrange(len(h) + 1)
                op = rng.random()
                if op < 0.4 and h:
                    h = h[:k] + h[k + 1:]
                elif op < 0.7:
                    h = h[:k] + rng.choice(FRAGS + [cmd, cmd + " "]) + h[k:]
                elif h and k < len(h):
                    h = h[:k] + h[k].swapcase() + h[k + 1:]
        else:
            h = "".join(rng.choice(FRAGS + [cmd, cmd + " ", cmd]) for _ in range(rng.randint(0, 9)))
        heads.append((rng.choice([cmd, cmd, rng.choice(fsgen.CMDS)]), h))
    names = []
    for _ in range(n):
        cmd = rng.choice(fsgen.CMDS)
        if rng.random() < 0.4:
            nm = rng.choice(["a", "", ".h", "x.y", "_o"]) + ".shoot" + cmd + rng.choice(["", ".foo", "ish", "_test", "."]) + ".go"
            for _ in range(rng.choice([0, 1, 1, 2])):
                k = rng.randrange(len(nm) + 1)
                nm = (nm[:k] + nm[k + 1:]) if rng.random() < 0.5 else (nm[:k] + rng.choice(NAME_FRAGS) + nm[k:])
        else:
            nm = "".join(rng.choice(NAME_FRAGS + [cmd]) for _ in range(rng.randint(0, 7)))
        names.append((cmd, nm))
    return heads, names


def l1_checks(run):
    """the hand-written header tests and glob of Model/Fs.v against the real isAllInOneFile /
    isGeneratedBy (through /repo's verif-tagged probe) and path/filepath.Match"""
    probe = lib.build_verifprobe(run)
    fsm = run.build_helper("fsmatch")
    heads, names = l1_cases(run)
    d = run.scratch / "l1files"
    d.mkdir(exist_ok=True)
    calls = []
    for i, (cmd, h) in enumerate(heads):
        (d / ("h%d" % i)).write_bytes(h.encode())
        calls.append(("isAllInOneFile", [str(d / ("h%d" % i))]))
        calls.append(("isGeneratedBy", [str(d / ("h%d" % i)), cmd]))
    res = lib.probe_calls(probe, calls)
    hobs = []
    for i in range(len(heads)):
        a, g = res[2 * i], res[2 * i + 1]
        if a[1] != "<nil>" or g[1] != "<nil>":
            raise lib.CheckBroken("verifprobe error on header %r: %s %s" % (heads[i], a, g))
        hobs.append((bool(a[0]), bool(g[0])))
    inp = "".join("%s\t%s\n" % (lib.go_quote("*.shoot%s*.go" % cmd), lib.go_quote(nm)) for cmd, nm in names)
    rc, out, err = lib.sh([str(fsm)], input=inp, timeout=120)
    gobs = out.split()
    if rc != 0 or len(gobs) != len(names) or "E" in gobs:
        raise lib.CheckBroken("fsmatch failed: rc=%s %s" % (rc, err[-500:]))
    hr = ["{| h_cmd := %s; h_bytes := %s; h_aio := %s; h_gen := %s |}"
          % (fsgen.coq_str(cmd), fsgen.coq_str(h), fsgen.coq_bool(a), fsgen.coq_bool(g))
          for (cmd, h), (a, g) in zip(heads, hobs)]
    gr = ["{| g_cmd := %s; g_name := %s; g_match := %s |}" % (fsgen.coq_str(cmd), fsgen.coq_str(nm), fsgen.coq_bool(o == "1"))
          for (cmd, nm), o in zip(names, gobs)]
    hm = coq_verdicts(run, "c17hdr", hr, ctype="hcase", fn="hmismatches", shard=1000)
    gm = coq_verdicts(run, "c17glob", gr, ctype="gcase", fn="gmismatches", shard=1000)
    for idx, _ in hm[:3]:
        run.violation({"kind": "correspondence-broken", "correspondence": "L1:C17:isAllInOneFile/isGeneratedBy vs Model/Fs.v is_aio/is_gen",
                       "subcommand": heads[idx][0], "file_content": heads[idx][1],
                       "implementation": {"isAllInOneFile": hobs[idx][0], "isGeneratedBy": hobs[idx][1]}}, no_input=True)
    for idx, _ in gm[:3]:
        run.violation({"kind": "correspondence-broken", "correspondence": "L1:C17:filepath.Match vs Model/Fs.v glob",
                       "pattern": "*.shoot%s*.go" % names[idx][0], "name": names[idx][1],
                       "implementation": gobs[idx]}, no_input=True)
    shutil.rmtree(d, ignore_errors=True)
    return {"header_cases": len(heads), "header_aio_true": sum(1 for a, _ in hobs if a),
            "header_gen_true": sum(1 for _, g in hobs if g), "glob_cases": len(names),
            "glob_true": sum(1 for o in gobs if o == "1")}


# ------------------------------------------------------------------------ main
def setup(run):
    shoot = run.build_shoot()
    mod = l2.make_module(run, "c17mod")
    # settle go.mod / the build cache once, so that later runs do not touch the module files
    (mod / "warm").mkdir()
    (mod / "warm" / "w.go").write_text(
        'package warm\n\nimport (\n\t"context"\n\t"net/http"\n\n\t"github.com/lopolopen/shoot"\n)\n\n'
        'type W interface {\n\tshoot.RestClient[W]\n\n\t//shoot: Get("/w")\n'
        '\tPing(ctx context.Context) (*http.Response, error)\n}\n')
    r = l2.run_shoot(shoot, mod / "warm", ["rest", "-type=W"], timeout=120)
    if r["rc"] != 0:
        raise lib.CheckBroken("warm-up `shoot rest` failed: " + r["err"][-1500:])
    return shoot, mod


def case_plan(run, fixed=False):
    """(cmd index, forced mode, forced invoke, expect_fail, forced planted kinds) per case: every
    subcommand x every mode x both ways of invoking is present in every run, and every kind of planted
    file sits next to at least one run in which Clean is active; the rest is random"""
    plan = []
    modes = ["star", "types", "file", "filesep", "starsep", "star_noline", "star_space"]
    kinds = sorted({k for _, _, k in fsgen.planted_menu(run.rng, "new")})
    run.rng.shuffle(kinds)
    nk = [0]

    def next_kinds(n):
        ks = tuple(kinds[(nk[0] + j) % len(kinds)] for j in range(n))
        nk[0] += n
        return ks
    for ci in range(4):
        for m in modes:
            for invoke in (("pkg", "parent") if (m != "star_space" or fixed) else ("pkg", "pkgdot")):
                plan.append((ci, m, invoke, None, next_kinds(3) if m in ("star", "star_space")
                             else ("stale_same_cmd", "old_temp") if invoke == "pkg" else ("stale_no_newline",)))
        forms = ["pkgdot", "parent_bare", "abs"]
        for invoke in (forms if run.thorough() else [forms[(ci + run.seed) % 3], forms[(ci + run.seed + 1) % 3]]):
            plan.append((ci, "star", invoke, None, next_kinds(3 if run.thorough() else 4)))
    for ci in range(4):
        fails = ["missing_type", "missing_file", "bad_flag", "missing_dir"]
        for fail in (fails if run.thorough() else run.rng.sample(fails, 2)):
            plan.append((ci, run.rng.choice(["star", "types"]), run.rng.choice(["pkg", "parent"]), fail, ()))
    plan.append((0, "types", "pkg", "format_error", ()))
    plan.append((0, "getset_multi", "pkg", None, ("old_temp",)))
    # flags after [dir], from a working directory that is itself a package with the same types
    tmodes = ["types", "star", "filesep", "starsep", "file", "star_space" if fixed else "star"]
    for ci in range(4):
        for j in range(2 if run.thorough() else 1):
            plan.append((ci, tmodes[(ci + run.seed + 3 * j) % len(tmodes)],
                         fsgen.TRAIL_INVOKE[(ci + run.seed + j) % 2], None, (), None))
    # nothing eligible in the package: -type=* (with its generate line) and -file runs generate nothing, next to stale
    # outputs of the same subcommand (found by the translation tie: main returns before g.Clean())
    for ci in range(4):
        for j in range(3 if run.thorough() else 1):
            plan.append((ci, ["star", "file", "star"][(ci + run.seed + j) % 3], ["pkg", "parent"][(ci + j) % 2], None,
                         ("stale_same_cmd", "stale_same_cmd_file", "stale_no_newline", "hand_lookalike"), "NOTHING"))
    # -raw / -r on every subcommand: per subcommand one all-in-one run (Clean armed, over per-type outputs of an earlier
    # history where the seed provides one, plus a planted stale file) and one run of another mode
    rmodes = ["types", "file", "filesep", "starsep"]
    for ci in range(4):
        plan.append((ci, "star", ["pkg", "parent"][(ci + run.seed) % 2], None, ("stale_same_cmd", "hand_outputlike"),
                     ["-raw", "-r"][(ci + run.seed) % 2]))
        for j in range(3 if run.thorough() else 1):
            plan.append((ci, rmodes[(ci + run.seed + j) % 4], ["parent", "pkg", "abs"][(ci + j) % 3], None,
                         ("stale_same_cmd",), ["-r", "-raw"][(ci + run.seed + j) % 2]))
    # the name of an output pre-exists as a symbolic link (inside / outside / dangling) or as a second name of a
    # hand-written file
    for k, ob in enumerate(fsgen.OBSTACLES):
        for j in range(4 if run.thorough() else 1):
            plan.append(((k + run.seed + j) % 4, ["types", "star", "file", "filesep"][(k + j) % 4],
                         ["pkg", "parent", "abs"][(k + j) % 3], None, (), ob))
    extra = 400 if run.thorough() else 2
    for _ in range(extra):
        plan.append((run.rng.randrange(4), None, None, None, ()))
    return plan


def nontrivial(case):
    """a case is non-trivial when the run replaced or removed a pre-existing file of the package,
    or ran next to hard links to old outputs"""
    bn = {n: (i, b) for n, i, b in pkg_files(case["before"])}
    an = {n: (i, b) for n, i, b in pkg_files(case["after"])}
    replaced = any(n in an and an[n][0] != bn[n][0] for n in bn)
    removed = any(n not in an for n in bn)
    return replaced or removed or bool(case["links"])


def main(run):
    proof_ok = run.prove(PROP_FILE, CORR)
    shoot, mod = setup(run)
    outcome = run.replay_findings({
        "K_dir_arg_cwd": h_dir_arg_cwd(shoot, mod),
        "K_clean_lookalike": h_clean_lookalike(shoot, mod),
        "K_clean_error_after_write": h_clean_error_after_write(shoot, mod),
        "K_clean_own_output": h_clean_own_output(shoot, mod),
        "K_clean_not_superseded": h_clean_not_superseded(shoot, mod),
    })
    fixed = outcome.get("K_clean_own_output") == "correct"
    supfix = outcome.get("K_clean_not_superseded") == "correct"
    l1 = l1_checks(run)
    plan = case_plan(run, fixed)
    seeds = [run.rng.getrandbits(48) for _ in plan]
    import random

    retried = []

    def one(i):
        ci, mode, invoke, fail, fkinds = plan[i][:5]
        ob = plan[i][5] if len(plan[i]) > 5 else None
        nothing = ob == "NOTHING"
        rawflag = ob if ob in ("-raw", "-r") else None
        ob = None if (nothing or rawflag) else ob
        for attempt in range(3):
            # a case is a function of its seed: a traced run that does not finish in time (seen once in
            # ~1000 runs on a heavily loaded machine) is rebuilt from scratch and repeated
            c = build_case(run, shoot, mod, i, random.Random(seeds[i]), cmd=fsgen.CMDS[ci], force_mode=mode,
                           force_invoke=invoke, expect_fail=fail, fixed=fixed, force_kinds=fkinds, supfix=supfix, obstacle=ob, nothing=nothing, rawflag=rawflag)
            if not c["timed_out"]:
                return c
            retried.append(i)
        # three timeouts under strace: does shoot itself terminate on this input?
        c2 = build_case(run, shoot, mod, i, random.Random(seeds[i]), cmd=fsgen.CMDS[ci], force_mode=mode,
                        force_invoke=invoke, expect_fail=fail, traced=False, fixed=fixed, force_kinds=fkinds, supfix=supfix, obstacle=ob, nothing=nothing, rawflag=rawflag)
        if c2["timed_out"]:
            c2["nonterminating"] = True
            return c2
        raise lib.CheckBroken("strace run of case %d timed out three times although shoot terminates untraced: %s"
                              % (i, c["args"]))
    with cf.ThreadPoolExecutor(max_workers=PAR) as ex:
        cases = list(ex.map(one, range(len(plan))))
    run.log("traced runs: %d (repeated after a timeout: %d)" % (len(cases), len(retried)))
    for c in cases:
        if c.get("nonterminating"):
            run.violation({"kind": "property-fails-on-implementation", "what": "shoot does not terminate within 40 s",
                           "case": summary(c), "sources": c["sources"]})
    cases = [c for c in cases if not c.get("nonterminating")]
    # runs with one failing system call (sequential: they mount a tmpfs)
    nf = 8 if run.thorough() else 1
    fskipped = None
    fcases = []
    off = run.rng.randrange(4)
    for j in range(nf):
        for kind in (1, 2):
            # `rest` outputs exceed one page: a partial write precedes the failing one
            fcmd = fsgen.CMDS[(off + j + kind) % 4]
            for attempt in range(3):
                fc = fault_case(run, shoot, mod, 2 * j + kind, random.Random(run.rng.getrandbits(48)), kind, fcmd,
                                fixed=fixed, supfix=supfix)
                if "skipped" in fc:
                    fskipped = fc["skipped"]
                    break
                fcases.append(fc)
                if fc["faultkind"] == kind:
                    break          # otherwise the output happened to fit: an ordinary run, kept as such
    run.log("runs with a failing system call: %d" % len(fcases))
    cases += fcases
    rendered = [coq_case(c) for c in cases]
    mism = coq_verdicts(run, "c17cases", rendered)
    reported = 0
    for idx, v in mism:
        if reported >= 5:
            break
        c = cases[idx]
        d = coq_diag(run, "c17diag_%d" % idx, rendered[idx])
        run.violation({
            "kind": "property-fails-on-implementation" if v == 2 else "correspondence-broken",
            "theorem": "C17_atomic_at_every_crash_point / C17_frame / C17_old_inodes_keep_their_bytes / "
                       "C17_no_temp_left / C17_victims_are_superseded_outputs",
            "correspondence": "L3:C17:strace projection vs Model/Fs.v plan",
            "failed_conjuncts": d.get("failed"), "model_plan": d.get("model_plan"),
            "case": summary(c), "sources": c["sources"], "stderr": c["stderr"],
            "outside": c["outside_trace"], "replay_case": jsonable(c),
            "how": "cd <case root>/%s && strace -f -y -e trace=%%file,write,close shoot %s" % (c["cwd"], " ".join(c["args"])),
        }, no_input=(v != 2))
        reported += 1

    kcases, kmism, readers = [], [], []
    if True:
        # many runs finish before the signal arrives (the write window is a few hundred microseconds):
        # the thorough tier repeats until 200 runs were really killed
        want = 200 if run.thorough() else 0
        batch = 40 if run.thorough() else 4
        kidx = 0
        while True:
            kseeds = [run.rng.getrandbits(48) for _ in range(batch)]

            def onek(j, base=kidx, kseeds=kseeds):
                return kill_case(run, shoot, mod, base + j, random.Random(kseeds[j]), traced=((base + j) % 2 == 0),
                                 fixed=fixed, supfix=supfix)
            with cf.ThreadPoolExecutor(max_workers=4) as ex:
                kcases += list(ex.map(onek, range(batch)))
            kidx += batch
            really = sum(1 for k in kcases if k["killed_at"] is not None)
            if really >= want or kidx >= 800:
                break
        run.log("killed runs: %d of %d attempts" % (sum(1 for k in kcases if k["killed_at"] is not None), len(kcases)))
        krend = [coq_kcase(k) for k in kcases]
        kmism = coq_verdicts(run, "c17kill", krend, ctype="kcase", fn="kmismatches", shard=25)
        for idx, v in kmism[:5]:
            k = kcases[idx]
            run.violation({
                "kind": "property-fails-on-implementation" if v == 2 else "correspondence-broken",
                "theorem": "C17_atomic_at_every_crash_point (SIGKILL run)",
                "correspondence": "L3:C17:state after SIGKILL vs the model's crash states",
                "cmd": "shoot " + " ".join(k["args"]), "cwd": k["cwd"], "killed_at_s": k["killed_at"],
                "how_killed": k["how"], "under_strace": k["traced"],
                "before": sorted(n for n, _, _ in pkg_files(k["before"])),
                "after": sorted((n, len(b)) for n, _, b in pkg_files(k["after"])),
                "reference_outputs": [(n, len(b)) for n, b in k["new"]], "reference_removed": k["removed"],
                "sources": k["sources"], "planted": k["planted"], "links": k["links"],
            }, no_input=(v != 2))
        nr = 12 if run.thorough() else 2
        rseeds = [run.rng.getrandbits(48) for _ in range(nr)]
        for i in range(nr):
            readers.append(reader_case(run, shoot, mod, i, random.Random(rseeds[i])))
        for r in readers:
            if r["bad"]:
                run.violation({"kind": "property-fails-on-implementation",
                               "theorem": "C17_reader_stability / C17_atomic_at_every_crash_point (concurrent reader)",
                               "cmd": "shoot " + " ".join(r["args"]), "bad_reads": r["bad"][:5]})
    if not proof_ok and not run.violations:
        run.proof_failure_violation()

    # coverage
    def count(f):
        return sum(1 for c in cases if f(c))

    def not_superseded(c):
        bf, af = pkg_files(c["before"]), pkg_files(c["after"])
        an = {n: (i, b) for n, i, b in af}
        bn = {n: (i, b) for n, i, b in bf}
        covered = set()
        for n, (i, b) in an.items():
            if n not in bn or bn[n][0] != i:
                covered |= set(fsgen.type_tags(b))
        return any(n not in an and not set(fsgen.type_tags(b)) <= covered for n, (i, b) in bn.items())
    not_superseded_hits = count(not_superseded)
    if not_superseded_hits and not supfix:
        run.log("cases in which a removed file was not superseded (known finding K_clean_not_superseded): %d" % not_superseded_hits)
    modes, invokes, kinds, opk = {}, {}, {}, {}
    for c in cases:
        modes[c["mode"]] = modes.get(c["mode"], 0) + 1
        invokes[c["invoke"]] = invokes.get(c["invoke"], 0) + 1
        for k in c["planted"].values():
            kinds[k] = kinds.get(k, 0) + 1
        for o in c["ops"]:
            opk[o[0]] = opk.get(o[0], 0) + 1
    keyset = set()
    for c in cases:
        if nontrivial(c):
            keyset.add((c["cmd"], tuple(c["args"]), tuple(sorted(n for n, _, _ in pkg_files(c["before"])))))
    crash_points = {}
    for k in kcases:
        a = {n for n, _, _ in pkg_files(k["after"])}
        b = {n for n, _, _ in pkg_files(k["before"])}
        newn = {n for n, _ in k["new"]}
        st = ("finished" if k["killed_at"] is None else
              "temp_left" if any(n not in b and n not in newn for n in a) else
              "some_outputs_new" if any((n in a and n not in b) or
                                        (n in a and n in b and dict((x, i) for x, i, _ in pkg_files(k["after"]))[n]
                                         != dict((x, i) for x, i, _ in pkg_files(k["before"]))[n]) for n in newn) else
              "nothing_written_yet")
        if st == "some_outputs_new" and any(n not in a for n in k["removed"]):
            st = "during_or_after_clean"
        crash_points[st] = crash_points.get(st, 0) + 1
    cov = {
        "evaluations": len(cases) + len(kcases) + l1["header_cases"] + l1["glob_cases"],
        "distinct_nontrivial": len(keyset),
        "rule": ("each case = one strace'd run of the freshly built shoot on a generated package (1-3 source files, "
                 "1-2 eligible types each, one of the four subcommands) after a history of 0-3 earlier real runs in "
                 "other modes and with 2-7 planted files out of %d kinds (hand-written look-alikes, stale outputs with "
                 "every first-line variant the two header regexps distinguish, files of other subcommands, leftover "
                 "temporaries, test-file and hidden look-alikes) and 0-3 hard links to old outputs (inside the package "
                 "under a matching and a non-matching name, and outside it); every subcommand x every mode "
                 "(-type=L, -file, -file -sep, -type=*, -type=* -sep, -type=* without generate line, -type *) x "
                 "invoked from the package directory and with [dir] (./p, p, absolute, .) occurs in every run, plus "
                 "invocations that must be rejected before writing, plus random combinations; `map` packages also carry "
                 "types that only an explicit `-type=S -to=D` run maps (no same-named destination type / unexported source "
                 "type), used in histories and final runs, so that per-type outputs exist which a later -type=* run does "
                 "not cover; plus runs with one provoked failing system call (ENOSPC on a full tmpfs, rename onto a "
                 "directory).  non-trivial = distinct "
                 "(command line, directory listing) where the run replaced or removed a pre-existing file or ran next "
                 "to hard links" % len(fsgen.planted_menu(run.rng, "new"))),
        "exhaustive": False,
        "traces_validated_against_impl": len(cases),
        "evaluations_note": "evaluations = traced runs (incl. runs with a provoked failing call) + SIGKILL attempts + L1 header and "
                            "glob cases; the reads of the concurrent-reader runs are counted separately (concurrent_reads)",
        "runs_with_a_failing_call": {"write_fails_ENOSPC": count(lambda c: c.get("faultkind") == 1),
                                     "of_which_after_a_partial_write": count(lambda c: c.get("faultkind") == 1 and any(o[0] == "Write" for o in c["ops"])),
                                     "rename_fails_output_is_a_directory": count(lambda c: c.get("faultkind") == 2),
                                     "skipped": fskipped},
        "removed_files_not_superseded_K_clean_not_superseded": not_superseded_hits,
        "programs": len(cases),
        "samples": [summary(cases[i]) for i in (0, len(cases) // 2, len(cases) - 1)],
        "modes": modes, "invocations": invokes, "planted_kinds": kinds, "traced_op_kinds": opk,
        "planted_kinds_next_to_active_clean": len({k for c in cases if c["clean"] for k in c["planted"].values()}),
        "cases_with_replaced_outputs": count(lambda c: any(o[0] == "Rename" and o[2] in {n for n, _, _ in pkg_files(c["before"])} for o in c["ops"])),
        "cases_with_victims": count(lambda c: any(o[0] == "Unlink" for o in c["ops"])),
        "cases_with_hard_links": count(lambda c: bool(c["links"])),
        "cases_with_raw_flag": count(lambda c: "-raw" in c["args"] or "-r" in c["args"]),
        "cases_generating_nothing_next_to_stale_outputs": count(lambda c: c.get("nothing")),
        "cases_with_flags_after_dir_from_a_twin_package": count(lambda c: c["invoke"] in fsgen.TRAIL_INVOKE),
        "entries_at_output_names": {ob: count(lambda c, ob=ob: ob in (c.get("obstacle") or {}).values()) for ob in fsgen.OBSTACLES},
        "cases_rejected_before_writing": count(lambda c: not c["expect_ok"]),
        "traced_runs_repeated_after_timeout": len(retried),
        "multi_chunk_writes": count(lambda c: sum(1 for o in c["ops"] if o[0] == "Write") >
                                    sum(1 for o in c["ops"] if o[0] == "CreateTemp")),
        "findings_measured": outcome, "l1": l1,
        "sigkill_runs": len(kcases), "sigkill_really_killed": sum(1 for k in kcases if k["killed_at"] is not None),
        "sigkill_states": crash_points,
        "concurrent_reader_runs": len(readers), "concurrent_reads": sum(r["reads"] for r in readers),
        "trusted_base": lib.TRUSTED_BASE_COMMON + [
            "POSIX semantics of the six operations as written in Model/Fs.v [step]: rename(2) rebinds the destination "
            "name to the source inode atomically, unlink(2) removes one name and never touches the inode's bytes, "
            "O_CREAT|O_EXCL yields a fresh inode, write(2) appends to the descriptor's inode only.  These are the "
            "model's assumptions; each traced run re-checks them (final state of the replayed trace = real directory, "
            "inode numbers and contents)",
            "behaviour of the kernel under SIGKILL is outside the model (a crash = a prefix of the operation list); the "
            "thorough tier samples it",
            "the two regular expressions of Clean are re-implemented by hand (is_aio, is_gen) and the glob by [glob]; "
            "RE2 and filepath.Match are not modelled; they are compared with the real isAllInOneFile/isGeneratedBy "
            "(verif-tagged probe) and path/filepath.Match on %d damaged headers and %d names per run, and on %d planted "
            "first-line variants in the traced runs" % (l1["header_cases"], l1["glob_cases"], len(fsgen.planted_menu(run.rng, "new"))),
            "the directory is flat and holds regular files only (a directory or FIFO whose name matches the pattern is "
            "outside the model and the stream)",
            "what shoot generates (names are taken from a Python mirror of fileName, contents from the trace) is the "
            "subject of C16/C01, not of this model",
            "strace projection (harness/fsgen.py project): file contents are compared as first line + SHA-1 digest; the "
            "conjuncts of Pb about intermediate instants (P_atomic, P_stable, P_superseded) are evaluated on the model "
            "states obtained by REPLAYING the projected trace, not on observed intermediate directory states: they are as "
            "good as the traced syscall set (fsgen.STRACE_SET) is complete; what bounds an omission is the comparison of the "
            "replayed final state with the real directory (names, inodes, contents) and of every pre-existing inode's bytes; "
            "the SIGKILL runs are the only direct observation of intermediate states",
            "which types a generated file provides (c_tags) is read off its marker methods (ShootNew/ShootEnum/ShootRest/"
            "ShootMap receivers) by a regular expression in the harness; it is a parameter of the model",
        ],
    }
    return run.finish(cov, assumptions=[
        "a crash point is a prefix of the operation list; temporary files left behind by a killed run are allowed "
        "(the property speaks of normal termination)",
        "hand-written = the first line is not a `// Code generated by \"shoot <cmd> ...DO NOT EDIT.` header of the same "
        "subcommand; a hand-written file that carries such a first line cannot be told from a generated one "
        "(C17_files_without_the_header_are_never_removed is about that criterion, which is the code's own)",
        "all chunkings of a write are covered by the theorems only: every successful output was written by ONE write(2) "
        "(multi_chunk_writes = 0); a partial write is observed only in the ENOSPC runs (one partial chunk, then the failing call)",
        "failing system calls: C17_no_temp_left / C17_plan_never_fails speak of the run in which every call succeeds (exit 0); "
        "C17_after_a_failing_call / C17_no_temp_left_unless_the_rename_failed cover ONE failing call (any position) and "
        "main.go's recovery; of these only ENOSPC on write and rename onto a directory are exercised against the binary",
        "K_clean_not_superseded (open): Clean removes same-subcommand per-type files whether or not the new all-in-one "
        "file provides their types; `superseded` is stated declaratively (Model/Fs.v), proved for a repaired Clean "
        "(c_supfix) and refuted for the current one; such cases ARE in the stream (map -to histories): the conjunct "
        "P_covered fails on them and is accepted only while the finding reproduces and the run is otherwise exactly the "
        "model's current-code prediction",
        "K_clean_own_output (fixed in /repo by 31cd4c3): the model keeps the defect branch (c_fixed = false) and "
        "C17_refuted_K_clean_own_output exhibits the witness; the witness is replayed on every run, the branch "
        "compared against is the one measured (current code: c_fixed = true, and -type '*' with a [dir] argument "
        "is part of the stream); C17_current_code_meets_all_guards discharges the guard [spares] for the current code",
    ])


def replay(run, path):
    r = json.load(open(path))
    run.prove(PROP_FILE, CORR)
    if "replay_case" not in r:
        print("nothing to replay (no concrete input in %s)" % path)
        return 0
    shoot, mod = setup(run)
    c = r["replay_case"]
    root = mod / "replay"
    shutil.rmtree(root, ignore_errors=True)
    # rebuild the recorded directory state (hard links by inode), then run again
    first = {}
    for rel, ino, b in c["before"]:
        q = root / rel
        if rel.endswith("/"):
            q.mkdir(parents=True, exist_ok=True)
            continue
        q.parent.mkdir(parents=True, exist_ok=True)
        if ino in first:
            os.link(root / first[ino], q)
        else:
            q.write_bytes(b.encode("latin-1"))
            first[ino] = rel
    before = fsgen.snapshot(root)
    keep = fsgen.keep_links(root, mod / "keep_replay")
    trace = run.scratch / "trace_replay.txt"
    args = [a.replace(c.get("root_hint", "\0"), str(root)) for a in c["args"]]
    res = fsgen.run_traced(shoot, root / c["cwd"], args, trace)
    ops, outside = fsgen.project(trace.read_text(errors="replace"), root, root / "p", root / c["cwd"])
    case = dict(c)
    case.update({"before": before, "after": fsgen.snapshot(root),
                 "kept": {ino: fsgen.read_kept(k) for ino, k in keep.items()},
                 "ops": ops, "outside_trace": outside, "rc": res["rc"], "sel": [tuple(x) for x in c["sel"]]})
    rendered = coq_case(case)
    m = coq_verdicts(run, "c17replay", [rendered])
    print("trace:", summary(case)["trace"], "rc:", res["rc"], "verdict:", m)
    if m:
        print("failed:", coq_diag(run, "c17replaydiag", rendered))
        print("VIOLATION property=C17 replay=%s" % path)
        return 1
    return 0
