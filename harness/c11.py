"""C11  shoot new -json: key set, key names and Marshal/Unmarshal round trip.

Theorems: coq/Properties/C11.v (model coq/Model/CtorJson.v on top of Model/CtorGetSet.v, Model/Ctor.v).
Correspondence (coq/Corr/CtorJsonCorr.v): struct packages from harness/ctorgen.py with get/set field
directives, getter/setter type directives and explicit json tags, run through
`shoot new [-getset] -json -tagcase=<pascal|camel|lower|upper> -type=<declaration order>`; go/types
(harness/go/cmd/ctoracc) reports whether T declares MarshalJSON/UnmarshalJSON and the fields of the shadow
struct _json_T; an in-package oracle marshals NewT(sentinels), prints the members in order with their raw JSON,
the raw JSON of every leaf and of every leaf type's zero value, then unmarshals that JSON into a second value
NewT(other sentinels) and prints every leaf before and after."""
import json

import lib
import l2
import ctorgen
import ctorlib
import ctoracc
import ctor_findings
import c02
import c03

FUEL = 8
THEOREMS = ("C11_key_set_loop / C11_entries_are_selectable_leaves / C11_exported_members / C11_key_names / "
            "C11_aligned_structure / C11_marshal_runs / C11_unmarshal_runs / C11_round_trip")
CORR = "Model.CtorGetSet Model.CtorJson Corr.CtorCorr Corr.CtorGetSetCorr Corr.CtorJsonCorr"
TAGCASES = {"pascal": "TagPascal", "camel": "TagCamel", "lower": "TagLower", "upper": "TagUpper"}

PRELUDE = '''
func verifRaw(f func() any) (tok string) {
	defer func() {
		if r := recover(); r != nil {
			msg := fmt.Sprint(r)
			if strings.Contains(msg, "nil pointer dereference") {
				tok = "nilhop"
			} else {
				tok = "panic:" + strconv.Quote(msg)
			}
		}
	}()
	b, err := json.Marshal(f())
	if err != nil {
		return "err:" + strconv.Quote(err.Error())
	}
	return strings.ReplaceAll(string(b), " ", "~")
}

func verifJ(kind, key string, f func() any) { ort.Note(kind, key, verifRaw(f)) }

// the members of a JSON object in order
func verifKeys(b []byte) {
	dec := json.NewDecoder(bytes.NewReader(b))
	if t, err := dec.Token(); err != nil || t != json.Delim('{') {
		ort.Note("X", "notobject", strings.ReplaceAll(string(b), " ", "~"))
		return
	}
	for dec.More() {
		k, err := dec.Token()
		if err != nil {
			ort.Note("X", "key", strconv.Quote(err.Error()))
			return
		}
		var raw json.RawMessage
		if err := dec.Decode(&raw); err != nil {
			ort.Note("X", "value", strconv.Quote(err.Error()))
			return
		}
		var buf bytes.Buffer
		json.Compact(&buf, raw)
		ort.Note("K", fmt.Sprint(k), strings.ReplaceAll(buf.String(), " ", "~"))
	}
}

// json.Marshal(f()) must be pre + (the bytes json.Marshal gave for the pointer) + post
func verifSame(what string, b []byte, f func() any, pre, post string) {
	got, err := json.Marshal(f())
	if err != nil {
		ort.Note("X", what, strconv.Quote(err.Error()))
		return
	}
	if want := pre + string(b) + post; string(got) != want {
		ort.Note("X", what, strings.ReplaceAll(string(got)+"<>"+want, " ", "~"))
	}
}

// *p = sentinel k of p's element type (the oracle lives in the package: every leaf can be assigned directly)
func verifFill(p any, k int) {
	e := reflect.ValueOf(p).Elem()
	e.Set(ort.Sentinel(e.Type(), k))
}

func verifZero(p any) {
	e := reflect.ValueOf(p).Elem()
	e.Set(reflect.Zero(e.Type()))
}

// fn(sentinels base, base+1, ...)
func verifNew(fn any, base int) any {
	f := reflect.ValueOf(fn)
	args := make([]reflect.Value, f.Type().NumIn())
	for i := range args {
		args[i] = ort.Sentinel(f.Type().In(i), base+i)
	}
	return f.Call(args)[0].Interface()
}
'''


# ------------------------------------------------------------------ generation
def _omitempty_ok(t):
    """omitempty leaves out false, 0, nil pointers, empty slices/maps/strings -- never a struct value"""
    if t[0] in ("basic", "ptr", "slice", "map"):
        return True
    return t == ctorgen.T_named("time", "Duration") or t == ctorgen.T_named("helper", "Kind")


def add_json_tags(rng, pkg, p=0.25):
    for sd in pkg["structs"]:
        for fd in sd["fields"]:
            if len(fd["names"]) == 1 and fd["tag"] is None and rng.random() < p:
                n = fd["names"][0]
                r = rng.random()
                if r < 0.12:
                    key = "-"                                   # not a member at all (K_json_dash_zeroed, repaired)
                else:
                    key = rng.choice([n.lower() + "_j", "x" + n.lower(), n, n.upper() + "k", "k" + str(rng.randint(1, 99))])
                    if r < 0.4 and _omitempty_ok(fd["ty"]):
                        key += ",omitempty"
                fd["tag"] = '`json:"%s"`' % key


SNAKE_EXPORTED = ["Max_Size", "Base_Dir", "Item_count", "Api_URL", "Is_Open"]


def add_exported_snake(rng, pkg, p=0.25):
    """exported fields whose names change under Pascal-casing (regression of K_json_exported_snake, repaired d93a0ce)"""
    if rng.random() >= p:
        return
    sd = rng.choice(pkg["structs"])
    n = rng.choice(SNAKE_EXPORTED)
    t = ctorgen.T_basic(rng.choice(["int", "string", "bool"]))
    sd["fields"].insert(rng.randrange(0, len(sd["fields"]) + 1), ctorgen.fdecl([n], t))


SET_NAMES = ["settings", "setup", "setPoint", "set_mode"]


def add_set_names(rng, pkg, p=0.7):
    """an unexported accessor field whose NAME begins with "set" on a struct that another struct embeds: its promoted
    getter `Settings` / `Setup` ... must still be classified as a getter (shoot.Func.IsGetter looks at the signature,
    not at the name); own fields of such names take the isGet/isSet path and do not exercise that classification"""
    emb = sorted(ctorgen.embedded_struct_names(pkg))
    if not emb or rng.random() >= p:
        return
    pick = rng.choice(emb)
    sd = next(x for x in pkg["structs"] if x["name"] == pick)
    used = set(n for x in pkg["structs"] for fd in x["fields"] for n in fd["names"])
    n = rng.choice(SET_NAMES)
    if n in used:
        return
    t = ctorgen.T_basic(rng.choice(["int", "string", "bool", "float64"]))
    d = rng.choice(["//shoot: get", "//shoot: get;set", "//shoot: set;get", "// shoot: get"])
    sd["fields"].insert(rng.randrange(0, len(sd["fields"]) + 1), ctorgen.fdecl([n], t, [d]))


SETTER_ONLY_FIELDS = ["revision", "editor", "audit_no"]


def add_setter_only_embedded(rng, pkg, p=0.45):
    """a WRITE-ONLY shoot type (type directive `shoot: setter`: it contributes a TSetter interface and no TGetter) that a
    later type of the same run embeds: the promoted setters reach the embedding type's JSON code only through the package
    reloaded with T's fresh output (first generation, no earlier output on disk)"""
    emb = sorted(ctorgen.embedded_struct_names(pkg))
    if not emb or rng.random() >= p:
        return
    pick = rng.choice(emb)
    sd = next(x for x in pkg["structs"] if x["name"] == pick)
    sd["comment"] = list(rng.choice([["// shoot: setter"], ["// some type", "//shoot: setter;"], ["//shoot:setter"]]))
    sd["doc"] = ctorgen.doc_text(sd["comment"])
    sd["_setter_only"] = True
    used = set(n for x in pkg["structs"] for fd in x["fields"] for n in fd["names"])
    n = rng.choice(SETTER_ONLY_FIELDS)
    if n not in used:
        # a field without directive: both accessors by default, only the setter under the type's switch
        t = ctorgen.T_basic(rng.choice(["int", "string", "bool"]))
        sd["fields"].insert(rng.randrange(0, len(sd["fields"]) + 1), ctorgen.fdecl([n], t))


def setter_only_embedded(pkg):
    """selected structs that directly embed a selected struct made write-only by add_setter_only_embedded"""
    if not pkg["getset"]:
        return 0
    so = set(sd["name"] for sd in pkg["structs"] if sd.get("_setter_only") and sd["name"] in pkg["order"])
    return sum(1 for sd in pkg["structs"] if sd["name"] in pkg["order"] and
               any(not fd["names"] and ctorgen.short_name(fd["ty"]) in so for fd in sd["fields"]))


def json_tag_of(fd):
    if fd["tag"] is None:
        return ""
    import re
    m = re.search(r'json:"([^"]*)"', fd["tag"])
    return m.group(1) if m else ""


def precheck(pkg, sd, selected):
    cls = ctoracc.precheck(pkg, sd, selected)
    if cls == "bad":
        return "bad"
    occ, best = c02.selectable(pkg, sd)
    for fd in sd["fields"]:
        t = json_tag_of(fd)
        if t and any(o != "omitempty" for o in t.split(",")[1:]):
            cls = "out"
    for o in occ:
        if o[3] and o[4]:
            sub = ctorgen.struct_of(pkg, o[2])
            if any(json_tag_of(fd) for fd in sub["fields"]):
                cls = "out"
    return cls


def member_keys(pkg, sd, tagcase):
    """python twin of the member names (steering only): [(field name, key)] for the fields Go selects on sd"""
    occ, best = c02.selectable(pkg, sd)
    res = []
    for name, (d, os_) in best.items():
        o = os_[0]
        if o[3] and o[4]:
            continue
        tag = ""
        if d == 1:
            fd = next((f for f in sd["fields"] if name in f["names"]), None)
            if fd is not None:
                tag = json_tag_of(fd)
        if tag == "-":
            continue
        if tag and tag.split(",")[0]:
            key = tag.split(",")[0]
        elif tag:
            key = ctorgen._go_pascal(name)
        elif tagcase == "pascal":
            key = ctorgen._go_pascal(name)
        elif tagcase == "camel":
            key = ctorgen.to_camel(name)
        elif tagcase == "lower":
            key = name.lower()
        else:
            key = name.upper()
        res.append((name, key))
    return res


def keys_collide(pkg, sd, tagcase):
    ks = [k.lower() for _, k in member_keys(pkg, sd, tagcase)]
    return len(set(ks)) != len(ks) or "" in ks


def _sd(name, fields, comment=()):
    return {"pkg": "", "name": name, "tparams": [], "doc": ctorgen.doc_text(list(comment)), "comment": list(comment),
            "fields": fields}


def fixed_corpus():
    """two fixed packages at the head of every run (inside the guard, judged like the generated ones):
    j000  -tagcase=camel with two-letter all-caps humps after the first hump (userID -> userId, ClientIP -> clientIp,
          hostOS -> hostOs), own and promoted;
    j001  a chain of three shoot types (Son embeds Base embeds *Grand, accessor fields at every level); none of Son's OWN
          fields needs JSON code (exported, explicitly tagged) but the promoted accessor fields do: Son must get its own
          JSON code (else Go promotes Base's MarshalJSON); -tagcase=upper with an explicit tag equal to the name"""
    B, N, f = ctorgen.T_basic, ctorgen.T_named, ctorgen.fdecl
    peer = _sd("Peer", [f(["userID"], B("int"), ["//shoot: get;set"]), f(["ClientIP"], B("string")),
                        f(["hostOS"], B("string")), f(["peerIP"], B("bool"), ["//shoot: get"]),
                        # a single capital at the end; a tag equal to the name (kept verbatim, not transformed); json not
                        # the first key of the tag; a field with a setter and no getter (marshals as zero)
                        f(["axisX"], B("float64")), f(["planB"], B("string"), ["//shoot: get"]),
                        f(["secret"], B("string"), ["//shoot: set"])])
    conn = _sd("Conn", [f([], N("", "Peer")), f(["Port"], B("int")), f(["nodeID"], B("int64"), ["//shoot: set;get"]),
                        f(["URL"], B("string"), (), '`json:"URL"`'), f(["uid"], B("int"), (), '`db:"u" json:"uid_k"`')])
    a = {"name": "j000", "structs": [peer, conn], "extra_decls": [], "features": {}, "tagcase": "camel"}
    grand = _sd("Grand", [f(["gname"], B("string"), ["//shoot: get;set"]), f(["Depth"], B("int"))])
    base = _sd("Base", [f([], ("ptr", N("", "Grand"))), f(["name"], B("string"), ["//shoot: get;set"]), f(["Level"], B("int"))])
    son = _sd("Son", [f([], N("", "Base")), f(["Title"], B("string"), (), '`json:"title"`'),
                      f(["Count"], B("int"), (), '`json:"Count"`')])
    b = {"name": "j001", "structs": [grand, base, son], "extra_decls": [], "features": {}, "tagcase": "upper"}
    for pkg in (a, b):
        pkg["order"] = [sd["name"] for sd in pkg["structs"]]
        pkg["rounds"], pkg["getset"] = 1, True
        pkg["classes"] = [precheck(pkg, sd, pkg["order"]) for sd in pkg["structs"]]
    return [a, b]


SNAKE_FAMILY = [
    # (name, directive)  snake words carrying capitals / digits / empty words: ToPascalCase raises only the first letter of
    # every snake word and keeps the rest AS WRITTEN (api_URL -> ApiURL, MAX_SIZE -> MAXSIZE, camel: maxsize)
    ("api_URL", "//shoot: get;set"), ("user_ID", "//shoot: get;set"), ("MAX_SIZE", None), ("user_firstName", "//shoot: get;set"),
    ("Api_Key", None), ("HTTP_code_v2", None), ("v2_apiURL", "//shoot: get;set"), ("x_1", "//shoot: get;set"),
    ("tail_", "//shoot: get;set"), ("dbl__underIP", "//shoot: get;set"),
]


def fifth_bank_corpus():
    """fixed packages appended AFTER the generated stream of every run (no random draw, the stream is not shifted):
    s0..s3  the snake family x every -tagcase value, own (Names) and promoted (Outer embeds Names); s4 leading underscore;
    d0..d3  k = 2..3 embedded structs (by value / by pointer, depth 1 / 2) that all carry an exported field ID, and an own
            field ID declared before / between / after them: the own field (depth 0) hides EVERY promoted one, the shadow
            struct and the JSON bodies list ID once."""
    B, N, f = ctorgen.T_basic, ctorgen.T_named, ctorgen.fdecl
    P = lambda n: ("ptr", N("", n))
    res = []
    tys = ["string", "int", "int64", "bool", "float64"]
    for i, tc in enumerate(["pascal", "camel", "lower", "upper"]):
        names = _sd("Names", [f([n], B(tys[j % len(tys)]), [d] if d else ()) for j, (n, d) in enumerate(SNAKE_FAMILY)])
        outer = _sd("Outer", [f([], N("", "Names")), f(["req_ID"], B("int"), ["//shoot: get;set"]), f(["Max_TTL"], B("int"))])
        res.append({"name": "s%d" % i, "structs": [names, outer], "tagcase": tc})
    # a leading underscore keeps the field out of the constructor (outside the guard: model and code are only compared)
    res.append({"name": "s4", "tagcase": "pascal", "structs": [
        _sd("Lead", [f(["_lead_ID"], B("int"), ["//shoot: get;set"]), f(["plain_URL"], B("string"), ["//shoot: get;set"])])]})

    def carriers():
        return [_sd("Audit", [f(["ID"], B("int")), f(["who"], B("string"))]),
                _sd("Meta", [f(["ID"], B("int")), f(["rev"], B("int"))]),
                _sd("Extra", [f(["ID"], B("int")), f(["note"], B("string"))])]
    own, ttl = f(["ID"], B("int")), lambda n: f([n], B("string"))
    e = lambda t: f([], t)
    # d0: k = 2 by value, own field after / before / between
    res.append({"name": "d0", "tagcase": "pascal", "structs": carriers()[:2] + [
        _sd("DocAfter", [e(N("", "Audit")), e(N("", "Meta")), ttl("title"), own]),
        _sd("DocBefore", [own, ttl("head"), e(N("", "Audit")), e(N("", "Meta"))]),
        _sd("DocBetween", [e(N("", "Audit")), own, e(N("", "Meta")), ttl("mid")])]})
    # d1: by pointer, k = 2 and k = 3 (mixed)
    res.append({"name": "d1", "tagcase": "camel", "structs": carriers() + [
        _sd("PtrAfter", [e(P("Audit")), e(P("Meta")), ttl("title"), own]),
        _sd("Three", [e(N("", "Audit")), e(P("Meta")), e(N("", "Extra")), ttl("label"), own]),
        _sd("ThreeMid", [e(P("Audit")), own, e(N("", "Meta")), ttl("tag_no"), e(P("Extra"))])]})
    # d2: depth 2 (Wrap embeds Audit, Box embeds *Meta) next to depth 1
    res.append({"name": "d2", "tagcase": "lower", "structs": carriers() + [
        _sd("Wrap", [e(N("", "Audit")), ttl("wname")]), _sd("Box", [e(P("Meta")), ttl("bname")]),
        _sd("DeepAfter", [e(N("", "Wrap")), e(N("", "Extra")), ttl("title"), own]),
        _sd("DeepBoth", [e(N("", "Wrap")), e(P("Box")), ttl("both"), own]),
        _sd("DeepThree", [e(P("Wrap")), e(N("", "Box")), own, e(N("", "Extra")), ttl("three")])]})
    # d3: the own field of another type than the promoted ones (legal Go: depth 0 wins), upper
    res.append({"name": "d3", "tagcase": "upper", "structs": carriers()[:2] + [
        _sd("StrAfter", [e(N("", "Audit")), e(N("", "Meta")), ttl("title"), f(["ID"], B("string"))]),
        _sd("StrBetween", [e(P("Audit")), f(["ID"], B("string")), e(P("Meta")), ttl("mid")])]})
    for pkg in res:
        pkg["extra_decls"], pkg["features"] = [], {}
        pkg["order"] = [sd["name"] for sd in pkg["structs"]]
        pkg["rounds"], pkg["getset"] = 1, True
        pkg["classes"] = [precheck(pkg, sd, pkg["order"]) for sd in pkg["structs"]]
    return res


def gen_packages(run, n):
    pkgs, stats = _gen_packages(run, n)
    if n >= 20:
        extra = fifth_bank_corpus()
        stats["fifth_bank_corpus"] = len(extra)
        pkgs += extra
    return pkgs, stats


def _gen_packages(run, n):
    pkgs, stats = [], {"regenerated": 0, "outside_guard_kept": 0, "fatal_expected": 0, "key_collision_kept": 0,
                   "key_collision_regenerated": 0, "fixed_corpus": 0}
    if n >= 20:
        pkgs += fixed_corpus()
        stats["fixed_corpus"] = len(pkgs)
    k = 0
    # the first packages of every run are of one fixed class, inside the guard: a write-only shoot type embedded by a later
    # type of the same -getset -json run (first generation; depends on the package being reloaded after EVERY type)
    need = len(pkgs) + (3 if n < 100 else 10)
    while len(pkgs) < n:
        k += 1
        name = "j%03d" % len(pkgs)
        force = len(pkgs) < need and k < 40 * n
        style = run.rng.random()
        if force:
            style = 0.3
        if style < 0.2:
            opts = dict(p_embed=0.0, p_generic=0.25)
        elif style < 0.65:
            opts = dict(p_embed=0.95, nstructs=run.rng.choice([3, 4, 5]))
        else:
            opts = dict(p_embed=0.8)
        getset = run.rng.random() < 0.85 or force
        fatal = getset and run.rng.random() < 0.03 and not force
        pkg = ctoracc.gen_acc_pkg(run.rng, name, p_exported_dir=0.5 if fatal else 0.0, **opts)
        add_exported_snake(run.rng, pkg)
        add_set_names(run.rng, pkg)
        add_setter_only_embedded(run.rng, pkg, p=1.0 if force else 0.45)
        add_json_tags(run.rng, pkg)
        ctoracc.add_groups(run.rng, pkg, p=0.08)
        names = [sd["name"] for sd in pkg["structs"]]
        selected = list(names)
        if len(names) > 2 and run.rng.random() < 0.15:
            selected.remove(run.rng.choice(names))
        classes = [precheck(pkg, sd, selected) for sd in pkg["structs"]]
        tagcase = run.rng.choice(sorted(TAGCASES))
        # member names that collide under case folding: encoding/json drops such fields (not modelled)
        collide = any(keys_collide(pkg, sd, tagcase) for sd in pkg["structs"] if sd["name"] in selected)
        if collide and "bad" not in classes and run.rng.random() < 0.2:     # ~3 of 4 colliding packages are "bad" anyway: ~1 in 20 kept
            classes = ["out" if x == "in" else x for x in classes] + ["collision"]     # K_json_key_collision class
        elif collide:
            classes.append("bad")
        pkg["order"], pkg["getset"] = selected, getset
        if force and (set(classes) != {"in"} or not setter_only_embedded(pkg)):
            stats["regenerated"] += 1
            continue
        if "bad" in classes or (classes.count("out") and "collision" not in classes and run.rng.random() < 0.9):
            stats["regenerated"] += 1
            stats["key_collision_regenerated"] += 1 if collide else 0
            if k < 60 * n:
                continue
        stats["key_collision_kept"] += 1 if "collision" in classes else 0
        pkg["order"] = selected                       # declaration order = dependency order (complete view)
        pkg["rounds"] = 1
        pkg["getset"] = getset
        pkg["tagcase"] = tagcase
        pkg["classes"] = classes
        stats["outside_guard_kept"] += 1 if "out" in classes else 0
        stats["fatal_expected"] += 1 if fatal else 0
        pkgs.append(pkg)
    return pkgs, stats


# ------------------------------------------------------------------ oracle text
def oracle_for_struct(pkg, sd, inst, key, has_json=True):
    T = sd["name"] + ctorlib.inst_suffix(inst)
    lf, em = ctoracc.leaves(pkg, sd, inst)
    cid = "%s.%s" % key
    lines = ['\tort.Block(%s, func() {' % json.dumps(cid),
             '\t\tv := verifNew(New%s, 0).(*%s)' % (T, T), '\t\t_ = v']
    for i, (p, t) in enumerate(lf):
        if i % 5 == 4:
            lines.append('\t\tverifZero(&v.%s)' % ".".join(p))      # some zero leaves in v (omitempty, "v's value" = zero)
        else:
            lines.append('\t\tverifFill(&v.%s, %d)' % (".".join(p), 200 + i))
    for p, t in lf:
        path = ".".join(p)
        lines.append('\t\tverifJ("L", %s, func() any { return v.%s })' % (json.dumps(path), path))
        lines.append('\t\tverifJ("Z", %s, func() any { var z %s; return z })' % (json.dumps(path), ctorgen.go_type(t)))
    lines.append('\t\tb, err := json.Marshal(v)')
    lines.append('\t\tif err != nil { ort.Note("X", "marshal", strconv.Quote(err.Error())); return }')
    lines.append('\t\tverifKeys(b)')
    # the same value marshalled BY VALUE (not addressable) and held by value in a struct field and a map: a MarshalJSON on
    # the pointer receiver is skipped there and encoding/json falls back to its default encoding
    lines.append('\t\tverifSame("byvalue", b, func() any { return *v }, "", "")')
    lines.append('\t\tverifSame("held_by_value", b, func() any { return struct{ X %s }{*v} }, `{"X":`, "}")' % T)
    lines.append('\t\tverifSame("map_value", b, func() any { return map[string]%s{"k": *v} }, `{"k":`, "}")' % T)
    lines.append('\t\tw := verifNew(New%s, 50).(*%s)' % (T, T))
    for i, (p, t) in enumerate(lf):
        if not has_json and "map[" in ctorgen.go_type(t):
            # without generated JSON code encoding/json decodes straight into w's field and MERGES into an existing
            # map -- also into the maps still sitting in the backing array of an existing []map (golang/go#21092);
            # the generated code assigns a freshly decoded value: start from the zero value there
            lines.append('\t\tverifZero(&w.%s)' % ".".join(p))
        else:
            lines.append('\t\tverifFill(&w.%s, %d)' % (".".join(p), 301 + i))
    for p, t in lf:
        path = ".".join(p)
        lines.append('\t\tverifJ("B", %s, func() any { return w.%s })' % (json.dumps(path), path))
    lines.append('\t\tif err := json.Unmarshal(b, w); err != nil { ort.Note("X", "unmarshal", strconv.Quote(err.Error())); return }')
    for p, t in lf:
        path = ".".join(p)
        lines.append('\t\tverifJ("P", %s, func() any { return w.%s })' % (json.dumps(path), path))
    lines.append('\t})')
    return "\n".join(lines) + "\n"


def oracle_file(pkg, body, needs_time, needs_helper, modname):
    imps = ['"bytes"', '"encoding/json"', '"fmt"', '"reflect"', '"strconv"', '"strings"', 'ort "%s/ort"' % modname]
    if needs_time:
        imps.append('"time"')
    if needs_helper:
        imps.append('"%s/helper"' % modname)
    head = "package %s\n\nimport (\n%s)\n\n" % (pkg["name"], "".join("\t%s\n" % i for i in imps))
    use = "var _ = reflect.ValueOf\nvar _ = bytes.NewReader\n"
    if needs_time:
        use += "var _ time.Duration\n"
    if needs_helper:
        use += "var _ helper.Kind\n"
    return head + use + PRELUDE + "\nfunc VerifOracle() {\n" + body + "}\n"


# ------------------------------------------------------------------ observation
def shoot_args(pkg):
    return (["new"] + (["-getset"] if pkg["getset"] else []) + ["-json", "-tagcase=" + pkg["tagcase"]] +
            ["-type=" + ",".join(pkg["order"])])


def observe(run, shoot, accbin, modname, pkgs):
    mod = ctorlib.setup_module(run, modname)
    jobs = []
    for pkg in pkgs:
        l2.write_files(mod / pkg["name"], ctoracc.render_go(pkg, modname))
        pkg["args"] = shoot_args(pkg)
        jobs.append((pkg["name"], pkg["args"]))
    res = ctorlib.run_shoot_pkgs(shoot, mod, jobs)
    run.log("shoot ran on %d packages" % len(pkgs))
    sigs = ctoracc.run_ctoracc(accbin, mod)
    run.log("ctoracc done")
    obs, bodies = {}, {}
    for pkg, r in zip(pkgs, res):
        info = sigs.get("%s/%s" % (modname, pkg["name"]))
        pkg["shoot"] = {"rc": r["rc"], "out": r["out"][-600:], "err": r["err"][-600:], "timed_out": r["timed_out"]}
        status = 2 if r["timed_out"] else (1 if r["rc"] != 0 else 0)
        pkg["status"] = status
        errs = (info or {}).get("errors", ["ctoracc did not report the package"])
        pkg["type_errors"] = errs
        body = ""
        for sd in pkg["structs"]:
            if sd["name"] not in pkg["order"]:
                continue
            key = (pkg["name"], sd["name"])
            o = {"name": sd["name"], "status": 0, "has_json": False, "shadow": [], "err": False, "keys": [], "leaves": [],
                 "zeros": [], "before": [], "after": [], "notes": []}
            obs[key] = o
            if status != 0:
                o["status"] = 5
                continue
            if errs:
                # every compile error goes to the struct whose generated declarations contain its position; an error that
                # belongs to no struct counts against all of them (3), errors of sibling types only give 5
                if "_attr" not in pkg:
                    pkg["_attr"] = ctorlib.attribute_errors(mod / pkg["name"], [x["name"] for x in pkg["structs"]], errs)
                o["status"], o["errors"] = ctorlib.status_from_errors(sd["name"], *pkg["_attr"])
                continue
            st = info["structs"].get(sd["name"])
            if st is None or ("New" + sd["name"]) not in info["funcs"]:
                o["status"] = 6          # the package type-checks but T / NewT is missing: fails Pb inside the guard
                continue
            own = set(m[0] for m in st["own"])
            o["has_json"] = "MarshalJSON" in own and "UnmarshalJSON" in own
            sh = info["structs"].get("_json_" + sd["name"])
            o["shadow"] = [(f[0], f[1], f[2]) for f in sh["fields"]] if sh else []
            inst = ctorlib.inst_for(sd, run.rng)
            body += oracle_for_struct(pkg, sd, inst, key, o["has_json"])
            sd["_observed"] = True
        if body:
            text = "".join(ctoracc.render_go(pkg, modname).values())
            bodies[pkg["name"]] = oracle_file(pkg, body, '"time"' in text, "/helper" in text, modname)
    for d, t in bodies.items():
        l2.write_files(mod / d, {"zz_oracle_verif.go": t})
    cases = {}
    if bodies:
        cases, err = ctorlib.build_and_run_oracles(run, mod, modname, sorted(bodies))
        if cases is None:
            raise lib.CheckBroken("the oracle program does not build: " + err[-4000:])
    run.log("oracle ran: %d blocks" % len(cases))
    for pkg in pkgs:
        for sd in pkg["structs"]:
            key = (pkg["name"], sd["name"])
            o = obs.get(key)
            if o is None or o["status"] != 0:
                continue
            c = cases.get("%s.%s" % key)
            if c is None:
                o["status"] = 5
                continue
            o["err"] = bool(c["panics"])
            for kind, kk, tok in c["reads"]:
                if kind == "K":
                    o["keys"].append((kk, tok))
                elif kind == "L":
                    o["leaves"].append((kk.split("."), tok))
                elif kind == "Z":
                    o["zeros"].append((kk.split("."), tok))
                elif kind == "B":
                    o["before"].append((kk.split("."), tok))
                elif kind == "P":
                    o["after"].append((kk.split("."), tok))
                elif kind == "X":
                    o["err"] = True
                    o["notes"].append((kk, tok))
            o["notes"] += c["panics"]
    return obs, mod


# ------------------------------------------------------------------ cases
def coq_jobs(o):
    cs, cl, cp = ctorgen.coq_str, ctorgen.coq_list, ctorlib.coq_path
    return ("{| jo_name := %s; jo_status := %d; jo_has_json := %s; jo_shadow := %s; jo_err := %s; jo_keys := %s; "
            "jo_leaves := %s; jo_zeros := %s; jo_before := %s; jo_after := %s |}"
            % (cs(o["name"]), o["status"], ctoracc.coq_bool(o["has_json"]), cl([ctoracc.coq_row(r) for r in o["shadow"]]),
               ctoracc.coq_bool(o["err"]), ctorlib.coq_pairs(o["keys"], cs, cs),
               ctorlib.coq_pairs(o["leaves"], cp, cs), ctorlib.coq_pairs(o["zeros"], cp, cs),
               ctorlib.coq_pairs(o["before"], cp, cs), ctorlib.coq_pairs(o["after"], cp, cs)))


def render_cases(pkgs, obs, fuel=FUEL):
    cs, cl = ctorgen.coq_str, ctorgen.coq_list
    pkgdefs, rendered = {}, []
    for pkg in pkgs:
        ident = "pkg_" + pkg["name"]
        pkgdefs[ident] = ctorgen.coq_pkg(pkg)
        structs = [obs[(pkg["name"], t)] for t in pkg["order"] if (pkg["name"], t) in obs]
        flags = ctoracc.coq_flags(getset=pkg["getset"], js=True, tagcase=TAGCASES[pkg["tagcase"]])
        term = ("{| jc_pkg := %s; jc_flags := %s; jc_fuel := %d; jc_order := %s; jc_status := %d; jc_structs := %s |}"
                % (ident, flags, fuel, cl([cs(t) for t in pkg["order"]]), pkg["status"],
                   cl([coq_jobs(o) for o in structs] if pkg["status"] == 0 else [])))
        rendered.append((term, [ident]))
    return pkgdefs, rendered


def replay_record(pkg, obs, verdict, modname):
    return {"kind": "property-fails-on-implementation" if verdict == 2 else "correspondence-broken",
            "theorem": THEOREMS,
            "correspondence": "L2:C11:shadow struct, json.Marshal members, Unmarshal(Marshal v) vs Model/CtorJson.v",
            "spec": ctoracc.spec_json(pkg), "order": pkg["order"], "getset": pkg["getset"], "tagcase": pkg["tagcase"],
            "sources": ctoracc.render_go(pkg, modname), "cmd": "shoot " + " ".join(pkg["args"]),
            "shoot": pkg.get("shoot"), "type_errors": pkg.get("type_errors"),
            "observed": [obs[(pkg["name"], t)] for t in pkg["order"] if (pkg["name"], t) in obs],
            "verdict": verdict,
            "how": "render the sources into a module that replaces github.com/lopolopen/shoot by the tree under test, run the "
                   "command in the package directory, go build; v := NewT(distinct values); json.Marshal(v) -- and json.Marshal(*v), "
                   "struct{ X T }{*v}, map[string]T{\"k\": *v} must give the same bytes (notes byvalue / held_by_value / "
                   "map_value otherwise) --: compare the member "
                   "names and values with the fields (explicit json tag, else the -tagcase transform of the name; getter-less "
                   "fields are zero); json.Unmarshal of that JSON into another NewT(...) value: exported fields and fields "
                   "with both accessors equal v's (expected: coq/Model/CtorJson.v)"}


# ------------------------------------------------------------------ findings
def _build_and_test(run, d, test_src, name):
    """write a _test.go into the witness package and run it; returns combined output"""
    l2.write_files(d, {name: test_src})
    rc, out, err = lib.sh(["go", "test", "-count=1", "-v", "./" + d.name], cwd=d.parent, env=lib.go_env(), timeout=600)
    return rc, out + err


def h_tag_transformed(run, shoot):
    def h(e):
        r, gen, _ = ctor_findings._run(run, shoot, e)
        if r["rc"] != 0:
            return "other: exit %s: %s" % (r["rc"], r["err"][-200:])
        txt = "".join(gen.values())
        if 'json:"USER_NAME"' in txt or "TG,OMITEMPTY" in txt:
            return "buggy"
        if 'json:"user_name"' in txt and 'json:"tg,omitempty"' in txt and 'json:"PLAIN"' in txt:
            return "correct"
        return "other: unexpected tags"
    return h


def h_getter_only_setters(run, shoot):
    def h(e):
        r, gen, d = ctor_findings._run(run, shoot, e)
        if r["rc"] != 0:
            return "other: exit %s: %s" % (r["rc"], r["err"][-200:])
        txt = "".join(gen.values())
        if "r.SetA(" in txt or "r.SetB(" in txt:
            return "buggy"
        ok, errs = l2.go_build(d.parent, ["./" + d.name])
        if not ok:
            return "other: witness does not build: %s" % str(errs)[:300]
        return "correct"
    return h


def h_getsetmethods_leak(run, shoot):
    """-type=A,B vs -type=B: B's JSON code must not depend on A being processed before"""
    def h(e):
        src = ("package q\n\ntype Base struct {\n\tz string\n}\n\ntype A struct {\n\tBase\n\ta int\n}\n\n"
               "type B struct {\n\tz string `new:\"-\"`\n\tb int\n\tC int\n}\n")
        outs = []
        for k, types in enumerate(("Base,A,B", "Base,B")):
            mod = l2.make_module(run, "witmod")
            d = mod / ("k_gsm_leak_%d" % k)
            l2.write_files(d, {"q.go": src})
            r = l2.run_shoot(shoot, d, ["new", "-getset", "-json", "-type=" + types], timeout=20)
            if r["rc"] != 0:
                return "other: exit %s: %s" % (r["rc"], r["err"][-200:])
            p = d / "q.shootnew.b.go"
            if not p.exists():
                return "other: q.shootnew.b.go not written"
            body = p.read_text()
            outs.append(body[body.index("package q"):])
        if outs[0] == outs[1]:
            return "correct"
        return "buggy"
    return h


PROMOTED_TAG_TEST = '''package p

import (
	"encoding/json"
	"testing"
)

func TestW(t *testing.T) {
	b, _ := json.Marshal(NewSon(1, 2))
	t.Logf("JSON %s", b)
}
'''


def h_promoted_tag_lost(run, shoot):
    def h(e):
        r, gen, d = ctor_findings._run(run, shoot, e)
        if r["rc"] != 0:
            return "other: exit %s: %s" % (r["rc"], r["err"][-200:])
        rc, out = _build_and_test(run, d, PROMOTED_TAG_TEST, "w_test.go")
        if '"tg":1' in out:
            return "correct"
        if '"tag":1' in out:
            return "buggy"
        return "other: %s" % out[-300:]
    return h


NIL_EMBED_TEST = '''package p

import (
	"encoding/json"
	"testing"
)

func TestW(t *testing.T) {
	defer func() {
		if r := recover(); r != nil {
			t.Logf("PANICKED %v", r)
		}
	}()
	var o Order
	b, err := json.Marshal(o)
	t.Logf("JSON %s %v", b, err)
	err = json.Unmarshal([]byte(`{"z":1,"n":2}`), &o)
	t.Logf("UNMARSHALLED %v", err)
}
'''


def h_nil_embed(run, shoot):
    def h(e):
        r, gen, d = ctor_findings._run(run, shoot, e)
        if r["rc"] != 0:
            return "other: exit %s: %s" % (r["rc"], r["err"][-200:])
        rc, out = _build_and_test(run, d, NIL_EMBED_TEST, "w_test.go")
        if "PANICKED" in out and "nil pointer" in out:
            return "buggy"
        if "UNMARSHALLED <nil>" in out:
            return "correct"
        return "other: %s" % out[-300:]
    return h


def h_exported_snake(run, shoot):
    def h(e):
        r, gen, d = ctor_findings._run(run, shoot, e)
        if r["rc"] != 0:
            return "other: exit %s: %s" % (r["rc"], r["err"][-200:])
        ok, errs = l2.go_build(d.parent, ["./" + d.name])
        if ok:
            return "correct"
        if "unknown field Max_Size" in str(errs):
            return "buggy"
        return "other: %s" % str(errs)[:300]
    return h


PROMOTED_MARSHALER_TEST = '''package p

import (
	"encoding/json"
	"testing"
)

func TestW(t *testing.T) {
	w := &Wrap{Base: Base{z: "zz"}, X: 7}
	b, _ := json.Marshal(w)
	t.Logf("JSON %s", b)
}
'''


def h_promoted_marshaler(run, shoot):
    def h(e):
        r, gen, d = ctor_findings._run(run, shoot, e)
        if r["rc"] != 0:
            return "other: exit %s: %s" % (r["rc"], r["err"][-200:])
        rc, out = _build_and_test(run, d, PROMOTED_MARSHALER_TEST, "w_test.go")
        if '"x":7' in out:
            return "correct"
        if 'JSON {"z":"zz"}' in out:
            return "buggy"
        return "other: %s" % out[-300:]
    return h


def h_aio_stale(run, shoot):
    """all-in-one output over a stale earlier output: the JSON code of the embedding type must equal a clean run's"""
    def h(e):
        w = e["witness"]
        mod = l2.make_module(run, "witmod")
        a, b = mod / "k_aio_a", mod / "k_aio_b"

        def put(root, files):
            l2.write_files(root, files)
        put(a, w["files_v1"])
        r1 = l2.run_shoot(shoot, a / "p", w["args"], timeout=20)
        put(a, w["files_v2"])
        r2 = l2.run_shoot(shoot, a / "p", w["args"], timeout=20)
        put(b, w["files_v2"])
        r3 = l2.run_shoot(shoot, b / "p", w["args"], timeout=20)
        if r1["rc"] or r2["rc"] or r3["rc"]:
            return "other: exit %s %s %s" % (r1["rc"], r2["rc"], r3["rc"])
        fa, fb = a / "p" / w["file"], b / "p" / w["file"]
        if not fa.exists() or not fb.exists():
            return "other: %s not written" % w["file"]
        return "correct" if fa.read_text() == fb.read_text() else "buggy"
    return h


DASH_TEST = '''package p

import (
	"encoding/json"
	"testing"
)

func TestW(t *testing.T) {
	b, _ := json.Marshal(NewConf("sec", 5, "n"))
	w := NewConf("keep", 9, "m")
	err := json.Unmarshal(b, w)
	t.Logf("AFTER secret=%q hid=%d name=%q err=%v", w.Secret, w.hid, w.name, err)
}
'''


def h_dash_zeroed(run, shoot):
    def h(e):
        r, gen, d = ctor_findings._run(run, shoot, e)
        if r["rc"] != 0:
            return "other: exit %s: %s" % (r["rc"], r["err"][-200:])
        rc, out = _build_and_test(run, d, DASH_TEST, "w_test.go")
        if 'AFTER secret="keep" hid=9 name="n"' in out:
            return "correct"
        if 'AFTER secret="" hid=0' in out:
            return "buggy"
        return "other: %s" % out[-300:]
    return h


COLLISION_TEST = '''package p

import (
	"encoding/json"
	"testing"
)

func TestW(t *testing.T) {
	b, _ := json.Marshal(NewConf(1, 2, "n"))
	t.Logf("JSON %s", b)
}
'''


def h_key_collision(run, shoot):
    def h(e):
        r, gen, d = ctor_findings._run(run, shoot, e)
        if r["rc"] != 0:
            return "correct" if not r["panicked"] and not r["timed_out"] else "other: panic/timeout"     # refused with a diagnostic
        rc, out = _build_and_test(run, d, COLLISION_TEST, "w_test.go")
        if 'JSON {"name":"n"}' in out:
            return "buggy"
        if '"maxsize"' in out.lower() and out.lower().count("maxsize") >= 1 and '"name":"n"' in out:
            return "correct"
        return "other: %s" % out[-300:]
    return h


BY_NAME_TEST = '''package p

import (
	"encoding/json"
	"testing"
)

func TestW(t *testing.T) {
	w := &Base{}
	w.size = "own"
	w.User.size = "inner"
	err := json.Unmarshal([]byte(`{"size":"X"}`), w)
	t.Logf("AFTER own=%q inner=%q err=%v", w.size, w.User.size, err)
}
'''


def h_accessor_by_name(run, shoot):
    def h(e):
        r, gen, d = ctor_findings._run(run, shoot, e)
        if r["rc"] != 0:
            return "other: exit %s: %s" % (r["rc"], r["err"][-200:])
        rc, out = _build_and_test(run, d, BY_NAME_TEST, "w_test.go")
        if 'AFTER own="own" inner="X"' in out:
            return "buggy"
        if 'AFTER own="own" inner="inner"' in out or 'AFTER own="X" inner="inner"' in out:
            return "correct"
        return "other: %s" % out[-300:]
    return h


def finding_handlers(run, shoot):
    return {
        "K_json_accessor_by_name": h_accessor_by_name(run, shoot),
        "K_json_dash_zeroed": h_dash_zeroed(run, shoot),
        "K_json_key_collision": h_key_collision(run, shoot),
        "K_aio_overlay_stale": h_aio_stale(run, shoot),
        "K_json_tag_transformed": h_tag_transformed(run, shoot),
        "K_json_getter_only_setters": h_getter_only_setters(run, shoot),
        "K_getsetmethods_leak": h_getsetmethods_leak(run, shoot),
        "K_json_promoted_tag_lost": h_promoted_tag_lost(run, shoot),
        "K_json_nil_embed": h_nil_embed(run, shoot),
        "K_json_exported_snake": h_exported_snake(run, shoot),
        "K_json_promoted_marshaler": h_promoted_marshaler(run, shoot),
    }


# ------------------------------------------------------------------ main
def main(run):
    run.log("start")
    proof_ok = run.prove("Properties/C11.v", ["Corr/CtorJsonCorr.v", "Corr/CtorDirectiveCorr.v", "Corr/TransferCorr.v"])
    shoot = run.build_shoot()
    accbin = run.build_helper("ctoracc")
    probe = lib.build_verifprobe(run)
    run.log("built")
    l1 = ctoracc.start_l1(run, probe)
    outcome = run.replay_findings(finding_handlers(run, shoot))
    run.log("findings replayed")

    npk = 700 if run.thorough() else 48
    pkgs, gstats = gen_packages(run, npk)
    obs, mod = observe(run, shoot, accbin, "c11mod", pkgs)
    pkgdefs, rendered = render_cases(pkgs, obs)
    run.log("cases: %d packages" % len(rendered))
    mism = ctorlib.coq_shards(run, "c11cases", pkgdefs, rendered, CORR, "jmismatches", "jcase", shard=10)
    verdicts = dict(mism)
    reported = 0
    for idx, v in sorted(mism, key=lambda iv: (iv[1] != 2, iv[0])):
        if v in (1, 2, 4) and reported < 5:
            run.violation(replay_record(pkgs[idx], obs, v, "c11mod"), no_input=(v != 2))
            reported += 1
    ncalls, tm, dcalls, dm = l1.result()
    for m in tm[:3]:
        run.violation({"kind": "correspondence-broken", "correspondence": "L1:transfer vs Model/Transfer.v", "call": m},
                      no_input=True)
    for m in dm[:3]:
        run.violation({"kind": "correspondence-broken",
                       "correspondence": "L1:constructor directive parsers vs Model/CtorDirective.v", "call": m},
                      no_input=True)
    if not proof_ok and reported == 0 and not tm and not dm:
        run.proof_failure_violation()

    feat, nontrivial = {}, set()

    def bump(k, v=1):
        feat[k] = feat.get(k, 0) + v
    nstructs = nmarsh = njson = 0
    for i, pkg in enumerate(pkgs):
        if verdicts.get(i, 0) != 0:
            continue
        bump("tagcase_" + pkg["tagcase"])
        bump("with_getset" if pkg["getset"] else "json_only")
        bump("structs_embedding_a_setter_only_type", setter_only_embedded(pkg))
        for sd in pkg["structs"]:
            o = obs.get((pkg["name"], sd["name"]))
            if o is None or o["status"] != 0:
                continue
            nstructs += 1
            if not o["has_json"]:
                bump("no_json_code_default_encoding_judged")
            else:
                njson += 1
            nmarsh += 1
            bump("keys", len(o["keys"]))
            zs = dict((tuple(p), t) for p, t in o["zeros"])
            lv = dict((tuple(p), t) for p, t in o["leaves"])
            bump("explicit_tags", sum(1 for fd in sd["fields"] if json_tag_of(fd)))
            bump("dash_tags", sum(1 for fd in sd["fields"] if json_tag_of(fd) == "-"))
            bump("omitempty_tags", sum(1 for fd in sd["fields"] if "omitempty" in json_tag_of(fd)))
            bump("set_prefixed_promoted_keys", sum(1 for kk, _ in o["keys"] if kk.lower().replace("_", "") in
                                                   ("settings", "setup", "setpoint", "setmode")
                                                   and not any(n in SET_NAMES for fd in sd["fields"] for n in fd["names"])))
            bump("exported_snake_fields", sum(1 for fd in sd["fields"] for n in fd["names"] if n[:1].isupper() and "_" in n))
            bump("promoted_keys", max(0, len(o["keys"]) - sum(len(fd["names"]) for fd in sd["fields"] if fd["names"])))
            bump("fields_changed_by_unmarshal", sum(1 for (p, a), (_, b) in zip(o["after"], o["before"]) if a != b))
            bump("fields_kept_by_unmarshal", sum(1 for (p, a), (_, b) in zip(o["after"], o["before"]) if a == b))
            if sd["tparams"]:
                bump("generic")
            nontrivial.add(json.dumps([ctorgen.render_struct(sd), pkg["tagcase"], pkg["getset"],
                                       [ctorgen.render_struct(s) for s in pkg["structs"]]
                                       if any(not fd["names"] for fd in sd["fields"]) else []]))
    samples = []
    for i in (0, len(pkgs) // 2, len(pkgs) - 1):
        pkg = pkgs[i]
        samples.append({"package": pkg["name"], "cmd": "shoot " + " ".join(pkg["args"]),
                        "source": "".join(ctoracc.render_go(pkg, "c11mod").values())[:1500],
                        "observed": [obs[(pkg["name"], t)] for t in pkg["order"][:2] if (pkg["name"], t) in obs],
                        "verdict": verdicts.get(i, 0)})
    vd, why3, why3_samples = {}, {}, []
    v_eq_w = leaves_total = 0
    for i, pkg in enumerate(pkgs):
        v = verdicts.get(i, 0)
        vd[v] = vd.get(v, 0) + 1
        if v == 3:
            unobs = any(obs[(pkg["name"], t)]["status"] != 0 for t in pkg["order"] if (pkg["name"], t) in obs)
            reason = ("key_collision_class" if "collision" in pkg["classes"] else
                      "python_precheck_outside_guard" if "out" in pkg["classes"] else
                      "struct_not_observed" if unobs else "coq_guard_only")
            why3[reason] = why3.get(reason, 0) + 1
            if reason in ("struct_not_observed", "coq_guard_only") and len(why3_samples) < 6:
                why3_samples.append({"package": pkg["name"], "reason": reason, "cmd": "shoot " + " ".join(pkg["args"]),
                                     "source": "".join(ctoracc.render_go(pkg, "c11mod").values())[:1200],
                                     "type_errors": (pkg.get("type_errors") or [])[:3]})
        for t in pkg["order"]:
            o = obs.get((pkg["name"], t))
            if o and o["status"] == 0:
                bd = dict((tuple(p), x) for p, x in o["before"])
                for p, x in o["leaves"]:
                    leaves_total += 1
                    v_eq_w += 1 if bd.get(tuple(p)) == x else 0
    cov = {
        "evaluations": sum(3 for o in obs.values() if o["status"] == 0) + sum(1 for o in obs.values() if o["status"] != 0),
        "distinct_nontrivial": len(nontrivial),
        "rule": ("%d generated packages of 1..5 struct declarations of the C03 grammar (get/set field directives, type-level "
                 "getter/setter directives, value/pointer embedding of earlier shoot structs to depth 3, generics, name forms "
                 "lower/camel/snake/acronym/ALLCAPS/exported) with explicit json tags on ~20%% of the single-name fields; the "
                 "first two packages are a fixed corpus (two-letter humps under camel; an outer type needing JSON code only "
                 "for promoted fields), the next 3 (thorough 10) embed a write-only shoot type; the LAST 9 packages are the "
                 "fifth-bank fixed corpus (appended after the generated stream, no random draw): snake names with "
                 "acronym/ALLCAPS/camel/digit words, trailing and double underscore x the four tag cases, own and promoted "
                 "(+ one leading-underscore package outside the guard), and k = 2..3 embedded structs (by value / by pointer, "
                 "depth 1 / 2) all carrying an exported field ID with an own field ID before / between / after them (own "
                 "exported fields hiding promoted ones are inside the correspondence guard, outside the theorems' guard); "
                 "`shoot new [-getset on 85%%] -json -tagcase=<uniform over pascal|camel|lower|upper> -type=<all or all but "
                 "one, declaration order>`.  Per selected struct: MarshalJSON/UnmarshalJSON declared?, the shadow struct's "
                 "fields (name, type, tag), json.Marshal(NewT(sentinels)) members in order with raw JSON values (the same value "
                 "marshalled BY VALUE, as a struct field held by value and as a map value must give the same bytes), an "
                 "accessor field named set... on an embedded struct in ~1 of 2 packages with embedding, raw JSON of "
                 "every leaf and of every leaf type's zero value, every leaf of a second NewT value before and after "
                 "json.Unmarshal.  evaluations = static case + marshal + unmarshal per struct.  non-trivial = distinct "
                 "(struct[, package when it embeds], tagcase, getset) with JSON code in agreeing packages inside the guard"
                 % len(pkgs)),
        "samples": samples,
        "traces_validated_against_impl": 2 * nmarsh,
        "programs": len(pkgs),
        "structs_observed_in_agreeing_packages": nstructs,
        "structs_with_json_code": njson, "structs_marshalled_and_unmarshalled": nmarsh,
        "package_verdicts": {str(k): v for k, v in sorted(vd.items())},
        "verdict_3_reasons": why3, "verdict_3_samples_not_explained_by_precheck": why3_samples,
        "verdict_2_packages_incl_alignment_failures": sum(1 for v in verdicts.values() if v == 2),
        "leaves_compared": leaves_total, "leaves_with_v_eq_w": v_eq_w,
        "feature_counts": feat,
        "generator": gstats,
        "fifth_bank_corpus_verdicts": {p["name"]: verdicts.get(i, 0) for i, p in enumerate(pkgs)
                                       if p["name"][0] in "sd" and not p["name"].startswith("j")},
        "l1_transfer_calls": ncalls, "l1_directive_calls": dcalls, "l1_skipped": probe is None,
        "findings_measured": outcome,
        "exhaustive": False,
        "trusted_base": lib.TRUSTED_BASE_COMMON + c02.TRUSTED[:3] + c03.TRUSTED + TRUSTED,
    }
    return run.finish(cov, assumptions=ASSUMPTIONS)


TRUSTED = [
    "encoding/json is not modelled: a JSON object is an association list (member name, value); json.Marshal of the shadow "
    "struct lists its fields in order under the tag's name (up to the first comma; the Go field name when empty; `-` drops "
    "the field), json.Unmarshal into a zero shadow struct gives each field the member of its name (else zero).  The "
    "round-trip theorem takes these as Section hypotheses (decode (encode kv) = kv for distinct case-folded plain keys); "
    "the option omitempty is modelled (a zero member is left out; generated on non-struct field types only), other options "
    "are outside the guard",
    "values are compared through their raw JSON text (json.Marshal of each leaf): leaf types whose JSON encoding is not "
    "injective could hide a difference",
    "the JSON part of constructor.tmpl is given as (shadow struct fields, MarshalJSON = getters + exported fields into the "
    "shadow struct, UnmarshalJSON = setters then exported fields out of it)",
]

ASSUMPTIONS = c03.ASSUMPTIONS + [
    "c11_guard additionally: no json tag on a "
    "field of an embedded struct (K_json_promoted_tag_lost), explicit tags are plain member names (no options, not `-`), "
    "member names distinct under case folding, embedded shoot structs are generated before the struct (complete view), and "
    "the struct needs JSON code itself (K_json_promoted_marshaler: otherwise an embedded type's MarshalJSON is promoted)",
    "Unmarshal is observed on values whose embedded pointers are allocated (NewT); the zero value panics (K_json_nil_embed)",
    "the correspondence guard (guard_js) admits one class the theorems' c11_guard excludes: an EXPORTED own field declared "
    "after an embedded struct that carries a field of its name (own_names_fresh concerns accessor fields only); these "
    "structs are judged by Pb and compared with the model, C11_key_names / C11_round_trip do not cover them",
]


def replay(run, path):
    r = json.load(open(path))
    run.prove("Properties/C11.v", ["Corr/CtorJsonCorr.v"])
    if "spec" not in r:
        print("nothing to replay (no concrete input in %s)" % path)
        return 0
    shoot = run.build_shoot()
    accbin = run.build_helper("ctoracc")
    pkg = ctoracc.spec_from_json(r["spec"])
    pkg["groups"] = r["spec"].get("groups") or []
    pkg["order"] = r["order"]
    pkg["rounds"] = 1
    pkg["getset"] = r["getset"]
    pkg["tagcase"] = r["tagcase"]
    obs, mod = observe(run, shoot, accbin, "c11mod", [pkg])
    pkgdefs, rendered = render_cases([pkg], obs)
    mism = ctorlib.coq_shards(run, "c11replay", pkgdefs, rendered, CORR, "jmismatches", "jcase")
    print("verdicts:", mism)
    if [v for _, v in mism if v in (1, 2, 4)]:
        print("VIOLATION property=C11 replay=%s" % path)
        return 1
    return 0
