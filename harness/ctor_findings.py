"""Replay handlers for the known findings of the constructor generator
(known_findings/K_ctor_*.json, K_hasnew_leak, K_opt_*).  Every handler renders the
committed witness into the scratch module, runs the freshly built shoot on it and
classifies the behaviour: 'buggy' | 'correct' | 'other: ...'."""
import re

import l2


def _run(run, shoot, entry, timeout=20):
    mod = l2.make_module(run, "witmod")
    d = mod / entry["id"].lower()
    w = entry["witness"]
    m = re.match(r"package (\w+)", w["pkg"])
    l2.write_files(d, {m.group(1) + ".go": w["pkg"]})
    args = w["cmd"].split()[1:]
    r = l2.run_shoot(shoot, d, args, timeout=timeout)
    gen = {p.name: p.read_text() for p in d.glob("*.shootnew*.go")}
    return r, gen, d


def _sig(gen, fn):
    for t in gen.values():
        m = re.search(r"^func %s(\[[^\]]*\])?\(([^)]*)\)" % re.escape(fn), t, re.M)
        if m:
            return (m.group(1) or ""), " ".join(m.group(2).split())
    return None


def h_hasnew_leak(run, shoot):
    def h(e):
        r, gen, _ = _run(run, shoot, e)
        if r["rc"] != 0:
            return "other: shoot exit %s: %s" % (r["rc"], r["err"][-300:])
        s = _sig(gen, "NewB")
        if s is None:
            return "other: NewB not generated"
        if s[1] == "":
            return "buggy"
        if s[1] == "u int, v string":
            return "correct"
        return "other: NewB(%s)" % s[1]
    return h


def h_generic_constraint(run, shoot):
    def h(e):
        r, gen, _ = _run(run, shoot, e)
        if r["rc"] != 0:
            return "buggy" if "format" in (r["err"] + r["out"]) else "other: shoot exit %s: %s" % (r["rc"], r["err"][-300:])
        s = _sig(gen, "NewG")
        if s is None:
            return "other: NewG not generated"
        if s[0] == "":
            return "buggy"
        if s[0].replace(" ", "") == "[Tfmt.Stringer]":
            return "correct"
        return "other: NewG%s(%s)" % s
    return h


def h_keyword_param(run, shoot):
    def h(e):
        r, gen, _ = _run(run, shoot, e)
        if r["panicked"] or r["timed_out"]:
            return "other: panic/timeout"
        if r["rc"] != 0:
            return "buggy"
        s = _sig(gen, "NewK")
        if s is None:
            return "other: NewK not generated"
        if re.search(r"\btype string", s[1]):
            return "buggy"
        return "correct"
    return h


def h_promoted_underscore(run, shoot):
    def h(e):
        r, gen, _ = _run(run, shoot, e)
        if r["rc"] != 0:
            return "other: shoot exit %s: %s" % (r["rc"], r["err"][-300:])
        s = _sig(gen, "NewT")
        if s is None:
            return "other: NewT not generated"
        if s[1] == "pad int, z string, hid int, y int":
            return "buggy"
        if s[1] == "z string, y int":
            return "correct"
        return "other: NewT(%s)" % s[1]
    return h


def h_self_embed(run, shoot):
    def h(e):
        r, gen, _ = _run(run, shoot, e, timeout=4)
        if r["timed_out"]:
            return "buggy"
        if r["panicked"]:
            return "other: panic " + r["err"][-200:]
        return "correct"
    return h


def h_double_ptr(run, shoot):
    def h(e):
        r, gen, _ = _run(run, shoot, e)
        if r["rc"] != 0:
            return "other: shoot exit %s: %s" % (r["rc"], r["err"][-300:])
        s = _sig(gen, "NewA")
        if s is None:
            return "other: NewA not generated"
        if s[1] == "pp *int, n int":
            return "buggy"
        if s[1] == "pp **int, n int":
            return "correct"
        return "other: NewA(%s)" % s[1]
    return h


def h_embedded_nonstruct(run, shoot):
    def h(e):
        r, gen, _ = _run(run, shoot, e)
        if r["rc"] != 0:
            return "other: shoot exit %s: %s" % (r["rc"], r["err"][-300:])
        s = _sig(gen, "NewT")
        if s is None:
            return "other: NewT not generated"
        if s[1] == "myInt string, k int":
            return "buggy"
        if s[1] in ("k int", "myInt MyInt, k int"):
            return "correct"
        return "other: NewT(%s)" % s[1]
    return h


def h_excluded_def(run, shoot):
    def h(e):
        r, gen, _ = _run(run, shoot, e)
        if r["rc"] != 0:
            return "other: shoot exit %s: %s" % (r["rc"], r["err"][-300:])
        txt = "".join(gen.values())
        s = _sig(gen, "NewConf")
        if s is None or s[1] != "name string":
            return "other: NewConf(%s)" % (s[1] if s else None)
        if re.search(r"port:\s+80,", txt):
            return "correct"
        return "buggy"
    return h


def h_excluded_shadow(run, shoot):
    def h(e):
        r, gen, _ = _run(run, shoot, e)
        if r["rc"] != 0:
            return "other: shoot exit %s: %s" % (r["rc"], r["err"][-300:])
        s = _sig(gen, "NewT")
        if s is None:
            return "other: NewT not generated"
        if s[1] == "z string, b int":
            return "buggy"
        if s[1] == "b int":
            return "correct"
        return "other: NewT(%s)" % s[1]
    return h


def h_opt_generic(run, shoot):
    def h(e):
        r, gen, _ = _run(run, shoot, e)
        if r["panicked"] or r["timed_out"]:
            return "other: panic/timeout"
        if r["rc"] != 0:
            return "buggy"
        txt = "".join(gen.values())
        if re.search(r"func VOfR\[T\]\(", txt):
            return "buggy"
        if re.search(r"func VOfR\[T any\]\(", txt):
            return "correct"
        return "other: unexpected option function for R[T]"
    return h


def _sig_handler(run, shoot, fn, buggy, correct):
    def h(e):
        r, gen, _ = _run(run, shoot, e)
        if r["panicked"] or r["timed_out"]:
            return "other: panic/timeout"
        if r["rc"] != 0:
            return "other: shoot exit %s: %s" % (r["rc"], r["err"][-300:])
        s = _sig(gen, fn)
        if s is None:
            return "other: %s not generated" % fn
        if s[1] in buggy:
            return "buggy"
        if s[1] in correct:
            return "correct"
        return "other: %s(%s)" % (fn, s[1])
    return h


def h_foreign_unexported(run, shoot):
    def h(e):
        r, gen, _ = _run(run, shoot, e)
        if r["panicked"] or r["timed_out"]:
            return "other: panic/timeout"
        if r["rc"] != 0:
            return "other: shoot exit %s: %s" % (r["rc"], r["err"][-300:])
        s = _sig(gen, "NewT")
        if s is None:
            return "other: NewT not generated"
        if "readOp" in s[1] or "buf []byte" in s[1]:
            return "buggy"
        if s[1] == "n int":
            return "correct"
        return "other: NewT(%s)" % s[1]
    return h


def h_method_collision(run, shoot):
    def h(e):
        r, gen, _ = _run(run, shoot, e)
        if r["panicked"] or r["timed_out"]:
            return "other: panic/timeout"
        if r["rc"] != 0:
            return "correct"          # refused with a diagnostic
        txt = "".join(gen.values())
        n = len(re.findall(r"^func \(w \*W\) With\(", txt, re.M))
        if n >= 2:
            return "buggy"
        if n == 1:
            return "correct"
        return "other: %d With methods" % n
    return h


def h_promoted_def(run, shoot):
    def h(e):
        r, gen, _ = _run(run, shoot, e)
        if r["rc"] != 0:
            return "other: shoot exit %s: %s" % (r["rc"], r["err"][-300:])
        s = _sig(gen, "NewW")
        if s is None or s[1] != "k int":
            return "other: NewW(%s)" % (s[1] if s else None)
        txt = "".join(gen.values())
        return "correct" if re.search(r"\bq:\s+5,", txt) else "buggy"
    return h


def h_opt_excluded(run, shoot):
    def h(e):
        r, gen, _ = _run(run, shoot, e)
        if r["rc"] != 0:
            return "other: shoot exit %s: %s" % (r["rc"], r["err"][-300:])
        txt = "".join(gen.values())
        if "func NameOfConf(" not in txt:
            return "other: NameOfConf missing"
        return "correct" if "func SecretOfConf(" in txt else "buggy"
    return h


def handlers(run, shoot, prop, extra=None):
    hs = {
        "K_hasnew_leak": h_hasnew_leak(run, shoot),
        "K_ctor_generic_constraint": h_generic_constraint(run, shoot),
        "K_ctor_keyword_param": h_keyword_param(run, shoot),
        "K_ctor_promoted_underscore": h_promoted_underscore(run, shoot),
        "K_ctor_self_embed": h_self_embed(run, shoot),
        "K_ctor_double_ptr": h_double_ptr(run, shoot),
        "K_ctor_embedded_nonstruct": h_embedded_nonstruct(run, shoot),
        "K_ctor_excluded_def": h_excluded_def(run, shoot),
        "K_ctor_excluded_shadow": h_excluded_shadow(run, shoot),
        "K_opt_generic": h_opt_generic(run, shoot),
        "K_ctor_foreign_unexported": h_foreign_unexported(run, shoot),
        "K_ctor_ambiguous_promoted": _sig_handler(run, shoot, "NewTop", ["x int, m string, x int, n string, w int"],
                                                  ["m string, n string, w int"]),
        "K_ctor_camel_collision": _sig_handler(run, shoot, "NewUser", ["userName string, userName string"],
                                               ["userName string, userName_ string", "userName string, userName2 string"]),
        "K_ctor_method_name_collision": h_method_collision(run, shoot),
        "K_ctor_embed_tag_ignored": _sig_handler(run, shoot, "NewU", ["z string, q int, y int"], ["y int"]),
        "K_ctor_promoted_def_ignored": h_promoted_def(run, shoot),
        "K_opt_excluded_field": h_opt_excluded(run, shoot),
    }
    if extra:
        hs.update(extra)
    return hs
