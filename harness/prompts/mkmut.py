#!/usr/bin/env python3
"""mkmut.py Cxx [n]  -> writes /root/prompts/mut/Cxx.txt and creates worktree /tmp/mut-Cxx"""
import json, sys, subprocess, os
pid = sys.argv[1]; n = int(sys.argv[2]) if len(sys.argv) > 2 else 3
bank = sys.argv[3] if len(sys.argv) > 3 else ""
p = [json.loads(l) for l in open('/verif/properties.jsonl') if json.loads(l)['id'] == pid][0]
wt = '/tmp/mut-%s%s' % (pid, bank)
out = '/tmp/mut-%s%s-out' % (pid, bank)
if not os.path.exists(wt):
    subprocess.run(['git', '-C', '/repo', 'worktree', 'add', '--detach', wt, 'HEAD'], check=True, capture_output=True)
os.makedirs(out, exist_ok=True)
anch = p['anchors']
known = ""
if bank:
    import glob
    ks = []
    for m in sorted(glob.glob('/verif/seeded/%s-*/meta.json' % pid)):
        try:
            ks.append("- " + " ".join(str(json.load(open(m)).get("summary", "")).split())[:400])
        except Exception:
            pass
    if ks:
        known = ("\nAn earlier round already produced the following changes; yours must differ from them in mechanism AND code site "
                 "(look for other functions, other flags, other input shapes, other phases of the run):\n" + "\n".join(ks) + "\n")
dirs = ", ".join("%s%d" % (bank, i) for i in range(1, n + 1)) if bank else "1..%d" % n
txt = f"""You have your own scratch git worktree of the Go project lopolopen/shoot (a `go generate` toolkit: `shoot new|enum|rest|map` generate constructors/accessors, enum helpers, REST clients and struct mappers from templates) at {wt} (work ONLY there and in {out}; never touch /repo or /verif; do not read anything under /verif). Go environment for every shell call: `export GOFLAGS=-mod=mod GOPROXY=off` (do NOT set GOTOOLCHAIN or GOSUMDB; there is no network). The test suite is `cd {wt} && go test -vet=off -count=1 ./...` (53 tests, goldens under cmd/testdata). Build the tool with `cd {wt} && go build -o {out}/shoot ./cmd/shoot`. ALWAYS run the shoot binary under `timeout 20` (some inputs make it loop). A scratch Go module that imports shoot needs a go.mod with `go 1.24.0`, `toolchain go1.24.6`, `require github.com/lopolopen/shoot v0.0.0`, `replace github.com/lopolopen/shoot => {wt}` and a copy of {wt}/go.sum. Files named export_verif.go and cmd/verifprobe are test hooks behind the build tag `verif`: leave them alone.

Here is a semantic property the project is supposed to satisfy:

  TITLE: {p['title']}
  STATEMENT: {p['statement']}
  QUANTIFIED OVER: {p['quantifier']['text']}
  CODE ANCHORS: {json.dumps(anch)}

Task: produce {n} different, independent code changes (mutations) to the project, each of which BREAKS this property while the project still compiles (`go build ./...`) and the existing test suite still passes unchanged. Prefer changes that need something specific to manifest (a particular multi-step sequence of operations, an unusual but legal input inside the quantified domain, a particular interleaving or crash point, a specific flag combination, two cooperating edits that each look fine alone) rather than ones that ordinary use would expose at once; make them look like plausible refactorings or "improvements". {known}
They must be genuine violations of the property AS STATED for inputs inside the quantified domain (not merely different generated text), and they must differ from each other in mechanism and in the code site they touch. Do not edit tests, goldens, go.mod or the hook files.

For each mutation write into its own directory {out}/<d>/ with <d> in {dirs}: `patch.diff` (output of `git diff` in the worktree, applicable with `git apply` to the original HEAD), a demonstration (either `demo_test.go` plus a note where to drop it, or a self-contained directory `demo/` with a `run.sh` that takes the path of a shoot checkout as $1, builds what it needs from that checkout, and exits 0 when the property holds and non-zero when it is violated) that FAILS with the change applied and PASSES on the clean tree, and `meta.json` {{"property":"{pid}","summary":...,"needs_to_manifest":...,"files_changed":[...],"how_to_run_demo":...}}. Verify each yourself: with the patch applied `go build ./... && go test -vet=off -count=1 ./...` passes (without the demo file), the demo fails with the patch and passes on the clean tree. Between mutations restore the worktree with `git -C {wt} checkout -- . && git -C {wt} clean -fd`. Leave the worktree clean at the end. Final message: a short list of the mutations and what each needs to manifest.
"""
open('/root/prompts/mut/%s%s.txt' % (pid, bank), 'w').write(txt)
print(wt, out, len(txt))
