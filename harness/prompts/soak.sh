#!/bin/bash
# soak.sh "<props>" "<seeds>"  -> /tmp/soak.log
cd /verif
for s in $2; do for p in $1; do
  out=$(VERIF_SEED=$s timeout 2400 nice -n 5 bin/check $p quick 2>/tmp/soak.$p.$s.err); rc=$?
  v=$(echo "$out" | grep -c '^VIOLATION')
  echo "$(date +%H:%M) $p seed=$s rc=$rc violations=$v $(tail -1 /tmp/soak.$p.$s.err | cut -c1-80)" >> /tmp/soak.log
  if [ $rc -eq 0 ]; then rm -f /tmp/soak.$p.$s.err; else echo "$out" | grep '^VIOLATION' | head -2 >> /tmp/soak.log; mkdir -p /tmp/soakreplays; for f in $(echo "$out" | grep -o 'replay=[^ ]*' | cut -d= -f2); do cp $f /tmp/soakreplays/$p-$s-$(basename $f) 2>/dev/null; done; fi
done; done
echo SOAKDONE >> /tmp/soak.log
