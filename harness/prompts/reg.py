#!/usr/bin/env python3
"""reg.py Cxx  -- parse out/ready/Cxx.md 'Proposed MANIFEST fields' and print a registry entry"""
import re, sys, json
pid = sys.argv[1]
md = open('/verif/out/ready/%s.md' % pid).read()
heads = [m.start() for m in re.finditer(r'(?im)^#+ .*manifest.*$', md)]
cur = [m.start() for m in re.finditer(r'(?im)^#+ .*manifest proposal \(current\).*$', md)]
i = (cur or heads or [md.lower().rfind('manifest')])[-1]
sec = md[i:]
nxt = re.search(r'(?m)^## ', sec[3:])
if nxt:
    sec = sec[:nxt.start() + 3]
def grab(key):
    m = re.search(r'%s\W*?[:=]\s*(.*?)(?=\n\s*[-*`]*\s*(?:level_claimed\.text|level_note|technique|coq_targets)\b|\n#|\Z)' % re.escape(key), sec, re.S | re.I)
    if not m: return None
    v = ' '.join(m.group(1).split())
    v = v.strip('`* ')
    if v.startswith('"') and v.endswith('"'): v = v[1:-1]
    return v
text = grab('level_claimed.text'); note = grab('level_note'); tech = grab('technique'); targets = grab('coq_targets')
print(json.dumps({"text": text, "note": note, "technique": tech, "coq_targets": targets}, indent=1))
