#!/usr/bin/env python3
"""reg.py Cxx  -- parse out/ready/Cxx.md 'Proposed MANIFEST fields' and print a registry entry"""
import re, sys, json
pid = sys.argv[1]
md = open('/verif/out/ready/%s.md' % pid).read()
i = md.lower().rfind('manifest')
sec = md[i:]
def grab(key):
    m = re.search(r'%s\W*?[:=]\s*(.*?)(?=\n\s*[-*`]*\s*(?:level_claimed\.text|level_note|technique|coq_targets)\b|\n#|\Z)' % re.escape(key), sec, re.S | re.I)
    if not m: return None
    v = ' '.join(m.group(1).split())
    v = v.strip('`* ')
    if v.startswith('"') and v.endswith('"'): v = v[1:-1]
    return v
text = grab('level_claimed.text'); note = grab('level_note'); tech = grab('technique'); targets = grab('coq_targets')
print(json.dumps({"text": text, "note": note, "technique": tech, "coq_targets": targets}, indent=1))
