#!/usr/bin/env python3
"""addreg.py Cxx [design_ref]  -- add a registry entry from out/ready/Cxx.md (+ prove() targets from harness/cxx.py)"""
import re, sys, json, subprocess
pid = sys.argv[1]
d = json.loads(subprocess.run(['python3', __import__('os').path.join(__import__('os').path.dirname(__import__('os').path.abspath(__file__)), 'reg.py'), pid], capture_output=True, text=True).stdout)
src = open('/verif/harness/%s.py' % pid.lower()).read()
targets = [a for a in sys.argv[2:] if a.endswith('.vo')] or None
if not targets and d.get('coq_targets'):
    try: targets = json.loads(d['coq_targets'])
    except Exception: targets = re.findall(r'[\w/]+\.vo', d['coq_targets'])
if not targets:
    m = re.search(r'run\.prove\(\s*"([^"]+)"\s*,\s*\[([^\]]*)\]', src)
    if not m:
        # look in helper modules
        import glob
        for f in glob.glob('/verif/harness/*.py'):
            m = re.search(r'\.prove\(\s*"(Properties/%s\.v)"\s*,\s*\[([^\]]*)\]' % pid, open(f).read())
            if m: break
    targets = ([m.group(1)[:-2] + '.vo'] + [t[:-2] + '.vo' for t in re.findall(r'"([^"]+\.v)"', m.group(2))]) if m else None
note = d['note'] or ''
note = re.sub(r'^COMMON_NOTE\s*\+\s*', '', note).strip().strip('"')
entry = {"text": d['text'], "design_ref": "DESIGN.md section 8, %s; section 13" % pid, "note": note, "technique": d['technique'], "coq_targets": targets}
p = '/verif/harness/registry.py'
s = open(p).read()
if '"%s": {' % pid in s:
    if '--update' not in sys.argv:
        print('already registered'); sys.exit(0)
    i = s.index('    "%s": {' % pid)
    j = s.index('    },\n', i) + 7
    old_block = s[i:j]
    m = re.search(r'"coq_targets": (\[.*?\])', old_block)
    if not targets and m:
        entry['coq_targets'] = json.loads(m.group(1))
    # a field the ready file leaves "unchanged" (or empty) keeps its registered value
    for key in ('text', 'note', 'technique'):
        mo = re.search(r'"%s": (?:COMMON_NOTE \+ )?("(?:[^"\\]|\\.)*")' % key, old_block)
        new = (entry[key] or '').strip()
        if mo and (not new or new.lower().startswith('unchanged')):
            entry[key] = json.loads(mo.group(1))
    s = s[:i] + s[j:]
def mkblock():
    return '    "%s": {\n        "text": %s,\n        "design_ref": %s,\n        "note": COMMON_NOTE + %s,\n        "technique": %s,\n        "coq_targets": %s,\n    },\n' % (
    pid, json.dumps(entry['text'], ensure_ascii=False), json.dumps(entry['design_ref']), json.dumps(entry['note'], ensure_ascii=False), json.dumps(entry['technique'], ensure_ascii=False), json.dumps(entry['coq_targets']))
block = mkblock()
i = s.rindex('}\n\nNOT_CLAIMED')
s = s[:i] + block + s[i:]
open(p, 'w').write(s)
print('registered', pid, targets)
