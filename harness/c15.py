"""C15  map through accessors/constructors equals plain field mapping.

Theorems: coq/Properties/C15.v.  Correspondence: the pairs of C05 with the
source root type, the destination root type, or both rendered as flat
`shoot new -getset` types (unexported fields, get-only/set-only/both accessors,
`new`-restricted constructors); the real `shoot new -getset` output is
generated first, its constructor and accessor tables are read back and given to
the model; then `shoot map`, go build and the oracle as in C05.  Results are
observed field by field (reflection reads the unexported fields; the getters
are what the generated FromX itself uses)."""
import collections
import json
import re

import lib
import l2
import mapgen
import mapharness as mh
import c05

PROP_FILE = "Properties/C15.v"
CORR = ["Corr/MapperCorr.v"]


def parse_shootnew(text, decl, spec, side, known):
    """constructor parameters and accessor tables of a generated *.shootnew.<t>.go; [known]: tables of the
    shoot-new types parsed before (embedded bases)"""
    tn = decl["name"]
    by_name = {f["name"]: f for f in decl["fields"] if not f["emb"]}
    embedded = {}
    for f in decl["fields"]:
        if f["emb"]:
            t = f["ty"][1] if f["ty"][0] == "ptr" else f["ty"]
            embedded[t[2]] = (f["ty"][0] == "ptr", mapgen.struct_decl(spec, t[1], t[2]))
    ctor = []
    m = re.search(r"func New%s\((.*?)\) \*%s \{\n\treturn &%s\{\n(.*?)\n\t\}\n\}" % (tn, tn, tn), text, re.S)
    if m:
        params = [p.strip().split(" ")[0] for p in m.group(1).split(",") if p.strip()]
        where = {}
        stack = []          # (embedded field name, by pointer)
        for line in m.group(2).split("\n"):
            t = line.strip()
            mo = re.match(r"^(\w+):\s*(&?)[\w.]+\{$", t)
            if mo:
                stack.append((mo.group(1), mo.group(2) == "&"))
                continue
            if t in ("},", "}"):
                if stack:
                    stack.pop()
                continue
            mo = re.match(r"^(\w+):\s*(\w+),$", t)
            if mo:
                where[mo.group(2)] = (mo.group(1), [x[0] for x in stack], any(x[1] for x in stack))
        for p in params:
            if p not in where:
                raise lib.CheckBroken("cannot recover the field of constructor parameter %s of %s" % (p, tn))
            fld, pre, under_ptr = where[p]
            d = decl
            for comp in pre:
                d = embedded[comp][1]
            fdecl = [f for f in d["fields"] if f["name"] == fld][0]
            # extractParamToFieldMap does not look below `&T{...}`: such a parameter is not recognised by the mapper
            ctor.append({"field": "" if under_ptr else fld, "path": pre + [fld], "ty": fdecl["ty"]})
    accs = []
    pas = {mapgen.to_pascal(n): f for n, f in by_name.items()}

    def iface(kind, is_set):
        g = re.search(r"type %s%s interface \{\n(.*?)\n\}" % (tn, kind), text, re.S)
        res = []
        if not g:
            return res
        for line in g.group(1).split("\n"):
            t = line.strip()
            mo = re.match(r"^(\w+)\(", t)
            if mo:
                name = mo.group(1)
                f = pas[name[3:]] if is_set else pas[name]
                res.append({"name": name, "ty": f["ty"], "set": is_set, "path": [f["name"]]})
            elif t.endswith(kind) and t[:-len(kind)] in embedded and t[:-len(kind)] in known:
                b = t[:-len(kind)]
                for a in known[b][1]:
                    if a["set"] == is_set:
                        res.append(dict(a, path=[b] + a["path"]))
        return sorted(res, key=lambda a: a["name"])
    accs = iface("Getter", False) + iface("Setter", True)
    return ctor, accs


def pre_shootnew(shoot, mod, pair):
    """run the real `shoot new -getset` on the shoot-new side(s) and read its output back"""
    spec = pair.spec
    for side, sub in (("src", "src"), ("dst", "dest")):
        names = [d["name"] for d in spec["decls"][side] if d.get("shootnew")]
        if not names:
            continue
        cwd = mod / pair.sub / sub
        known = {}
        r = mh.shoot_retry(shoot, cwd, ["new", "-getset", "-type=" + ",".join(names)])
        if r["rc"] != 0 or r["panicked"] or r["timed_out"]:
            pair.status = "shoot-failed"
            pair.shoot = {"rc": r["rc"], "err": "shoot new -getset: " + r["err"][-800:], "panicked": r["panicked"],
                          "timed_out": r["timed_out"]}
            return
        for n in names:
            d = mapgen.struct_decl(spec, side, n)
            files = list(cwd.glob("*.shootnew.%s.go" % n.lower()))
            if not files:
                pair.status = "shoot-failed"
                pair.shoot = {"rc": 0, "err": "shoot new wrote no file for " + n, "panicked": False, "timed_out": False}
                return
            text = files[0].read_text()
            pair.generated["new:" + files[0].name] = text
            ctor, accs = parse_shootnew(text, d, spec, side, known)
            known[n] = (ctor, accs)
            # instrumentation of the generated setters (not of shoot's output for `map`): record every call, so
            # that "set exactly once" is observable
            is_root = n == spec["root"] or n == [j for j in spec["jobs"] if j["src"] == spec["root"]][0]["dst"]
            inst, cnt = re.subn(r"(func \(\w+ \*%s\) (Set\w+)\([^)]*\) \{\n)" % n,
                                lambda m: m.group(1) + '\tVerifCalls = append(VerifCalls, "%s")\n' % m.group(2), text)
            if is_root:
                inst += "\n// VerifCalls records setter calls (added by the verification harness)\nvar VerifCalls []string\n"
                pair.setcalls = dict(getattr(pair, "setcalls", {}), **{side: True})
            files[0].write_text(inst)
            for j in spec["jobs"]:
                if side == "src" and j["src"] == n:
                    j["src_ctor"], j["src_acc"], j["src_shootnew"] = ctor, accs, True
                if side == "dst" and j["dst"] == n:
                    j["dst_ctor"], j["dst_acc"] = ctor, accs


def gen_pair(run, i):
    rng = run.rng
    mode = ["dst", "src", "both"][i % 3]
    for _ in range(50):
        spec = mapgen.gen_pair(rng, force={"flags": {"way": rng.choice(["both"] * 5 + ["toonly", "fromonly"])},
                                           "no_underscore": True})   # accessor names of `_` fields: not in C15's grammar
        rj = [j for j in spec["jobs"] if j["src"] == spec["root"]][0]
        # inner struct pairs never have identical layouts (a pointer to such a pair as constructor parameter is the
        # open finding K_map_ctor_ptr_conv)
        for j in spec["jobs"]:
            if j is not rj:
                mapgen.struct_decl(spec, "dst", j["dst"])["fields"].append(
                    {"name": "Zpad", "emb": False, "ty": ["basic", "bool"], "tag": "", "vc": "full"})
        # on the side that stays plain most embedded pointers become embedded values (a constructor argument read
        # through an embedded pointer is the open finding K_map_ctor_arg_unguarded)
        for side in ("src", "dst"):
            for d in spec["decls"][side]:
                if d["kind"] == "struct":
                    for f in d["fields"]:
                        if f["emb"] and f["ty"][0] == "ptr" and rng.random() < 0.8:
                            f["ty"] = f["ty"][1]
        # set-only fields (setter without getter): healthy on a side that is only WRITTEN under the pair's -way
        # (read in a generated direction they are the open finding K_map_setonly_read)
        way = spec["flags"]["way"]
        if mode in ("src", "both"):
            mapgen.to_shootnew(rng, spec, "src", rj["src"], allow_setonly=(way == "fromonly"))
        if mode in ("dst", "both"):
            mapgen.to_shootnew(rng, spec, "dst", rj["dst"], allow_setonly=(way == "toonly"))
        # the other side keeps its embedded structs only if it stays plain
        return spec
    raise lib.CheckBroken("generator")


def main(run):
    proof_ok = run.prove(PROP_FILE, CORR)
    shoot = run.build_shoot()
    run.replay_findings(finding_handlers(run, shoot))
    npairs = 600 if run.thorough() else 84
    pairs = []
    for i in range(npairs):
        spec = gen_pair(run, i)
        p = mh.Pair(i, spec)
        pairs.append(p)
    # the accessor tables are known only after `shoot new` ran: cases are generated now (they only need the types)
    for p in pairs:
        p.cases = c05.gen_cases(run, p.spec, 4 if run.thorough() else 3, [0.0, 0.3, 0.6], rt=False)   # round trips: C05 only
    mh.execute(run, pairs, shoot=shoot, par=4, tag="c15", pre=pre_shootnew)
    masks = {}
    verdicts, guards = mh.coq_verdicts(run, pairs, tag="c15", shard_cases=120, par=4, fn="mismatches15", guard="pair_guard15",
                                       masks=masks)
    c05.report(run, pairs, verdicts, guards,
               "C15_set_at_most_once_paths / C15_not_covered_by_ctor_paths / C15_ctor_args_to / C15_ctor_args_from / "
               "C15_writes_through_setters (plan level); the VALUES are compared with Model/MapperSpec15.v (Pb15, no theorem)",
               "L2:C15:generated ToX/FromX over shoot-new types vs Model/Mapper.v+MapperEval.v")
    if not proof_ok and not run.violations:
        run.proof_failure_violation()
    ok_pairs = [p for p in pairs if p.status == "ok"]
    ncases = sum(len(p.cases) for p in ok_pairs)
    feats = collections.Counter()
    for p in pairs:
        for f in p.spec["features"]:
            if f.startswith(("shootnew", "acc", "ctor", "kind", "name")):
                feats[f] += 1
    distinct = set()
    for p in ok_pairs:
        for c in p.cases:
            if c["in"] is not None and c["obs"][0] == "val":
                distinct.add(mh.dumps([p.idx, c["dir"], c["type"], c["in"]]))
    sample = []
    for p in ok_pairs[:1]:
        sample.append({"shoot_args": mapgen.shoot_args(p.spec), "src.go": p.sources["%s/src/src.go" % p.sub],
                       "dest.go": p.sources["%s/dest/dest.go" % p.sub], "case": p.cases[0],
                       "jobs": [{k: j.get(k) for k in ("src", "dst", "src_ctor", "dst_ctor", "src_acc", "dst_acc")}
                                for j in p.spec["jobs"] if j["src"] == p.spec["root"]]})
    ctor_used = sum(1 for p in ok_pairs for g in p.generated.values() if ".New" in g or "= New" in g)
    cov = {
        "evaluations": ncases,
        "distinct_nontrivial": len(distinct),
        "rule": ("%d pairs of harness/mapgen.py (as C05) whose source root type, destination root type or both (rotating) are "
                 "rendered as `shoot new -getset` types (half of them embedding a shoot-new base, by value or pointer): 75%% of the plain "
                 "fields unexported with directive none/get, and set (set-only) on a side that is only written under the pair's "
                 "-way (read in a generated direction a set-only field is the open finding K_map_setonly_read), 40%% of the types with "
                 "a `new`-restricted constructor; the real shoot new output is generated and its constructor/accessor tables "
                 "are read back; 3 sentinel value sets per direction (nil probability 0/0.3/0.6), nil receiver/argument, "
                 "clean and dirty receivers; non-trivial = distinct (pair, direction, non-nil input) that returned a value"
                 % len(pairs)),
        "samples": sample,
        "traces_validated_against_impl": ncases,
        "programs": 2 * len(ok_pairs) + 1,
        "pairs": len(pairs), "pairs_compiled": len(ok_pairs),
        "pairs_in_guard": sum(1 for p in ok_pairs if guards.get(p.idx)),
        "guard15_failed_by_clause": {name: sum(1 for p in ok_pairs if masks.get(p.idx, 0) & (1 << k))
                                     for k, name in enumerate(["tag_guard15", "source_side", "destination_side", "manual_methods",
                                                               "ToX_clauses", "FromX_clauses", "plain_job_outside_C05_guard"])},
        "pairs_using_a_constructor": ctor_used,
        "features": dict(sorted(feats.items())),
        "observations": dict(collections.Counter(c["obs"][0] for p in ok_pairs for c in p.cases)),
    }
    return run.finish(cov, assumptions=c05.ASSUMPTIONS + [
        "the constructor and accessor tables of the shoot-new side are read back from the real `shoot new -getset` output "
        "(regular expressions on the generated text); the generated constructor/accessors are modelled as field "
        "initialisation / field read / field write",
        "constructor parameters of alias types (`type X = int`, *types.Alias since Go 1.23) make zeroValue return \"\" and "
        "shoot exit through logx.Fatal; aliases are outside the type palette and the model's make_ctor_match is total",
    ])


def finding_handlers(run, shoot):
    def generic(f):
        return mh.witness_outcome(run, shoot, f)
    h = {k: generic for k in ("K_map_setonly_read", "K_map_ctor_func_nil_receiver", "K_map_ctor_ptr_conv",
                              "K_map_ctor_arg_unguarded", "K_map_dash_accessor", "K_map_ctor_from_tag",
                              "K_map_ctor_priority", "K_map_ctor_no_submap", "K_map_ctor_func_last",
                              "K_map_promoted_accessor_nil", "K_map_mapper_ptr_embedded")}
    h["K_map_state_leak"] = lambda f: mh.state_leak_outcome(run, shoot, f)
    return h


def replay(run, path):
    r = json.load(open(path))
    run.prove(PROP_FILE, CORR)
    shoot = run.build_shoot()
    p = mh.Pair(0, r["spec"])
    if r.get("case"):
        c = dict(r["case"])
        c.pop("obs", None)
        p.cases = [c]
    else:
        p.cases = c05.gen_cases(run, r["spec"], 2, [0.0, 0.5], rt=False)
    mh.execute(run, [p], shoot=shoot, tag="replay", pre=pre_shootnew)
    if p.status != "ok":
        print("pair status:", p.status, p.shoot, p.errors)
        print("VIOLATION property=C15 replay=%s" % path)
        return 1
    v, g = mh.coq_verdicts(run, [p], tag="replay", fn="mismatches15", guard="pair_guard15")
    print("observed:", [c["obs"] for c in p.cases][:3], "verdicts:", v, "in guard:", g)
    if v:
        print("VIOLATION property=C15 replay=%s" % path)
        return 1
    return 0
