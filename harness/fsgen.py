"""Directory states, invocations and strace projection for C17 (confined, atomic writes).

A case = one shoot run on a small multi-file package living in <root>/p
(destination package of `shoot map` in <root>/dest), after
  * a history of earlier real runs in other modes (genuine old outputs),
  * planted files: hand-written look-alikes, foreign files, generated-looking
    stale files with every kind of first line, leftover temporaries of an
    earlier crash, hard links to old outputs (inside and outside the package).
The run is traced with strace; the trace is projected onto the operations of
coq/Model/Fs.v.  Only the Python standard library is used.
"""
import hashlib
import os
import re
import shutil
import signal
import subprocess
import time
from pathlib import Path

import lib

CMDS = ["new", "enum", "rest", "map"]
SRC_FILES = ["a.go", "b.go", "model.go", "types_x.go", "zz.go", "x.y.go", "Src.go", "k9.go"]
EXPORTED = ["Alpha", "Order", "HTTPServer", "UserID", "Item", "Gamma", "Node", "Config", "Tree", "Q2",
            "Point", "Zeta", "Kind", "Level", "Mode", "Client", "Store", "Repo", "Color", "Wide"]
UNEXPORTED = ["inner", "userRepo", "cfg", "node9"]

# every system call that can create, remove, rename or modify a file, plus open/close (to follow
# descriptors and to see Clean reading first lines)
STRACE_SET = ("open,openat,openat2,creat,write,pwrite64,pwritev,pwritev2,writev,close,rename,renameat,renameat2,"
              "unlink,unlinkat,mkdir,mkdirat,rmdir,link,linkat,symlink,symlinkat,chmod,fchmod,fchmodat,chown,fchown,"
              "lchown,fchownat,truncate,ftruncate,utimensat,utime,utimes,futimesat,mknod,mknodat,fallocate,"
              "copy_file_range,sendfile,setxattr,lsetxattr,fsetxattr,removexattr,lremovexattr,fremovexattr")


# ------------------------------------------------------------------ packages
class Pkg:
    def __init__(self, cmd):
        self.cmd = cmd
        self.files = {}          # source file name -> [type names] in declaration order
        self.genlines = {}       # source file name -> [command lines] (//go:generate comments)
        self.nothing = False     # only INELIGIBLE types: -file / -type=* runs generate nothing
        self.extra = {}          # map only: source file name -> [(source type, destination type)]: types that only
                                 # an explicit `-type=S -to=D` run maps (no destination type of the same name, or an
                                 # unexported source type): -file and -type=* do not cover them

    def all_types(self):
        return [t for f in sorted(self.files) for t in self.files[f]]

    def decl_file(self, t):
        for f, ts in self.files.items():
            if t in ts:
                return f
        for f, xs in self.extra.items():
            if t in [s for s, _ in xs]:
                return f
        return ""

    def extras(self):
        return [x for f in sorted(self.extra) for x in self.extra[f]]


def gen_pkg(rng, cmd):
    p = Pkg(cmd)
    nfiles = rng.choice([1, 2, 2, 3])
    names = rng.sample(SRC_FILES, nfiles)
    pool = list(EXPORTED)
    rng.shuffle(pool)
    upool = list(UNEXPORTED)
    rng.shuffle(upool)
    for f in names:
        ts = []
        for _ in range(rng.choice([1, 1, 2])):
            if cmd in ("new", "enum") and upool and rng.random() < 0.2:
                ts.append(upool.pop())
            else:
                ts.append(pool.pop())
        p.files[f] = ts
        p.genlines[f] = []
    if cmd == "map":
        xs = []
        if rng.random() < 0.6:
            d = pool.pop()
            xs.append((d + "PO", d))
        if rng.random() < 0.4:
            d = pool.pop()
            xs.append((d[0].lower() + d[1:] + "Row", d + "Row"))
        for x in xs:
            p.extra.setdefault(rng.choice(names), []).append(x)
    return p


def _type_text_ineligible(cmd, t, k):
    """a declaration of the package that the subcommand's -file / -type=* selection skips"""
    if cmd == "new":
        return "type _%s struct {\n\tx int\n}\n" % t           # `_` prefix: not a constructor target
    if cmd == "enum":
        return "type %s %s\n" % (t, ["int", "uint8", "int64"][k % 3])     # an integer type without constants
    if cmd == "rest":
        return "type %s interface {\n\tFoo%d() int\n}\n" % (t, k)      # no embedded shoot.RestClient
    return "type %s struct {\n\tID int\n}\n" % t                   # map: no destination type of that name


def _type_text(cmd, t, k):
    cap = t[0].upper() + t[1:]
    if cmd == "new":
        body = ["\tid   int\n\tname string\n", "\tx int\n", "\ta, b int\n\tnote string\n"][k % 3]
        return "type %s struct {\n%s}\n" % (t, body)
    if cmd == "enum":
        under = ["int", "uint8", "int64", "uint"][k % 4]
        return "type %s %s\n\nconst (\n\t%sA %s = iota\n\t%sB\n\t%sC\n)\n" % (t, under, cap, t, cap, cap)
    if cmd == "rest":
        verb, path = [("Get", "/items/{id}"), ("Delete", "/users/{id}")][k % 2]
        return ("type %s interface {\n\tshoot.RestClient[%s]\n\n\t//shoot: %s(\"%s\")\n"
                "\tDo%s(ctx context.Context, id int) (*http.Response, error)\n}\n" % (t, t, verb, path, cap))
    body = ["\tID   int\n\tName string\n", "\tX int\n", "\tA, B int\n\tNote string\n"][k % 3]
    return "type %s struct {\n%s}\n" % (t, body)


def render_pkg(p):
    """{path relative to the case root: text}"""
    out = {}
    k = 0
    for f in sorted(p.files):
        txt = "package p\n\n"
        if p.cmd == "rest" and not p.nothing:
            txt += 'import (\n\t"context"\n\t"net/http"\n\n\t"github.com/lopolopen/shoot"\n)\n\n'
        for line in p.genlines[f]:
            txt += "//go:generate " + line + "\n"
        if p.genlines[f]:
            txt += "\n"
        for t in p.files[f]:
            txt += (_type_text_ineligible if p.nothing else _type_text)(p.cmd, t, k) + "\n"
            k += 1
        for j, (s, _) in enumerate(p.extra.get(f, [])):
            txt += _type_text("map", s, j) + "\n"
        out["p/" + f] = txt
    if p.cmd == "map":
        txt = "package dest\n\n"
        k = 0
        if p.nothing:
            txt += "type Unrelated struct {\n\tID int\n}\n\n"
        for f in sorted(p.files):
            for t in ([] if p.nothing else p.files[f]):
                txt += _type_text("map", t, k) + "\n"
                k += 1
        for f in sorted(p.extra):
            for j, (_, d) in enumerate(p.extra[f]):
                txt += _type_text("map", d, j) + "\n"
        out["dest/d.go"] = txt
    return out


# --------------------------------------------------------------- invocations
MODES = ["types", "file", "filesep", "star", "starsep", "star_noline", "star_space"]
INVOKE = ["pkg", "pkgdot", "parent", "parent_bare", "abs"]
# invocations with flags written AFTER the [dir] argument (the usage line documents `[dir] [-s] [-v]`; the flag
# package stops at the first positional argument), from a working directory that is itself a loadable package
# holding the same types: the parent of p (parent_trail) or a sibling of p (sibling_trail).  Any write must
# still land in p.
TRAIL_INVOKE = ["parent_trail", "sibling_trail"]
TRAILS = [["-v"], ["-sep"], ["-ver=v1.2.3"], ["-v", "-raw"]]


def extra_flags(rng, cmd):
    if cmd == "new":
        return rng.choice([[], [], ["-getset"], ["-json"], ["-opt"], ["-getset", "-json"]])
    if cmd == "enum":
        return rng.choice([[], [], ["-json"], ["-text"]])
    if cmd == "map":
        return ["-path=../dest"]
    return []


class Inv:
    """one invocation of shoot: mode, selection, how it is invoked"""
    def __init__(self, p, mode, invoke, flags, types=None, file=None, genfile_src=None):
        self.p, self.mode, self.invoke, self.flags = p, mode, invoke, flags
        self.types, self.file, self.genfile_src = types, file, genfile_src
        self.to = None
        self.trail = []          # flags after [dir]

    def dirarg(self, root):
        return {"pkg": None, "pkgdot": ".", "parent": "./p", "parent_bare": "p",
                "abs": str(Path(root) / "p"), "parent_trail": "./p", "sibling_trail": "../p"}[self.invoke]

    def twin_dir(self):
        """the directory (relative to the case root) that holds a copy of the package sources: the cwd"""
        return {"parent_trail": ".", "sibling_trail": "q"}.get(self.invoke)

    def args(self, root):
        a = [self.p.cmd] + list(self.flags)
        if self.mode == "types":
            a.append("-type=" + ",".join(self.types))
        elif self.mode == "types_to":
            a.append("-type=" + self.types[0])
            a.append("-to=" + self.to)
        elif self.mode in ("file", "filesep"):
            a.append("-file=" + self.file)
        elif self.mode == "star_space":
            a += ["-type", "*"]
        else:
            a.append("-type=*")
        if self.mode in ("filesep", "starsep"):
            a.append("-sep")
        d = self.dirarg(root)
        if d is not None:
            a.append(d)
        return a + list(self.trail)

    def cmdline(self, root):
        return "shoot " + " ".join(self.args(root))

    def cwd(self, root):
        if self.invoke == "sibling_trail":
            return Path(root) / "q"
        return Path(root) / "p" if self.invoke in ("pkg", "pkgdot") else Path(root)

    def dirdot(self):
        return self.invoke in ("pkg", "pkgdot")

    def clean_active(self):
        return self.mode in ("star", "star_space")

    def selection(self):
        """(source file, type name) per expected output; Python mirror of fileName"""
        p = self.p
        if p.nothing and self.mode not in ("types", "types_to"):
            return []            # nothing is eligible: "nothing generated", main returns before Clean
        if self.mode in ("types", "types_to"):
            return [(p.decl_file(t), t) for t in self.types]
        if self.mode == "file":
            return [(self.file, "")]
        if self.mode == "filesep":
            return [(self.file, t) for t in p.files[self.file]]
        if self.mode in ("star", "star_space"):
            return [(self.genfile_src, "")]
        if self.mode == "starsep":
            return [(self.genfile_src, t) for t in p.all_types()]
        return [("", "")]          # star_noline: allInOneFile stays empty


def gen_inv(rng, p, root_for_abs, mode=None, invoke=None, history=False):
    if mode is None or mode == "types":
        # map: an explicit run for a type that -file / -type=* do not cover
        if p.cmd == "map" and p.extras() and rng.random() < (0.5 if history else 0.15):
            mode = "types_to"
    mode = mode or rng.choice(["types", "types", "file", "filesep", "star", "star", "star", "starsep",
                               "star_noline", "star_space"])
    invoke = "pkg" if history else (invoke or rng.choice(INVOKE))
    flags = extra_flags(rng, p.cmd)
    inv = Inv(p, mode, invoke, flags)
    if invoke in TRAIL_INVOKE:
        inv.trail = list(rng.choice(TRAILS))
    if mode == "types_to":
        s, d = rng.choice(p.extras())
        inv.types, inv.to = [s], d
    elif mode == "types":
        ts = p.all_types()
        inv.types = rng.sample(ts, rng.randint(1, min(3, len(ts))))
    elif mode in ("file", "filesep"):
        inv.file = rng.choice(sorted(p.files))
    elif mode in ("star", "starsep", "star_space"):
        # the //go:generate line that makes this the all-in-one file
        inv.genfile_src = None
    return inv


def place_genline(rng, p, inv, root):
    """register the //go:generate line of a star-mode invocation; the all-in-one
    file is the first source file (sorted) carrying a line that ends with the
    command line"""
    if inv.mode not in ("star", "starsep", "star_space"):
        return
    line = inv.cmdline(root)
    holders = [f for f in sorted(p.files) if any(l.endswith(line) for l in p.genlines[f])]
    if not holders:
        f = rng.choice(sorted(p.files))
        variant = rng.choice([line, line, "go run github.com/lopolopen/shoot/cmd/" + line])
        p.genlines[f].append(variant)
        holders = [f for f in sorted(p.files) if any(l.endswith(line) for l in p.genlines[f])]
    inv.genfile_src = holders[0]


def lower_name(t):
    if not t[0].isupper():
        t = "_" + t
    return t.lower()


def out_name(cmd, gofile, t):
    base = gofile[:-3] if gofile.endswith(".go") else gofile
    if t == "":
        return "%s.shoot%s.go" % (base, cmd)
    return "%s.shoot%s.%s.go" % (base, cmd, lower_name(t))


# -------------------------------------------------------------- planted files
def header(cmd, rest, tail="; DO NOT EDIT. (v0.7.0)"):
    return '// Code generated by "shoot %s %s"%s' % (cmd, rest, tail)


def planted_menu(rng, cmd):
    """(file name, content, kind).  Names starting with '_' or '.' and *_test.go are
    ignored by the go tool, so their content may be anything."""
    other = rng.choice([c for c in CMDS if c != cmd])
    g = ".shoot" + cmd
    menu = [
        ("notes%sish.go" % g, "package p\n\n// hand written\nvar NotesA = 1\n", "hand_lookalike"),
        ("extra%s.helper.go" % g, "package p\n\n// hand written helper\nvar helperB = 2\n", "hand_outputlike"),
        ("_old%s.gone.go" % g, header(cmd, "-type=Gone") + "\n\npackage p\n", "stale_same_cmd"),
        ("_old%s.go" % g, header(cmd, "-file=old.go") + "\n\npackage p\n", "stale_same_cmd_file"),
        ("_keep%s.go" % g, header(cmd, "-type=*") + "\n\npackage p\n", "aio_same_cmd"),
        ("_keep2%s.go" % g, header(cmd, "-getset --type=* ./x") + "\n\npackage p\n", "aio_same_cmd"),
        ("_other%s.x.go" % g, header(other, "-type=X") + "\n\npackage p\n", "other_cmd_header"),
        ("_nonl%s.y.go" % g, header(cmd, "-type=Y"), "stale_no_newline"),
        ("_nonl2%s.y.go" % g, "package p", "hand_no_newline"),
        ("_nodot%s.z.go" % g, header(cmd, "-type=Z", tail="; DO NOT EDIT") + "\n", "header_without_dot"),
        ("_nodot2%s.z.go" % g, header(cmd, "-type=Z", tail="; DO NOT EDIT"), "header_without_dot"),
        ("_longer%s.w.go" % g, '// Code generated by "shoot %ser -type=W"; DO NOT EDIT. (v1)\n' % cmd, "cmd_is_prefix"),
        ("_empty%s.e.go" % g, "", "empty"),
        ("_lower%s.l.go" % g, header(cmd, "-type=L").lower() + "\n", "lowercase_header"),
        ("_space%s.s.go" % g, " " + header(cmd, "-type=S") + "\n", "leading_space"),
        ("_crlf%s.c.go" % g, header(cmd, "-type=C") + "\r\npackage p\r\n", "stale_crlf"),
        ("_late%s.t.go" % g, header(cmd, "-type=T") + " -type=*\npackage p\n", "star_after_dne"),
        ("_second%s.u.go" % g, "// hand written\n" + header(cmd, "-type=U") + "\n", "header_on_line_2"),
        ("_aio_nl%s.go" % g, header(cmd, "-type=*", tail="; DO NOT EDIT") + "\n.\n", "aio_dot_on_next_line"),
        (".hidden%s.h.go" % g, header(cmd, "-type=H") + "\npackage p\n", "stale_hidden"),
        ("z%s_test.go" % g, "package p\n", "hand_test_lookalike"),
        ("gen%s_test.go" % g, header(cmd, "-type=Q") + "\npackage p\n", "stale_test_lookalike"),
        ("x.shoot%s.go" % other, header(other, "-type=*") + "\n\npackage p\n", "foreign_other_cmd"),
        ("data%s.txt" % g, "not go\n", "foreign_txt"),
        ("README.md", "# readme\n", "foreign"),
        (".a%s.go_424242" % g, header(cmd, "-type=*")[:20], "old_temp"),
        ("shoot%s.go" % cmd, "package p\n\n// no dot before shoot\nvar noDot = 3\n", "hand_nodot_name"),
        ("a%s.go.bak" % g, header(cmd, "-type=Bak") + "\n", "foreign_bak"),
    ]
    return menu


def plant(rng, pkgdir, cmd, n, forced=()):
    """write n random entries of the menu (plus the forced kinds); returns {name: kind}"""
    menu = planted_menu(rng, cmd)
    chosen = [m for m in menu if m[2] in forced]
    rest = [m for m in menu if m not in chosen]
    rng.shuffle(rest)
    chosen += rest[:max(0, n - len(chosen))]
    kinds = {}
    for name, content, kind in chosen:
        (Path(pkgdir) / name).write_bytes(content.encode())
        kinds[name] = kind
    return kinds


def plant_links(rng, root, cmd, n):
    """hard links to existing shoot outputs of this subcommand (or to any file when
    there is none): a non-matching name in the package, a matching one, and one
    outside the package.  returns {relative path: target name}"""
    pkgdir = Path(root) / "p"
    outs = sorted(x.name for x in pkgdir.iterdir()
                  if x.is_file() and re.search(r"\.shoot%s.*\.go$" % cmd, x.name) and not x.name.startswith((".", "_")))
    pool = outs or sorted(x.name for x in pkgdir.iterdir() if x.is_file() and not x.name.endswith(".go"))
    links = {}
    if not pool:
        return links
    forms = ["inside_plain", "inside_matching", "outside"]
    rng.shuffle(forms)
    for form in forms[:n]:
        tgt = rng.choice(pool)
        if form == "inside_plain":
            rel = "p/%s.orig" % tgt
        elif form == "inside_matching":
            rel = "p/_link.shoot%s.%d.go" % (cmd, len(links))
        else:
            (Path(root) / "bak").mkdir(exist_ok=True)
            rel = "bak/%s" % tgt
        dst = Path(root) / rel
        if not dst.exists():
            os.link(pkgdir / tgt, dst)
            links[rel] = tgt
    return links


# ------------------------------------------------------------------ snapshots
def snapshot(root):
    """[(relative path, st_ino, bytes)] for every regular file below root; directories as (path/, 0, b'')"""
    res = []
    root = Path(root)
    for dp, dns, fns in os.walk(root):
        dns.sort()
        for d in dns:
            res.append((str((Path(dp) / d).relative_to(root)) + "/", 0, b""))
        for f in sorted(fns):
            q = Path(dp) / f
            st = os.lstat(q)
            if os.path.islink(q):
                res.append((str(q.relative_to(root)), st.st_ino, b"symlink:" + os.readlink(q).encode()))
            else:
                res.append((str(q.relative_to(root)), st.st_ino, q.read_bytes()))
    return sorted(res)


def keep_links(root, keepdir):
    """hard-link every regular file below root into keepdir (named by inode), so that no
    pre-existing inode can be freed and reused during the run, and so that its
    content can be read afterwards.  returns {st_ino: path in keepdir}"""
    keepdir = Path(keepdir)
    keepdir.mkdir(parents=True, exist_ok=True)
    res = {}
    for rel, ino, _ in snapshot(root):
        if rel.endswith("/") or ino in res:
            continue
        k = keepdir / str(ino)
        if not os.path.lexists(k):
            os.link(Path(root) / rel, k, follow_symlinks=False)      # a symbolic link is kept as a link
        res[ino] = k
    return res


def read_kept(k):
    """content of a kept inode, in the representation of snapshot()"""
    if os.path.islink(k):
        return b"symlink:" + os.readlink(k).encode()
    return Path(k).read_bytes()


# ------------------------------------------------------- entries at output names
OBSTACLES = ["sym_inside", "sym_outside", "sym_dangling", "hardlink_hw"]


def plant_obstacle(root, outname, kind, tag):
    """make the name of an expected output pre-exist as something else than an old output:
    sym_inside   a symbolic link to a hand-written file of the package directory
    sym_outside  a symbolic link to a hand-written file in a sibling directory
    sym_dangling a symbolic link to nothing
    hardlink_hw  a second name (hard link) of a hand-written file of the package directory
    (a directory at the name is the rename-failure case; a FIFO would block `go list`, not generated).
    The hand-written files hold valid Go with a unique declaration, so the package still loads.
    What must happen: the NAME is rebound to the new file; the link's target / the other name keeps
    its inode and bytes.  returns {relative path: what}"""
    root = Path(root)
    out = root / "p" / outname
    if os.path.lexists(out):
        os.unlink(out)
    hw = ("package p\n\n// hand written, %s\nvar Hw%s = 1\n" % (kind, tag)).encode()
    made = {}
    if kind == "sym_inside":
        (root / "p" / "hw_inside.txt").write_bytes(hw)
        os.symlink("hw_inside.txt", out)
        made["p/hw_inside.txt"] = "hand-written target of the link"
    elif kind == "sym_outside":
        (root / "hw").mkdir(exist_ok=True)
        (root / "hw" / "user_extra.go").write_bytes(hw)
        os.symlink("../hw/user_extra.go", out)
        made["hw/user_extra.go"] = "hand-written target of the link"
    elif kind == "sym_dangling":
        os.symlink("nowhere/gone.go", out)
    else:
        (root / "p" / "NOTES_hw.txt").write_bytes(hw)
        os.link(root / "p" / "NOTES_hw.txt", out)
        made["p/NOTES_hw.txt"] = "hand-written file, other name of the same inode"
    made["p/" + outname] = kind
    return made


# ------------------------------------------------------------ strace projection
HEX = r'(?:\\x[0-9a-f]{2})*'
_re_line = re.compile(r'^(\d+)\s+(.*)$')
_re_call = re.compile(r'^(\w+)\((.*)\)\s+=\s+(-?\d+|\?)(<' + HEX + r'>)?(.*)$', re.S)
_re_resumed = re.compile(r'^<\.\.\. (\w+) resumed>(.*)$', re.S)
_re_str = re.compile(r'"(' + HEX + r')"(\.\.\.)?')
_re_fd = re.compile(r'(AT_FDCWD|\d+)<(' + HEX + r')>')


# calls that take plain path names (no directory descriptor): relative names are resolved
# against the directory shoot was started in
_re_oldstyle = re.compile(r'^\d+\s+(?:<\.\.\. )?(?:open|creat|rename|unlink|mkdir|rmdir|link|symlink|chmod|chown|lchown|'
                          r'truncate|utime|utimes|mknod|setxattr|lsetxattr|removexattr|lremovexattr)[ (]')


def unhex(s):
    return bytes(int(x, 16) for x in re.findall(r'\\x([0-9a-f]{2})', s))


def hexed(s):
    return "".join("\\x%02x" % b for b in s.encode())


def parse_strace(text, needle=None):
    """yield (tid, syscall, argtext, ret, retpath, tail) for completed calls in completion order.
    needle: hex-encoded path prefix; calls whose text does not contain it are skipped early"""
    pending = {}
    for raw in text.splitlines():
        if needle is not None and needle not in raw and "resumed>" not in raw and not _re_oldstyle.search(raw):
            continue
        m = _re_line.match(raw)
        if not m:
            continue
        tid, rest = int(m.group(1)), m.group(2)
        if rest.startswith("+++") or rest.startswith("---"):
            continue
        if rest.endswith("<unfinished ...>"):
            pending[tid] = rest[:-len("<unfinished ...>")]
            continue
        r = _re_resumed.match(rest)
        if r:
            if tid not in pending:
                continue
            rest = pending.pop(tid) + r.group(2)
            if needle is not None and needle not in rest and not _re_oldstyle.search(raw):
                continue
        c = _re_call.match(rest)
        if not c:
            continue
        ret = None if c.group(3) == "?" else int(c.group(3))
        retpath = unhex(c.group(4)).decode("utf8", "replace") if c.group(4) else None
        yield tid, c.group(1), c.group(2), ret, retpath, c.group(5)


MUTATING = {"mkdir", "mkdirat", "rmdir", "link", "linkat", "symlink", "symlinkat", "chmod", "fchmodat",
            "fchmodat2", "chown", "lchown", "fchownat", "truncate", "utime", "utimes", "utimensat", "futimesat",
            "mknod", "mknodat", "setxattr", "lsetxattr", "removexattr", "lremovexattr"}
FD_MUTATING = {"ftruncate", "fchmod", "fchown", "fallocate", "pwrite64", "pwritev", "pwritev2", "writev",
               "copy_file_range", "sendfile", "fsetxattr", "fremovexattr"}


def project(text, root, pkgdir, cwd=None):
    """project an strace log onto model operations.
    returns (ops, outside): ops = list of tuples
       ('CreateTemp', fd, name) ('Write', fd, bytes) ('Close', fd) ('Rename', a, b) ('Unlink', n)
       ('ReadFirstLine', n) ('OpenTrunc', fd, n) ('Other', text)
    for everything that happens inside pkgdir; outside = list of descriptions of
    mutations below root but outside pkgdir"""
    root = os.path.realpath(root)
    pkgdir = os.path.realpath(pkgdir)
    ops, outside = [], []
    wfds = {}            # fd number -> name (write-opened files in pkgdir), per process: shoot is the only writer
    mutated = False

    def classify(path):
        path = os.path.normpath(path)
        if os.path.dirname(path) == pkgdir:
            return "pkg", os.path.basename(path)
        if path == pkgdir or path.startswith(pkgdir + os.sep):
            return "pkgsub", path[len(pkgdir) + 1:]
        if path == root or path.startswith(root + os.sep):
            return "root", path[len(root) + 1:]
        return None, path

    cwd0 = os.path.realpath(cwd) if cwd else "/"

    def resolve(dirfd_path, rel):
        rel = rel.decode("utf8", "replace")
        if os.path.isabs(rel):
            return rel
        return os.path.join(dirfd_path or cwd0, rel)

    for tid, sc, args, ret, retpath, tail in parse_strace(text, hexed(root)):
        if ret is None or ret < 0:
            continue
        fdm = _re_fd.findall(args)
        strs = [unhex(s[0]) for s in _re_str.findall(args)]
        fdpaths = [unhex(p).decode("utf8", "replace") for _, p in fdm]
        if sc in ("openat", "open", "creat", "openat2"):
            if not strs:
                continue
            base = fdpaths[0] if (sc in ("openat", "openat2") and fdpaths) else None
            path = retpath or resolve(base, strs[0])
            where, nm = classify(path)
            if where is None:
                continue
            flags = args
            writing = ("O_WRONLY" in flags or "O_RDWR" in flags or "O_CREAT" in flags or "O_TRUNC" in flags
                       or sc == "creat")
            if "O_DIRECTORY" in flags and not writing:
                continue
            if where != "pkg":
                if writing:
                    outside.append("%s %s" % (sc, nm))
                continue
            if writing:
                mutated = True
                if "O_CREAT" in flags and "O_EXCL" in flags:
                    ops.append(("CreateTemp", ret, nm))
                elif "O_TRUNC" in flags or "O_CREAT" in flags or sc == "creat":
                    ops.append(("OpenTrunc", ret, nm))
                else:
                    ops.append(("Other", "open-for-write %s" % nm))
                wfds[ret] = nm
            elif mutated:
                ops.append(("ReadFirstLine", nm))
        elif sc == "write":
            if not fdpaths:
                continue
            where, nm = classify(fdpaths[0])
            if where is None:
                continue
            fd = int(fdm[0][0])
            if where != "pkg":
                outside.append("write %s" % nm)
                continue
            mutated = True
            if _re_str.search(args) and _re_str.search(args).group(2):
                ops.append(("Other", "write data truncated in the trace"))
            else:
                ops.append(("Write", fd, strs[0] if strs else b""))
        elif sc == "close":
            if not fdpaths:
                continue
            fd = int(fdm[0][0])
            where, nm = classify(fdpaths[0])
            if where == "pkg" and fd in wfds:
                ops.append(("Close", fd))
                del wfds[fd]
        elif sc in ("rename", "renameat", "renameat2"):
            if sc == "rename":
                a, b = resolve(None, strs[0]), resolve(None, strs[1])
            else:
                a, b = resolve(fdpaths[0] if fdpaths else None, strs[0]), resolve(fdpaths[1] if len(fdpaths) > 1 else None, strs[1])
            (wa, na), (wb, nb) = classify(a), classify(b)
            if wa is None and wb is None:
                continue
            mutated = True
            if wa == "pkg" and wb == "pkg":
                ops.append(("Rename", na, nb))
            elif "pkg" in (wa, wb) or "pkgsub" in (wa, wb):
                ops.append(("Other", "rename across directories %s -> %s" % (a, b)))
            else:
                outside.append("rename %s -> %s" % (na, nb))
        elif sc in ("unlink", "unlinkat"):
            path = resolve(fdpaths[0] if (sc == "unlinkat" and fdpaths) else None, strs[0])
            where, nm = classify(path)
            if where is None:
                continue
            mutated = True
            if where == "pkg":
                ops.append(("Other", "rmdir " + nm) if "AT_REMOVEDIR" in args else ("Unlink", nm))
            elif where == "pkgsub":
                ops.append(("Other", "unlink in subdirectory " + nm))
            else:
                outside.append("unlink " + nm)
        elif sc in MUTATING:
            hit = None
            for i, s in enumerate(strs):
                base = fdpaths[min(i, len(fdpaths) - 1)] if fdpaths else None
                where, nm = classify(resolve(base, s))
                if where is not None:
                    hit = (where, nm)
                    break
            if hit:
                mutated = True
                if hit[0] in ("pkg", "pkgsub"):
                    ops.append(("Other", "%s %s" % (sc, hit[1])))
                else:
                    outside.append("%s %s" % (sc, hit[1]))
        elif sc in FD_MUTATING:
            for pth in fdpaths:
                where, nm = classify(pth)
                if where in ("pkg", "pkgsub"):
                    mutated = True
                    ops.append(("Other", "%s %s" % (sc, nm)))
                    break
                if where == "root":
                    outside.append("%s %s" % (sc, nm))
                    break
    return ops, outside


def run_traced(shoot, cwd, args, tracefile, timeout=40):
    """run shoot under strace -f in its own process group; returns dict(rc, out, err, timed_out).
    On a timeout the whole group is killed (no stray tracee survives)."""
    cmd = ["strace", "-f", "--seccomp-bpf", "-y", "-xx", "-s", "4000000", "-e", "trace=" + STRACE_SET, "-o", str(tracefile),
           str(shoot)] + list(args)
    env = lib.go_env()
    p = subprocess.Popen(cmd, cwd=str(cwd), env=env, stdout=subprocess.PIPE, stderr=subprocess.PIPE, text=True,
                         start_new_session=True)
    try:
        out, err = p.communicate(timeout=timeout)
        return {"rc": p.returncode, "out": out, "err": err, "timed_out": False}
    except subprocess.TimeoutExpired:
        try:
            os.killpg(p.pid, signal.SIGKILL)
        except OSError:
            pass
        try:
            p.communicate(timeout=10)
        except Exception:
            pass
        return {"rc": 124, "out": "", "err": "timeout", "timed_out": True}


MARKER = re.compile(rb"^func \((?:\w+\s+)?\*?(\w+)(?:\[[^\]]*\])?\) Shoot(?:New|Enum|Rest|Map)\(\)", re.M)


def type_tags(content):
    """the types a generated file is for: the receivers of its marker methods"""
    return sorted({m.decode() for m in MARKER.findall(content)})


# ------------------------------------------------------------------ Coq terms
def abstract(content):
    """canonical form of a file content: first line (without newline) + digest.
    Injective up to SHA-1; keeps exactly what Clean reads."""
    first = content.split(b"\n", 1)[0]
    has_nl = b"\n" in content
    return first + (b"\n" if has_nl else b"") + (b"#%s:%d" % (hashlib.sha1(content).hexdigest()[:16].encode(), len(content))
                                                  if content != first else b"")


def coq_bytes(b):
    """Coq string literal for a byte string (bytes >= 128 and control characters other
    than newline/tab/CR are not produced by this generator)"""
    s = b.decode("latin-1")
    for ch in s:
        o = ord(ch)
        if o >= 127 or (o < 32 and ch not in "\n\t\r"):
            raise lib.CheckBroken("content byte %d cannot be rendered" % o)
    return '"' + s.replace('"', '""') + '"'


def coq_str(s):
    return coq_bytes(s.encode())


def coq_bool(b):
    return "true" if b else "false"


def coq_list(items):
    return "[" + "; ".join(items) + "]"


def coq_op(o, absf):
    k = o[0]
    if k == "CreateTemp":
        return "CreateTemp %d %s" % (o[1], coq_str(o[2]))
    if k == "Write":
        return "Write %d %s" % (o[1], coq_bytes(absf(o[2])))
    if k == "Close":
        return "Close %d" % o[1]
    if k == "Rename":
        return "Rename %s %s" % (coq_str(o[1]), coq_str(o[2]))
    if k == "Unlink":
        return "Unlink %s" % coq_str(o[1])
    if k == "ReadFirstLine":
        return "ReadFirstLine %s" % coq_str(o[1])
    if k == "OpenTrunc":
        return "OpenTrunc %d %s" % (o[1], coq_str(o[2]))
    return "Other %s" % coq_str(re.sub(r"[^ -~]", "?", o[1])[:200])
