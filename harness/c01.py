"""C01: every successful run yields Go that compiles with its package.

Theorems: coq/Properties/C01.v (name-level well-formedness of the abstract
generated files of coq/Model/GoWf.v; partial: Go's type checker proper and
gofmt are observed, not modelled).

Correspondence (coq/Corr/GoWfCorr.v): packages from the spec generators of the
four subcommands are rendered into one scratch module, the freshly built shoot
binary is run on them in the three selection modes and over the flag sets, and
per run the harness observes the exit status, the files written, their first
line / package clause / declared names (harness/go/cmd/declsig), `gofmt -l`
and `go build` of the package.  Coq compares that with the model's files for
the template data of the generated types (computed by the generator models
from the spec) and evaluates the property itself (Pb) on the observation.

The streams plug in per generator: each yields `Pkg` objects (see below)."""
import concurrent.futures as cf
import json
import re
import shlex
from pathlib import Path

import lib
import l2

HEADER = ("From Coq Require Import List ZArith NArith String.\n"
          "From Shoot Require Import Model.GoWf Model.Enum Corr.GoWfCorr.\n"
          "Import ListNotations.\nLocal Open Scope string_scope.\n"
          "Set Printing Width 1000000.\nSet Printing Depth 1000000.\n")


def cs(s):
    return '"' + s.replace('"', '""') + '"'


def clist(items):
    return "[" + "; ".join(items) + "]"


def cb(b):
    return "true" if b else "false"


class Pkg:
    """one package of the stream.
    name: directory / package name; files: {file: source} (hand-written);
    extra: {relative path in the module: source} (sibling packages, e.g. dest);
    runs: [(args, [coq gdata terms of the types generated for])];
    features: set of strings for the evidence"""

    def __init__(self, name, files, runs, features=(), extra=None, subcmd=None):
        self.name, self.files, self.runs = name, files, runs
        self.features, self.extra = set(features), dict(extra or {})
        self.subcmd = subcmd or runs[0][0][0]


# ------------------------------------------------------------------ streams
def enum_stream(run, n, bit_ok):
    import enumgen
    res = []
    k = 0
    while len(res) < n:
        k += 1
        profile = run.rng.choice(["c04", "c12", "c12", "c14"] if bit_ok else ["c04", "c12", "c12"])
        spec = enumgen.gen_enum_pkg(run.rng, "e%03d" % k, profile=profile, allow_gorm=False)
        if not bit_ok and any(t.flags.get("bit") for t in spec.targets):
            continue            # K_bit_map open: every -bit output fails to compile (replayed as a known finding)
        runs = []
        byname = {t.tname: t for t in spec.targets}
        for args, types in spec.runs:
            data = ["GEnumSpec %s %s %s" % (enumgen.coq_pkg(spec), cs(T), enumgen.coq_flags(byname[T].flags))
                    for T in types]
            runs.append((args, data))
        res.append(Pkg(spec.name, enumgen.render_go(spec), runs, spec.features | {"cmd-enum"}))
    return res


STREAMS = {"enum": enum_stream}
try:                     # richer generators of the other checks, when present
    import c01_streams   # noqa: F401  (registers new / rest / map streams in STREAMS)
except ImportError:
    pass


# ------------------------------------------------------------------ running
def run_pkg(shoot, mod, pkg):
    """execute all runs of one package; returns per run a dict"""
    d = mod / pkg.name
    l2.write_files(d, pkg.files)
    l2.write_files(mod, pkg.extra)
    obs = []
    for args, data in pkg.runs:
        before = l2.snapshot(d)
        r = l2.run_shoot(shoot, d, args, timeout=30)
        after = l2.snapshot(d)
        written = sorted(f for f in after if after[f] != before.get(f))
        removed = sorted(f for f in before if f not in after)
        obs.append({"args": args, "rc": r["rc"], "err": r["err"][-600:], "out": r["out"][-600:], "timed_out": r["timed_out"],
                    "panicked": r["panicked"], "written": written, "removed": removed})
    return obs


def declsigs(declsig, paths):
    rc, out, err = lib.sh([str(declsig)], input="".join(str(p) + "\n" for p in paths), timeout=300)
    if rc != 0:
        raise lib.CheckBroken("declsig failed: " + err[-1500:])
    return {s["path"]: s for s in (json.loads(l) for l in out.splitlines() if l.strip())}


def coq_case(pkg, o, sigs, d, build_ok, gofmt_ok, bit_fixed, data):
    written = [str(d / f) for f in o["written"]]
    hand_tops, hand_meths, fields = [], [], []
    for p, s in sorted(sigs.items()):
        if Path(p).parent != d:
            continue
        fields += s["fields"]
        if p in written:
            continue
        hand_tops += s["tops"]
        hand_meths += s["meths"]
    files = []
    for p in written:
        s = sigs[p]
        files.append("{| of_header := %s; of_pkg := %s; of_tops := %s; of_meths := %s |}" % (
            cs(s["first_line"]), cs(s["package"]), clist(cs(t) for t in s["tops"]),
            clist("(%s, %s)" % (cs(a), cs(b)) for a, b in s["meths"])))
    return ("{| c_pkg := %s; c_hand_tops := %s; c_hand_meths := %s; c_fields := %s; c_args := %s; c_data := %s; "
            "c_bit_fixed := %s; c_exit0 := %s; c_files := %s; c_gofmt := %s; c_build := %s |}" % (
                cs(pkg.name), clist(cs(t) for t in hand_tops),
                clist("(%s, %s)" % (cs(a), cs(b)) for a, b in hand_meths),
                clist("(%s, %s)" % (cs(a), cs(b)) for a, b in fields),
                clist(cs(a) for a in o["args"]), clist(data), cb(bit_fixed), cb(o["rc"] == 0),
                clist(files), cb(gofmt_ok), cb(build_ok)))


def evaluate(run, rendered, shard=60):
    def one(k):
        lo = k * shard
        body = (HEADER + "Definition cases : list case := [\n%s\n].\n"
                "Definition M := Eval vm_compute in mismatches cases.\nPrint M.\n" % ";\n".join(rendered[lo:lo + shard]))
        out = run.coq_eval("c01_%d" % k, body)
        return [(lo + i, v) for i, v in lib.parse_coq_list_pairs(out, "M")]
    res = []
    with cf.ThreadPoolExecutor(max_workers=6) as ex:
        for r in ex.map(one, range((len(rendered) + shard - 1) // shard)):
            res.extend(r)
    return res


COMPONENT = {0: "-", 1: "declared names of the written files differ from the model's (template skeleton)",
             2: "header line is not `// Code generated by \"shoot <args>\"; DO NOT EDIT.`",
             3: "model's name-level well-formedness verdict differs from the go build verdict"}


def exercise(run, shoot, declsig, pkgs, bit_fixed, modname="c01mod"):
    """returns (cases, rendered, obs)"""
    mod = l2.make_module(run, modname)
    with cf.ThreadPoolExecutor(max_workers=6) as ex:
        allobs = list(ex.map(lambda p: run_pkg(shoot, mod, p), pkgs))
    ok, errs = l2.go_build(mod)
    gofiles = [p for p in mod.rglob("*.go")]
    sigs = declsigs(declsig, gofiles)
    cases, rendered = [], []
    for pkg, obs in zip(pkgs, allobs):
        d = mod / pkg.name
        berr = [e for k, e in errs.items() if k.endswith("/" + pkg.name) or k == "?" ]
        build_ok = ok or not any(k.endswith("/" + pkg.name) for k in errs)
        if "?" in errs:
            build_ok = False
        for o, (args, data) in zip(obs, pkg.runs):
            gofmt_ok = all(l2.gofmt_clean(d / f)[0] for f in o["written"])
            case = {"pkg": pkg, "obs": o, "build_ok": build_ok, "gofmt_ok": gofmt_ok,
                    "build_errors": [l for e in berr for l in e][:12]}
            cases.append(case)
            rendered.append(coq_case(pkg, o, sigs, d, build_ok, gofmt_ok, bit_fixed, data))
    return cases, rendered, mod


# ------------------------------------------------------------------ findings
def witness_handler(run, shoot):
    """generic replay of a finding witness {pkg|files, cmd[, dir]}: 'buggy' if the run or the build of
    what it wrote fails (or panics / times out), 'correct' if exit 0 and the package compiles"""
    n = [0]

    def h(entry):
        w = entry["witness"]
        n[0] += 1
        mod = l2.make_module(run, "c01w%d" % n[0])
        files = w.get("files") or {"w/a.go": w["pkg"].replace("package e\n", "package w\n", 1)}
        l2.write_files(mod, files)
        wd = mod / w.get("dir", "w")
        args = shlex.split(w["cmd"])[1:]
        r = l2.run_shoot(shoot, wd, args, timeout=20)
        if r["timed_out"] or r["panicked"]:
            return "buggy"
        if r["rc"] != 0:
            return "buggy" if w.get("buggy_is_nonzero_exit", True) else "correct"
        ok, errs = l2.go_build(mod)
        return "correct" if ok else "buggy"
    return h


def main(run):
    proof_ok = run.prove("Properties/C01.v", ["Corr/GoWfCorr.v"])
    shoot = run.build_shoot()
    declsig = run.build_helper("declsig")
    wh = witness_handler(run, shoot)
    handlers = {f["id"]: wh for f in run.findings() if "witness" in f and ("pkg" in f["witness"] or "files" in f["witness"])}
    outcome = run.replay_findings(handlers)
    bit_fixed = outcome.get("K_bit_map") == "correct"

    per = (220 if run.thorough() else 36)
    pkgs = []
    for name, fn in sorted(STREAMS.items()):
        pkgs += fn(run, per, bit_fixed)
    run.log("packages: %d" % len(pkgs))
    cases, rendered, mod = exercise(run, shoot, declsig, pkgs, bit_fixed)
    run.log("runs: %d" % len(cases))
    mism = evaluate(run, rendered)
    for idx, v in mism[:5]:
        c = cases[idx]
        verdict, comp = v // 10, v % 10
        run.violation({"kind": "property-fails-on-implementation" if verdict == 2 else "correspondence-broken",
                       "theorem": "C01_enum_wf / C01_new_wf / C01_rest_wf / C01_map_wf / C01_files_compose",
                       "correspondence": "L2:C01:shoot run + declsig + gofmt + go build vs Model/GoWf.v",
                       "component": COMPONENT.get(comp, str(comp)),
                       "package": c["pkg"].name, "sources": c["pkg"].files, "extra": c["pkg"].extra,
                       "command": "shoot " + " ".join(c["obs"]["args"]), "observed": c["obs"],
                       "go_build_ok": c["build_ok"], "gofmt_clean": c["gofmt_ok"], "build_errors": c["build_errors"],
                       "coq_case": rendered[idx]}, no_input=(verdict != 2))
    if not proof_ok and not mism:
        run.proof_failure_violation()

    feats, modes, cmds = {}, {}, {}
    distinct = set()
    for c in cases:
        a = c["obs"]["args"]
        mode = "star" if "-type=*" in a else "file" if any(x.startswith("-file=") for x in a) else \
            "list" if any(x.startswith("-type=") and "," in x for x in a) else "single"
        modes[mode] = modes.get(mode, 0) + 1
        cmds[a[0]] = cmds.get(a[0], 0) + 1
        flags = tuple(sorted(x for x in a[1:] if not x.startswith(("-type=", "-file=", "-path="))))
        distinct.add((a[0], mode, flags, len(c["obs"]["written"])))
        for f in c["pkg"].features:
            feats[f] = feats.get(f, 0) + 1
    cov = {
        "evaluations": len(cases),
        "distinct_nontrivial": len(distinct),
        "rule": ("packages from the spec generators of the subcommands %s, each run of shoot is one case; "
                 "distinct = distinct (subcommand, selection mode, flag set, number of files written); every case "
                 "is non-trivial in that the run wrote at least one file that was parsed, gofmt-checked and compiled "
                 "with its package.  -bit outputs are %s." %
                 (sorted(STREAMS), "included" if bit_fixed else
                  "excluded from the stream while the open finding K_bit_map reproduces (replayed above)")),
        "programs": len(pkgs),
        "traces_validated_against_impl": len(cases),
        "selection_modes": modes, "subcommands": cmds, "features": feats,
        "exit_nonzero_cases": sum(1 for c in cases if c["obs"]["rc"] != 0),
        "findings_measured": outcome,
        "samples": [{"package": c["pkg"].name, "command": "shoot " + " ".join(c["obs"]["args"]),
                     "written": c["obs"]["written"], "go_build_ok": c["build_ok"], "gofmt_clean": c["gofmt_ok"],
                     "sources": c["pkg"].files} for c in cases[:2]],
        "trusted_base": lib.TRUSTED_BASE_COMMON + [
            "PARTIAL: Go's type checker is abstracted by the name-level wf of Model/GoWf.v; assignability of the "
            "generated expressions and gofmt-cleanliness are observed on every generated package (go build, gofmt -l), "
            "not proved",
            "the template skeletons (which names a file declares as a function of the template data) are read off "
            "the four templates by hand and compared with the declared names of every file written (declsig)",
            "template data (constant lists, field lists, method lists) is computed from the spec by the generator "
            "models (Model/Enum.v, ...), themselves tied to the code by their own checks",
        ],
    }
    return run.finish(cov, assumptions=[
        "inputs stay inside the guards of the theorems: the hand-written package does not already declare a name "
        "the generated file declares; classes of the open findings (K_bit_map, K_opt_short_collision, "
        "K_rest_unexported_iface, ...) are replayed as witnesses and kept out of the comparison stream",
    ])


def replay(run, path):
    r = json.load(open(path))
    run.prove("Properties/C01.v", ["Corr/GoWfCorr.v"])
    if "sources" not in r:
        print("nothing to replay (no concrete input in %s)" % path)
        return 0
    shoot = run.build_shoot()
    declsig = run.build_helper("declsig")
    m = re.search(r"c_data := (\[.*?\]); c_bit_fixed := (true|false)", r["coq_case"], re.S)
    pkg = Pkg(r["package"], r["sources"], [(r["observed"]["args"], [m.group(1)[1:-1]] if m.group(1) != "[]" else [])],
              extra=r.get("extra"))
    cases, rendered, mod = exercise(run, shoot, declsig, [pkg], m.group(2) == "true", modname="c01replay")
    mism = evaluate(run, rendered)
    print("observed:", json.dumps(cases[0]["obs"]), "build_ok:", cases[0]["build_ok"], "verdict:", mism)
    if mism:
        print("VIOLATION property=C01 replay=%s" % path)
        return 1
    return 0
