"""C01: every successful run yields Go that compiles with its package.

Theorems: coq/Properties/C01.v (name-level well-formedness of the abstract
generated files of coq/Model/GoWf.v; partial: Go's type checker proper and
gofmt are observed, not modelled).

Correspondence (coq/Corr/GoWfCorr.v): packages from the spec generators of the
four subcommands are rendered into one scratch module, the freshly built shoot
binary is run on them in the three selection modes and over the flag sets, and
per run the harness observes the exit status, the files written, their first
line / package clause / declared names (harness/go/cmd/declsig), `gofmt -l`
and `go build` of the package.  Coq compares that with the model's files for
the template data of the generated types (computed by the generator models
from the spec) and evaluates the property itself (Pb) on the observation.

The streams plug in per generator: each yields `Pkg` objects (see below)."""
import concurrent.futures as cf
import json
import re
import shlex
from pathlib import Path

import lib
import l2

HEADER = ("From Coq Require Import List ZArith NArith String.\n"
          "From Shoot Require Import Model.GoWf Corr.GoWfCorr.\n"
          "Import ListNotations.\nLocal Open Scope string_scope.\n"
          "Set Printing Width 1000000.\nSet Printing Depth 1000000.\n")
# the terms of each generator are written inside a Coq module that imports that generator's model
# (constructor names such as TBasic/TPtr exist in several models)
KIND_IMPORTS = {
    "enum": "From Shoot Require Import Model.Enum.\nLocal Open Scope Z_scope.",
    "new": "From Shoot Require Import Base.GoVal Model.Ctor.",
    "map": "From Shoot Require Import Model.MapVal Model.Mapper Model.MapperSpec Corr.MapperCorr.\nLocal Open Scope list_scope.",
    "rest": "From Shoot Require Import Model.Rest Model.RestSpec.",
    "opaque": "",
}


def cs(s):
    return '"' + s.replace('"', '""') + '"'


def clist(items):
    return "[" + "; ".join(items) + "]"


def cb(b):
    return "true" if b else "false"


class Pkg:
    """one package of the stream.
    name: Go package name; dir: directory of the package relative to the module (where shoot runs);
    files: {file name inside dir: source} (hand-written);
    extra: {path relative to the module: source} (sibling packages: dest, helper, ...);
    runs: [(args, [coq gdata terms of the types generated for])];
    features: set of strings for the evidence"""

    def __init__(self, name, files, runs, features=(), extra=None, subcmd=None, dir=None):
        self.name, self.files, self.runs = name, files, runs
        self.dir = dir or name
        self.features, self.extra = set(features), dict(extra or {})
        self.subcmd = subcmd or runs[0][0][0]


# ------------------------------------------------------------------ streams
def enum_stream(run, n, bit_ok):
    import enumgen
    res = []
    k = 0
    while len(res) < n:
        k += 1
        profile = run.rng.choice(["c04", "c12", "c12", "c14"] if bit_ok else ["c04", "c12", "c12"])
        spec = enumgen.gen_enum_pkg(run.rng, "e%03d" % k, profile=profile, allow_gorm=False)
        if not bit_ok and any(t.flags.get("bit") for t in spec.targets):
            continue            # K_bit_map open: every -bit output fails to compile (replayed as a known finding)
        runs = []
        cpkg = enumgen.coq_pkg(spec)
        for args, _types in spec.runs:
            # the types the command line selects (the model decides which of them have constants and get a file)
            sel = [a for a in args if a.startswith(("-type=", "-file="))][0]
            if sel.startswith("-file="):
                fn = sel[6:]
                types = [it[1] for f in spec.files if f.name == fn for it in f.items if it[0] == "type"]
            elif sel == "-type=*":
                types = [it[1] for f in sorted(spec.files, key=lambda f: f.name) for it in f.items if it[0] == "type"]
            else:
                types = sel[6:].split(",")
            fl = {k: ("-" + k) in args for k in ("bit", "json", "text", "sql", "gorm")}
            data = [("enum", "GEnumSpec %s %s %s" % (cpkg, cs(T), enumgen.coq_flags(fl))) for T in types]
            runs.append((args, data))
        res.append(Pkg(spec.name, enumgen.render_go(spec), runs, spec.features | {"cmd-enum"}))
    return res


NEW_FLAGS = ["-getset", "-json", "-opt", "-short", "-exp", "-tagcase=pascal", "-tagcase=upper"]


def new_stream(run, n, bit_ok):
    """struct packages of harness/ctorgen.py x sampled subsets of the `new` flags x the three selection modes"""
    import ctorgen
    rng = run.rng
    res = []
    for k in range(3 * n):      # `shoot new` on an import-free package takes ~60 ms: three times the share of the other streams
        name = "n%03d" % k
        pkg = ctorgen.gen_struct_pkg(rng, name, getset_dirs=rng.random() < 0.5, p_generic=0.3)
        flags = [f for f in NEW_FLAGS if rng.random() < (0.42 if k % 2 else 0.15)]
        if "-short" in flags and "-opt" not in flags:
            flags.append("-opt")
        if sum(f.startswith("-tagcase") for f in flags) > 1:
            flags.remove("-tagcase=upper")
        # every spelling of every flag: the other two tag cases, the long aliases, and the flags common to all subcommands
        # (-sep/-separate, -v/-verbose, -ver=/-version=; -raw/-r writes unformatted source on purpose and is left out)
        flags = [rng.choice(["-tagcase=lower", "-tagcase=camel", f]) if f.startswith("-tagcase") else f for f in flags]
        tagcase = ([f.split("=")[1] for f in flags if f.startswith("-tagcase")] or ["camel"])[0]
        has = {f: (f in flags) for f in ("-getset", "-json", "-opt", "-exp", "-short")}
        alias = {"-opt": "-option", "-exp": "-exported"}
        flags = [alias[f] if f in alias and rng.random() < 0.3 else f for f in flags]
        for group in (["-sep", "-separate"], ["-v", "-verbose"], ["-ver=v9.9.9", "-version=v0.0.1-rc1"]):
            if rng.random() < 0.2:
                flags.append(rng.choice(group))
        tnames = [sd["name"] for sd in pkg["structs"]]
        mode = rng.choice(["single", "list", "file", "star"])
        files = dict(ctorgen.render_go(pkg, "c01mod"))
        fname = list(files)[0]
        if mode == "single":
            sel, types = ["-type=" + tnames[-1]], [tnames[-1]]
        elif mode == "list":
            ts = list(tnames)
            rng.shuffle(ts)
            ts = ts[:rng.randint(1, len(ts))]
            sel, types = ["-type=" + ",".join(ts)], ts
        elif mode == "file":
            sel, types = ["-file=" + fname], tnames
        else:
            sel, types = ["-type=*"], tnames
            files[fname] = files[fname].replace("\n\n", "\n\n//go:generate shoot new %s\n\n" % " ".join(flags + sel), 1)
        if "-short" in flags and len(types) > 1:
            # K_opt_short_collision (open): option names are shared by the types of one run
            flags = [f for f in flags if f != "-short"]
            has["-short"] = False
            if mode == "star":
                files = dict(ctorgen.render_go(pkg, "c01mod"))
                files[fname] = files[fname].replace("\n\n", "\n\n//go:generate shoot new %s\n\n" % " ".join(flags + sel), 1)
        fl = ("{| fl_getset := %s; fl_json := %s; fl_tagcase := Tag%s; fl_opt := %s; "
              "fl_exp := %s; fl_short := %s |}" % (cb(has["-getset"]), cb(has["-json"]), tagcase.capitalize(),
                                                 cb(has["-opt"]), cb(has["-exp"]), cb(has["-short"])))
        cpkg = ctorgen.coq_pkg(pkg)
        data = [("new", "GNewSpec %s %s 8 %s" % (cpkg, fl, cs(T))) for T in types]
        feats = {"cmd-new", "new-mode-" + mode} | {"new" + f.split("=v")[0] for f in flags}
        pk = Pkg(name, files, [(["new"] + flags + sel, data)], feats, extra={"helper/helper.go": ctorgen.HELPER_GO})
        pk.run_types = [types]
        res.append(pk)
    return res


def common_flags(rng, p=0.15):
    """the flags every subcommand shares, in either spelling (they must not change what is generated, only where and how
    loudly); -raw/-r writes unformatted source on purpose and is left out"""
    out = []
    for group in (["-sep", "-separate"], ["-v", "-verbose"], ["-ver=v9.9.9", "-version=v0.0.1-rc1"]):
        if rng.random() < p:
            out.append(rng.choice(group))
    return out


def rest_stream(run, n, bit_ok):
    import restgen
    rng = run.rng
    res = []
    for k in range(max(1, n // 2)):
        name = "r%03d" % k
        # the first package is restgen's fixed coverage package (same-named struct types from three packages as GET, DELETE
        # and body parameters across two interfaces of one run); the others are random draws
        pkg = restgen.gen_coverage_pkg(rng, name) if k == 0 else restgen.gen_iface_pkg(rng, name, n_ifaces=rng.randint(1, 3))
        files = restgen.render_go(pkg, "c01mod")
        own = {p.split("/", 1)[1]: t for p, t in files.items() if p.startswith(name + "/")}
        extra = {p: t for p, t in files.items() if not p.startswith(name + "/")}
        inames = [i["name"] for i in pkg["ifaces"]]
        mode = rng.choice(["list", "file", "star", "single"])
        if k == 0:
            mode = "list"
        fname = list(own)[0]
        if mode == "single":
            sel, types = ["-type=" + inames[0]], inames[:1]
        elif mode == "list":
            sel, types = ["-type=" + ",".join(inames)], inames
        elif mode == "file":
            sel, types = ["-file=" + fname], inames
        else:
            sel, types = ["-type=*"], inames
            own[fname] = own[fname].replace("\n\n", "\n\n//go:generate shoot rest -type=*\n\n", 1)
        sel = common_flags(rng) + sel
        byname = {i["name"]: i for i in pkg["ifaces"]}
        data = [("rest", "GRestSpec %s {| rd_type := %s; rd_methods := %s |}" % (
            clist(restgen.coq_mspec(m, pkg) for m in byname[T]["methods"]), cs(T),
            clist(cs(m["name"]) for m in byname[T]["methods"]))) for T in types]
        res.append(Pkg(name, own, [(["rest"] + sel, data)],
                       {"cmd-rest", "rest-mode-" + mode} | {"rest" + f.split("=v")[0] for f in sel if not f.startswith(("-type", "-file"))},
                       extra=extra))
    return res


def map_stream(run, n, bit_ok):
    import mapgen
    rng = run.rng
    res = []
    specs = list(mapgen.corpus()) + [mapgen.gen_pair(rng) for _ in range(2 * n)]
    for k, spec in enumerate(specs):
        sub = "m%03d" % k
        files = mapgen.render_go(spec, "c01mod", sub)
        own = {p.split("/")[-1]: t for p, t in files.items() if p.startswith(sub + "/src/")}
        extra = {p: t for p, t in files.items() if not p.startswith(sub + "/src/")}
        extra["common/common.go"] = mapgen.COMMON_GO
        args = mapgen.shoot_args(spec)
        cf_ = common_flags(rng)
        args = args[:1] + cf_ + args[1:]
        to_name, from_name = mapgen.method_names(spec)
        key = spec["flags"]["alias"] or "dest"
        way = spec["flags"]["way"]
        ps = mapgen.render_coq_pair(spec)
        data = [("map", "GMapSpec %s {| md_type := %s; md_destpkg := %s; md_to := %s; md_from := %s |}" % (
            ps, cs(j["src"]), cs(key), cb(way != "fromonly"), cb(way != "toonly"))) for j in spec["jobs"]]
        res.append(Pkg("src", own, [(args, data)], {"cmd-map", "map-way-" + way} | {"map" + f.split("=v")[0] for f in cf_},
                       extra=extra, dir=sub + "/src"))
    return res


def fixed_stream(run, n, bit_ok):
    """hand-written packages whose runs interact through file names: two source files where one name is a proper suffix of
    the other, each generated for with -file= (any order), for `new` and `enum`; and one directive-only gen.go with
    -type=*.  No skeleton is compared for them (GOpaque): the property itself is evaluated on the observation."""
    rng = run.rng
    res = []
    user = "package %s\n\ntype User struct {\n\tid   int\n\tname string\n}\n"
    admin = "package %s\n\ntype AdminUser struct {\n\tid    int\n\tlevel uint8\n}\n\ntype Audit struct {\n\twho string\n}\n"
    for k, flags in enumerate([[], ["-getset"], ["-opt", "-json"]]):
        name = "fx%d" % k
        order = [("user.go", 1), ("admin_user.go", 2)]
        if rng.random() < 0.5:
            order.reverse()
        runs = [(["new"] + flags + ["-file=" + f], [("opaque", "GOpaque")] * cnt) for f, cnt in order]
        res.append(Pkg(name, {"user.go": user % name, "admin_user.go": admin % name}, runs,
                       {"cmd-new", "file-name-suffix"}))
    # an explicit -type run followed by the all-in-one run of another file's go:generate line: the second run supersedes
    # the first one's per-type file and has to remove it (a stale copy redeclares the constructor)
    a_go = "package %s\n\n//go:generate shoot new%s -type=*\n\ntype Person struct {\n\tid   int\n\tname string\n}\n"
    b_go = "package %s\n\ntype Contact struct {\n\tmail string\n\tprio uint8\n}\n"
    for k, flags in enumerate([[], ["-getset"]]):
        name = "fz%d" % k
        fl = "".join(" " + f for f in flags)
        runs = [(["new"] + flags + ["-type=Contact"], [("opaque", "GOpaque")]),
                (["new"] + flags + ["-type=*"], [("opaque", "GOpaque")] * 2)]
        res.append(Pkg(name, {"a.go": a_go % (name, fl), "b.go": b_go % name}, runs, {"cmd-new", "star-after-type"}))
    color = "package %s\n\ntype Color int\n\nconst (\n\tRed Color = iota\n\tGreen\n)\n"
    bg = "package %s\n\ntype Shade uint8\n\nconst (\n\tDark Shade = iota + 1\n\tLight\n)\n"
    for k, flags in enumerate([[], ["-json", "-text"]]):
        name = "fy%d" % k
        order = [("color.go", 1), ("bgcolor.go", 1)]
        if rng.random() < 0.5:
            order.reverse()
        runs = [(["enum"] + flags + ["-file=" + f], [("opaque", "GOpaque")] * cnt) for f, cnt in order]
        res.append(Pkg(name, {"color.go": color % name, "bgcolor.go": bg % name}, runs, {"cmd-enum", "file-name-suffix"}))
    return res


STREAMS = {"enum": enum_stream, "new": new_stream, "rest": rest_stream, "map": map_stream, "fixed": fixed_stream}


# ------------------------------------------------------------------ running
def run_pkg(shoot, mod, pkg):
    """execute all runs of one package; returns per run a dict"""
    d = mod / pkg.dir
    obs = []
    for args, data in pkg.runs:
        before = l2.snapshot(d)
        r = l2.run_shoot(shoot, d, args, timeout=30)
        after = l2.snapshot(d)
        written = sorted(f for f in after if after[f] != before.get(f))
        removed = sorted(f for f in before if f not in after)
        obs.append({"args": args, "rc": r["rc"], "err": r["err"][-600:], "out": r["out"][-600:], "timed_out": r["timed_out"],
                    "panicked": r["panicked"], "written": written, "removed": removed})
    return obs


def declsigs(declsig, paths):
    rc, out, err = lib.sh([str(declsig)], input="".join(str(p) + "\n" for p in paths), timeout=300)
    if rc != 0:
        raise lib.CheckBroken("declsig failed: " + err[-1500:])
    return {s["path"]: s for s in (json.loads(l) for l in out.splitlines() if l.strip())}


def coq_case(pkg, o, sigs, d, build_ok, gofmt_ok, bit_fixed, data):
    written = [str(d / f) for f in o["written"]]
    hand_tops, hand_meths, fields = [], [], []
    for p, s in sorted(sigs.items()):
        if Path(p).parent != d:
            continue
        fields += s["fields"]
        if p in written:
            continue
        hand_tops += s["tops"]
        hand_meths += s["meths"]
    files = []
    for p in written:
        if p not in sigs and len(pkg.runs) > 1:
            continue            # removed again by a later run of the same package (cleanup of superseded outputs)
        s = sigs[p]
        files.append("{| of_header := %s; of_pkg := %s; of_tops := %s; of_meths := %s |}" % (
            cs(s["first_line"]), cs(s["package"]), clist(cs(t) for t in s["tops"]),
            clist("(%s, %s)" % (cs(a), cs(b)) for a, b in s["meths"])))
    return ("{| c_pkg := %s; c_hand_tops := %s; c_hand_meths := %s; c_fields := %s; c_args := %s; c_data := %s; "
            "c_bit_fixed := %s; c_exit0 := %s; c_abnormal := %s; c_files := %s; c_gofmt := %s; c_build := %s |}" % (
                cs(pkg.name), clist(cs(t) for t in hand_tops),
                clist("(%s, %s)" % (cs(a), cs(b)) for a, b in hand_meths),
                clist("(%s, %s)" % (cs(a), cs(b)) for a, b in fields),
                clist(cs(a) for a in o["args"]), "@DATA@", cb(bit_fixed), cb(o["rc"] == 0),
                cb(o["timed_out"] or o["panicked"]), clist(files), cb(gofmt_ok), cb(build_ok)))


def evaluate(run, rendered, shard=40):
    """rendered: [(case term with %(data)s placeholder, [(kind, data term)])]"""
    def one(k):
        lo = k * shard
        part = rendered[lo:lo + shard]
        mods = {}
        cases = []
        for i, (term, data) in enumerate(part):
            names = []
            for j, (kind, dterm) in enumerate(data):
                nm = "d%d_%d" % (i, j)
                mods.setdefault(kind, []).append("Definition %s : gdata := %s." % (nm, dterm))
                names.append("D%s.%s" % (kind, nm))
            cases.append(term.replace("@DATA@", clist(names)))
        body = HEADER
        for kind, defs in sorted(mods.items()):
            body += "Module D%s.\n%s\nImport ListNotations.\nLocal Open Scope string_scope.\n%s\nEnd D%s.\n" % (
                kind, KIND_IMPORTS[kind], "\n".join(defs), kind)
        body += ("Definition cases : list case := [\n%s\n].\n"
                 "Definition M := Eval vm_compute in mismatches cases.\nPrint M.\n" % ";\n".join(cases))
        out = run.coq_eval("c01_%d" % k, body)
        return [(lo + i, v) for i, v in lib.parse_coq_list_pairs(out, "M")]
    res = []
    with cf.ThreadPoolExecutor(max_workers=6) as ex:
        for r in ex.map(one, range((len(rendered) + shard - 1) // shard)):
            res.extend(r)
    return res


COMPONENT = {0: "-", 1: "declared names of the written files differ from the model's (template skeleton)",
             2: "header line is not `// Code generated by \"shoot <args>\"; DO NOT EDIT.`",
             3: "model's name-level well-formedness verdict differs from the go build verdict"}


def exercise(run, shoot, declsig, pkgs, bit_fixed, modname="c01mod", root=None):
    """returns (cases, rendered, module dir)"""
    mod = l2.make_module(run, modname if root is None else root + "/" + modname)
    if root is not None:
        gm = (mod / "go.mod").read_text()
        (mod / "go.mod").write_text(gm.replace("module %s/%s" % (root, modname), "module " + modname))
    # every source first (shared sibling packages are read by goimports of concurrent runs), then the runs
    for pkg in pkgs:
        l2.write_files(mod / pkg.dir, pkg.files)
        l2.write_files(mod, pkg.extra)
    with cf.ThreadPoolExecutor(max_workers=6) as ex:
        allobs = list(ex.map(lambda p: run_pkg(shoot, mod, p), pkgs))
    ok, errs = l2.go_build(mod)
    gofiles = [p for p in mod.rglob("*.go")]
    sigs = declsigs(declsig, gofiles)
    cases, rendered = [], []
    for pkg, obs in zip(pkgs, allobs):
        d = mod / pkg.dir
        imp = "%s/%s" % (modname, pkg.dir)
        berr = [e for k, e in errs.items() if k == imp or k == "?"]
        build_ok = ok or imp not in errs
        if "?" in errs:
            build_ok = False
        for ri, (o, (args, data)) in enumerate(zip(obs, pkg.runs)):
            gofmt_ok = all(l2.gofmt_clean(d / f)[0] for f in o["written"] if (d / f).exists() or len(pkg.runs) == 1)
            case = {"pkg": pkg, "obs": o, "build_ok": build_ok, "gofmt_ok": gofmt_ok, "run_index": ri,
                    "types": (pkg.run_types[ri] if getattr(pkg, "run_types", None) else None),
                    "build_errors": [l for e in berr for l in e][:40]}
            cases.append(case)
            rendered.append((coq_case(pkg, o, sigs, d, build_ok, gofmt_ok, bit_fixed, data), list(data)))
    return cases, rendered, mod


# ------------------------------------------------------------------ findings
def witness_layout(w, k):
    """-> (files relative to the module, [(directory, args)] in execution order) or None when the recorded
    witness is prose rather than sources (then the finding is replayed by its own property's check only)"""
    d = "w%02d" % k
    if isinstance(w.get("files"), dict) and "cmd" in w:
        files = {"%s/%s" % (d, p): t for p, t in w["files"].items()}
        return files, [("%s/%s" % (d, w.get("dir", ".")), shlex.split(w["cmd"].split(";")[0])[1:])]
    if isinstance(w.get("pkg"), str) and "cmd" in w and re.match(r"package \w+\n", w["pkg"]):
        name = re.match(r"package (\w+)", w["pkg"]).group(1)
        cmd = w["cmd"].split(";")[0].split("(")[0].strip()
        return {"%s/%s/a.go" % (d, name): w["pkg"]}, [("%s/%s" % (d, name), shlex.split(cmd)[1:])]
    if "src" in w and "dest" in w and "args" in w:
        files = {d + "/src/src.go": w["src"].replace('"vmod/', '"c01wit/' + d + "/"),
                 d + "/dest/dest.go": w["dest"].replace('"vmod/', '"c01wit/' + d + "/")}
        if "common" in w:
            files[d + "/common/common.go"] = w["common"]
        steps = []
        if w.get("pre"):
            steps.append((d + "/dest", list(w["pre"])))
        steps.append((d + "/src", list(w["args"])))
        return files, steps
    return None


def replay_witnesses(run, shoot):
    """all findings that list C01 and carry sources: one module, one go build; returns {id: outcome}"""
    mod = l2.make_module(run, "c01wit")
    plans = {}
    for k, f in enumerate(run.findings()):
        lay = witness_layout(f.get("witness") or {}, k)
        if lay and f["id"] != "K_bit_map" and any("-bit" in a for _, args in lay[1] for a in args):
            # every -bit output fails to compile while K_bit_map is open (golden-locked): the compile verdict of
            # another -bit witness says nothing about that finding; it is replayed by C14 (through the shim)
            lay = None
        if lay:
            plans[f["id"]] = (k, lay)
            l2.write_files(mod, lay[0])

    def go(item):
        fid, (k, (files, steps)) = item
        rs = [l2.run_shoot(shoot, mod / d, args, timeout=20) for d, args in steps]
        return fid, rs
    with cf.ThreadPoolExecutor(max_workers=6) as ex:
        results = dict(ex.map(go, plans.items()))
    ok, errs = l2.go_build(mod)
    out = {}
    for fid, (k, (files, steps)) in plans.items():
        rs = results[fid]
        bad_build = any(("/w%02d/" % k) in (key + "/") or key.endswith("/w%02d" % k) for key in errs)
        if any(r["timed_out"] or r["panicked"] for r in rs):
            out[fid] = "buggy"
        elif rs[-1]["rc"] != 0:
            # shoot failing while formatting what it generated is the defect (exit 1 on an input of the grammar);
            # a refusal with a diagnostic of its own is a legitimate repair of a class that cannot be generated
            out[fid] = "buggy" if "format source" in rs[-1]["err"] else "correct"
        else:
            out[fid] = "buggy" if bad_build else "correct"
    return out


def failure_signature(case):
    """how a run failed, without positions: exit class + the compiler's messages for the package"""
    o = case["obs"]
    if o["timed_out"] or o["panicked"]:
        return ("abnormal",)
    if o["rc"] != 0:
        return ("exit", re.sub(r"[\w./-]*\.go:\d+:\d+", "", o["err"].strip().splitlines()[0] if o["err"].strip() else "")[:120])
    msgs = sorted({re.sub(r"^\S+\.go:\d+:\d+: ", "", l.strip()) for l in case["build_errors"] if ".go:" in l})
    return ("build", case["build_ok"], case["gofmt_ok"], tuple(msgs))


def errors_in_guarded_types(case, mask):
    """separate-file runs: does some compile error sit in the generated file of a type that is inside its guard?
    (the i-th data entry of the run is the i-th selected type; its file is <src>.shoot<cmd>.<lower T>.go)"""
    types = case.get("types") or []
    written = case["obs"]["written"]
    if len(written) < 2 or len(types) != len(case["pkg"].runs[case["run_index"]][1]):
        return False
    cmd = case["obs"]["args"][0]
    bad_files = {l.split(":")[0].split("/")[-1] for l in case["build_errors"] if ".go:" in l}
    for i, T in enumerate(types):
        if not (mask >> i) & 1:
            continue
        suffix = ".shoot%s.%s%s.go" % (cmd, "" if T[:1].isupper() else "_", T.lower())
        if any(f.endswith(suffix) for f in bad_files):
            return True
    return False


def main(run):
    proof_ok = run.prove("Properties/C01.v", ["Corr/GoWfCorr.v"])
    shoot = run.build_shoot()
    declsig = run.build_helper("declsig")
    wout = replay_witnesses(run, shoot)
    outcome = run.replay_findings({fid: (lambda e, o=o: o) for fid, o in wout.items()})
    bit_fixed = outcome.get("K_bit_map") == "correct"

    per = (220 if run.thorough() else 36)
    pkgs = []
    for name, fn in sorted(STREAMS.items()):
        pkgs += fn(run, per, bit_fixed)
    run.log("packages: %d" % len(pkgs))
    cases, rendered, mod = exercise(run, shoot, declsig, pkgs, bit_fixed)
    run.log("runs: %d" % len(cases))
    raw = evaluate(run, rendered)
    # Coq encodes a verdict as kind + 10 * component; for kind 8 / component 1 the component also carries the
    # mask of the run's types that are inside their generator guard: component = 1 + 10 * mask
    masks = {idx: (v // 10) // 10 for idx, v in raw if v % 10 == 8}
    mism_all = [(idx, (v % 10) * 10 + (v // 10) % 10) for idx, v in raw]
    outside = [idx for idx, v in mism_all if v // 10 == 9]
    # verdict 8: the property fails on an input of an excused class; excused ONLY while an open finding that owns
    # such a class reproduces on this tree for that subcommand (81) / while a name-collision finding reproduces (82)
    open_buggy = {f["id"] for f in run.findings() if f.get("status") != "fixed" and outcome.get(f["id"]) == "buggy"}
    name_classes = {"K_opt_short_collision", "K_ctor_method_name_collision", "K_ctor_camel_collision", "K_rest_unexported_iface"}
    by_cmd = {"new": ("K_ctor_", "K_opt_", "K_json_", "K_getset_"), "enum": ("K_enum_", "K_bit_"), "rest": ("K_rest_",), "map": ("K_map_",)}
    # precise excuse: the same runs are repeated with the shoot binary of the recorded baseline commit; a failing
    # case of an excused class stays excused only if the baseline fails on it with the same compiler messages
    cand = [idx for idx, v in mism_all if v // 10 == 8]
    base_sig, baseline = {}, None
    if cand:
        baseline = lib.build_baseline_shoot(run)
    if cand and baseline:
        bpk = []
        seen = set()
        for idx in cand:
            pk = cases[idx]["pkg"]
            if id(pk) not in seen:
                seen.add(id(pk))
                bpk.append(pk)
        bcases, _r, _m = exercise(run, baseline, declsig, bpk, bit_fixed, modname="c01mod", root="base")
        bykey = {(c["pkg"].dir, c["run_index"]): c for c in bcases}
        for idx in cand:
            b = bykey.get((cases[idx]["pkg"].dir, cases[idx]["run_index"]))
            base_sig[idx] = failure_signature(b) if b else None
    excused, unexcused = [], []
    for idx, v in mism_all:
        if v // 10 != 8:
            continue
        if baseline and base_sig.get(idx) != failure_signature(cases[idx]):
            # the baseline behaves differently on this very input (it compiles there, or fails otherwise): a regression
            cases[idx]["baseline_failure"] = base_sig.get(idx)
            unexcused.append((idx, v, []))
            continue
        cmd = cases[idx]["obs"]["args"][0]
        owners = (open_buggy & name_classes) if v == 82 else {k for k in open_buggy if k.startswith(by_cmd.get(cmd, ()))}
        if v == 81 and owners and errors_in_guarded_types(cases[idx], masks.get(idx, 0)):
            owners = set()      # a compile error in the file of a type that IS inside its guard: nothing excuses it
        (excused if owners else unexcused).append((idx, v, sorted(owners)))
    mism = [(idx, v) for idx, v in mism_all if v // 10 in (1, 2)] + [(idx, 20 + v % 10) for idx, v, _ in unexcused]
    for idx, v in mism[:5]:
        c = cases[idx]
        verdict, comp = v // 10, v % 10
        run.violation({"kind": "property-fails-on-implementation" if verdict == 2 else "correspondence-broken",
                       "theorem": "C01_enum_wf / C01_new_wf / C01_rest_wf / C01_map_wf / C01_files_compose",
                       "correspondence": "L2:C01:shoot run + declsig + gofmt + go build vs Model/GoWf.v",
                       "component": COMPONENT.get(comp, str(comp)),
                       "package": c["pkg"].name, "sources": c["pkg"].files, "extra": c["pkg"].extra,
                       "command": "shoot " + " ".join(c["obs"]["args"]), "observed": c["obs"],
                       "go_build_ok": c["build_ok"], "gofmt_clean": c["gofmt_ok"], "build_errors": c["build_errors"],
                       "baseline_failure_on_the_same_input": c.get("baseline_failure", "n/a"),
                       "dir": c["pkg"].dir, "coq_case": rendered[idx][0], "coq_data": [list(x) for x in rendered[idx][1]]},
                      no_input=(verdict != 2))
    if not proof_ok and not mism:
        run.proof_failure_violation()

    feats, modes, cmds = {}, {}, {}
    distinct = set()
    for c in cases:
        a = c["obs"]["args"]
        mode = "star" if "-type=*" in a else "file" if any(x.startswith("-file=") for x in a) else \
            "list" if any(x.startswith("-type=") and "," in x for x in a) else "single"
        modes[mode] = modes.get(mode, 0) + 1
        cmds[a[0]] = cmds.get(a[0], 0) + 1
        flags = tuple(sorted(x for x in a[1:] if not x.startswith(("-type=", "-file=", "-path="))))
        distinct.add((a[0], mode, flags, len(c["obs"]["written"])))
        for f in c["pkg"].features:
            feats[f] = feats.get(f, 0) + 1
    cov = {
        "evaluations": len(cases),
        "distinct_nontrivial": len(distinct),
        "rule": ("packages from the spec generators of the subcommands %s, each run of shoot is one case; "
                 "distinct = distinct (subcommand, selection mode, flag set, number of files written); every case "
                 "is non-trivial in that the run wrote at least one file that was parsed, gofmt-checked and compiled "
                 "with its package.  -bit outputs are %s." %
                 (sorted(STREAMS), "included" if bit_fixed else
                  "excluded from the stream while the open finding K_bit_map reproduces (replayed above)")),
        "programs": len(pkgs),
        "traces_validated_against_impl": len(cases),
        "selection_modes": modes, "subcommands": cmds, "features": feats,
        "exit_nonzero_cases": sum(1 for c in cases if c["obs"]["rc"] != 0),
        "cases_outside_the_guards_not_compared": len(outside),
        "outside_generator_guards_property_holds": sum(1 for i, v in mism_all if v == 91),
        "outside_generator_guards_property_fails_excused_by_open_findings": [
            {"command": "shoot " + " ".join(cases[i]["obs"]["args"]), "package": cases[i]["pkg"].name, "open_findings_of_the_class": o}
            for i, v, o in excused if v == 81][:12],
        "name_collision_class_property_fails_excused_by_open_findings": [
            {"command": "shoot " + " ".join(cases[i]["obs"]["args"]), "package": cases[i]["pkg"].name, "open_findings_of_the_class": o}
            for i, v, o in excused if v == 82][:12],
        "excused_cases": len(excused),
        "excuses_checked_against_baseline": (open(lib.VERIF / "baseline_commit").read().split()[0] if baseline else "no baseline available: excused by class only"),
        "findings_measured": outcome,
        "samples": [{"package": c["pkg"].name, "command": "shoot " + " ".join(c["obs"]["args"]),
                     "written": c["obs"]["written"], "go_build_ok": c["build_ok"], "gofmt_clean": c["gofmt_ok"],
                     "sources": c["pkg"].files} for c in cases[:2]],
        "trusted_base": lib.TRUSTED_BASE_COMMON + [
            "PARTIAL: Go's type checker is abstracted by the name-level wf of Model/GoWf.v; assignability of the "
            "generated expressions and gofmt-cleanliness are observed on every generated package (go build, gofmt -l), "
            "not proved",
            "the template skeletons (which names a file declares as a function of the template data) are read off "
            "the four templates by hand and compared with the declared names of every file written (declsig)",
            "template data (constant lists, field lists, method lists) is computed from the spec by the generator "
            "models (Model/Enum.v, ...), themselves tied to the code by their own checks",
        ],
    }
    return run.finish(cov, assumptions=[
        "inputs stay inside the guards of the theorems: the hand-written package does not already declare a name "
        "the generated file declares; classes of the open findings (K_bit_map, K_opt_short_collision, "
        "K_rest_unexported_iface, ...) are replayed as witnesses and kept out of the comparison stream",
    ])


def replay(run, path):
    r = json.load(open(path))
    run.prove("Properties/C01.v", ["Corr/GoWfCorr.v"])
    if "sources" not in r:
        print("nothing to replay (no concrete input in %s)" % path)
        return 0
    shoot = run.build_shoot()
    declsig = run.build_helper("declsig")
    pkg = Pkg(r["package"], r["sources"], [(r["observed"]["args"], [tuple(x) for x in r["coq_data"]])],
              extra=r.get("extra"), dir=r.get("dir"))
    bitfix = "c_bit_fixed := true" in r["coq_case"]
    cases, rendered, mod = exercise(run, shoot, declsig, [pkg], bitfix, modname="c01mod")
    mism = [(i, v) for i, v in evaluate(run, rendered) if v // 10 != 9]
    print("observed:", json.dumps(cases[0]["obs"]), "build_ok:", cases[0]["build_ok"], "verdict:", mism)
    if mism:
        print("VIOLATION property=C01 replay=%s" % path)
        return 1
    return 0
