#!/usr/bin/env python3
"""Development runner for the enum checks: like bin/check, but builds the Coq
files of the property WITHOUT taking the shared make lock (the enum files depend
only on the Coq standard library and are built by nobody else), so that a long
build of somebody else's files does not block iterating.  Not used by the
registered commands (bin/check uses lib.Run.prove unchanged).

    harness/enum_dev.py C04 quick|thorough"""
import importlib
import sys
from pathlib import Path

ROOT = Path(__file__).resolve().parent.parent
sys.path.insert(0, str(ROOT / "harness"))
import lib  # noqa: E402

ORDER = ["Model/Enum.v", "Proofs/EnumCollect.v", "Proofs/EnumBits.v", "Proofs/EnumTables.v", "Proofs/EnumProofs.v",
         "Corr/EnumCorr.v", "Proofs/EnumPb.v", "Properties/C04.v", "Properties/C12.v", "Properties/C14.v"]


class DevRun(lib.Run):
    def coq_make(self, targets):
        log = ""
        for f in ORDER:
            src, vo = lib.COQ / f, (lib.COQ / f).with_suffix(".vo")
            deps = [lib.COQ / d for d in ORDER[:ORDER.index(f)] if not d.startswith("Properties")]
            stale = (not vo.exists()) or vo.stat().st_mtime < src.stat().st_mtime or \
                any(d.with_suffix(".vo").stat().st_mtime > vo.stat().st_mtime for d in deps if d.with_suffix(".vo").exists())
            if f.startswith("Properties") and (f[:-2] + ".vo") not in targets:
                continue
            if stale:
                rc, out, err = lib.sh(["coqc", "-Q", str(lib.COQ), "Shoot", f], cwd=lib.COQ, timeout=3000)
                log += out + err
                if rc != 0:
                    return False, log
        return True, log


def main():
    prop, tier = sys.argv[1], sys.argv[2]
    mod = importlib.import_module(prop.lower())
    run = DevRun(prop, tier)
    try:
        return mod.main(run)
    except lib.CheckBroken as e:
        print("CHECK-BROKEN property=%s %s" % (prop, e), file=sys.stderr)
        return 3


if __name__ == "__main__":
    sys.exit(main())
