"""C09  map: ToX/FromX never panic and FromX fully resets its receiver.

Theorems: coq/Properties/C09.v.  Correspondence: the src/dest pairs of C05
(harness/mapgen.py), executed on NIL-SATURATED values: every assignment of
nil / non-nil to the pointers, embedded pointers, slices and slice elements of
the input (all 2^k patterns up to k = 6 positions, sampled beyond), FromX on a
nil receiver, a zero receiver and a dirty receiver.  Observed panic / nil /
value are compared inside Coq with the model and with the property itself."""
import collections
import itertools
import json

import lib
import mapgen
import mapharness as mh
import c05

PROP_FILE = "Properties/C09.v"
CORR = ["Corr/MapperCorr.v"]


def patterns(rng, pos, limit_exhaustive=6, nsample=40):
    """subsets of the nil-able positions to set to nil"""
    k = len(pos)
    if k <= limit_exhaustive:
        return [frozenset(p for p, b in zip(pos, bits) if b) for bits in itertools.product([0, 1], repeat=k)], True
    res = {frozenset(), frozenset(pos)}
    for p in pos:
        res.add(frozenset([p]))
        res.add(frozenset(pos) - {p})
    while len(res) < nsample + 2 * k + 2:
        pr = rng.choice([0.2, 0.5, 0.8])
        res.add(frozenset(p for p in pos if rng.random() < pr))
    return sorted(res, key=lambda s: (len(s), sorted(map(str, s)))), False


def gen_cases(run, spec, budget):
    rng = run.rng
    way = spec["flags"]["way"]
    cases = []
    stats = {"exhaustive": 0, "sampled": 0, "positions": []}
    for j in spec["jobs"]:
        sty, dty = mh.root_types(spec, j["src"])
        is_root = j["src"] == spec["root"]
        for direction, t in (("to", sty), ("from", dty)):
            if (direction == "to" and way == "fromonly") or (direction == "from" and way == "toonly"):
                continue
            pos = mapgen.nil_positions(spec, t)
            pats, exh = patterns(rng, pos, 6 if is_root else 4, budget if is_root else 8)
            if is_root:
                stats["exhaustive" if exh else "sampled"] += 1
                stats["positions"].append(len(pos))
            for k, nils in enumerate(pats):
                sent = mapgen.Sentinels(rng)
                v = mapgen.gen_value_pattern(rng, spec, t, nils, sent)
                c = {"dir": direction, "type": j["src"], "in": v, "recv": None, "nils": len(nils)}
                if direction == "from":
                    r = k % 3
                    if r == 1:     # zero receiver
                        c["recv"] = mapgen.gen_value_pattern(rng, spec, sty, frozenset(mapgen.nil_positions(spec, sty)),
                                                             ZeroSentinels())
                    elif r == 2:   # dirty receiver, everything allocated
                        c["recv"] = mapgen.gen_value(rng, spec, sty, 0.0, sent)
                cases.append(c)
            # nil receiver / nil argument
            cases.append({"dir": direction, "type": j["src"], "in": None, "recv": None, "nils": -1})
            if direction == "from":
                cases.append({"dir": "from", "type": j["src"], "in": None,
                              "recv": mapgen.gen_value(rng, spec, sty, 0.0, mapgen.Sentinels(rng)), "nils": -1})
    return cases, stats


class ZeroSentinels:
    def int(self, kind, vc):
        return 0

    def str(self, vc):
        return b""


def recv_pairs(run, pairs, tag):
    """FromX(d) on a dirty and on a nil receiver must give equal observations (computed in Coq)"""
    terms, index = [], []
    for p in pairs:
        if p.status != "ok":
            continue
        groups = {}
        for ci, c in enumerate(p.cases):
            if c["dir"] == "from" and "twin" in c:
                groups.setdefault(c["twin"], []).append(ci)
        for g in groups.values():
            if len(g) == 2:
                a, b = p.cases[g[0]], p.cases[g[1]]
                terms.append("(%s, %s)" % (mh.coq_obs(a["obs"]), mh.coq_obs(b["obs"])))
                index.append((p.idx, g[0], g[1]))
    if not terms:
        return [], 0
    res = []
    for lo in range(0, len(terms), 300):
        body = (mh.HEADER + "Definition L : list (obs * obs) := [\n%s\n].\n"
                "Definition M := Eval vm_compute in recv_mismatches L.\nPrint M.\n" % ";\n".join(terms[lo:lo + 300]))
        out = run.coq_eval("%s_recv_%d" % (tag, lo), body)
        res += [index[lo + i] for i, _ in lib.parse_coq_list_pairs(out, "M")]
    return res, len(terms)


def main(run):
    proof_ok = run.prove(PROP_FILE, CORR)
    shoot = run.build_shoot()
    run.replay_findings({k: (lambda f: mh.witness_outcome(run, shoot, f))
                         for k in ("K_map_ctor_func_nil_receiver", "K_map_ctor_arg_unguarded", "K_map_promoted_accessor_nil",
                                   "K_map_mapper_ptr_embedded")})
    npairs = 300 if run.thorough() else 40
    budget = 64 if run.thorough() else 24
    fixed = mapgen.corpus()
    pairs = []
    stats = collections.Counter()
    positions = []
    for i in range(npairs):
        if i < len(fixed):
            spec = fixed[i]
        else:
            # C09 is about nil positions: take a pair whose root has at least two of them on either side
            for _ in range(10):
                spec = mapgen.gen_pair(run.rng, quirks=(i % 10 == 9))
                sty0, dty0 = mh.root_types(spec, spec["root"])
                w0 = spec["flags"]["way"]     # only the side a generated direction READS counts
                if (w0 != "fromonly" and len(mapgen.nil_positions(spec, sty0)) >= 2) or \
                   (w0 != "toonly" and len(mapgen.nil_positions(spec, dty0)) >= 2):
                    break
        p = mh.Pair(i, spec)
        p.cases, st = gen_cases(run, spec, budget)
        p.max_positions = max(st["positions"]) if st["positions"] else 0
        p.is_corpus = i < len(fixed)
        stats["exhaustive"] += st["exhaustive"]
        stats["sampled"] += st["sampled"]
        positions += st["positions"]
        # twins: the same argument on a nil receiver and on a dirty one
        extra = []
        for ci, c in enumerate(p.cases):
            if c["dir"] == "from" and c["in"] is not None and c["recv"] is None and run.rng.random() < 0.35:
                c["twin"] = ci
                sty, _ = mh.root_types(spec, c["type"])
                d = dict(c)
                d["recv"] = mapgen.gen_value(run.rng, spec, sty, 0.2, mapgen.Sentinels(run.rng))
                extra.append(d)
        p.cases += extra
        pairs.append(p)
    mh.execute(run, pairs, shoot=shoot, par=4, tag="c09")
    uncert = []
    gen = {}
    verdicts, guards = mh.coq_verdicts(run, pairs, tag="c09", shard_cases=220, par=4, fn="mismatches09", cert=uncert, gen=gen)
    c05.report(run, pairs, verdicts, guards,
               "C09_no_panic_to / C09_no_panic_from / C09_nil_in_nil_out / C09_receiver_irrelevant",
               "L2:C09:generated ToX/FromX on nil-saturated values vs Model/MapperEval.v")
    bad_twins, ntwins = recv_pairs(run, pairs, "c09")
    idx = {p.idx: p for p in pairs}
    for pi, ci in uncert[:2]:
        run.violation(mh.replay_dict(idx[pi], ci, 1, {
            "kind": "the plans of this pair do not pass plans_safe (or the input is not well typed): "
                    "C09_no_panic_to/from does not apply", "theorem": "C09_no_panic_to / C09_no_panic_from"}), no_input=True)
    for pi in [i for i, v in sorted(gen.items()) if v == 2][:2]:
        run.violation(mh.replay_dict(idx[pi], None, 2, {
            "kind": "the pair is inside gen_guard but its evaluated plans do not pass plans_safe: the rendering breaks a "
                    "hypothesis of C09_generated_plans_safe", "theorem": "C09_generated_plans_safe"}), no_input=True)
    for pi, a, b in bad_twins[:2]:
        run.violation(mh.replay_dict(idx[pi], a, 2, {"kind": "FromX result depends on the receiver's previous content",
                                                     "theorem": "C09_receiver_irrelevant", "other_case": idx[pi].cases[b]}))
    if not proof_ok and not run.violations:
        run.proof_failure_violation()
    ok_pairs = [p for p in pairs if p.status == "ok"]
    ncases = sum(len(p.cases) for p in ok_pairs)
    # pairs of the class of K_map_mapper_ptr_embedded: compared with the literal model only, never certified
    hop_cases = sum(len(p.cases) for p in ok_pairs
                    if any(mapgen.mapper_hop(p.spec, j["src"]) != "None" for j in p.spec["jobs"]))
    distinct = set()
    for p in ok_pairs:
        for c in p.cases:
            if c.get("nils", 0) > 0:
                distinct.add(mh.dumps([p.idx, c["dir"], c["type"], c["in"], c["recv"] is None]))
    obs = collections.Counter(c["obs"][0] for p in ok_pairs for c in p.cases)
    sample = []
    for p in ok_pairs[:1]:
        cs = [c for c in p.cases if c.get("nils", 0) > 1][:2]
        sample.append({"shoot_args": mapgen.shoot_args(p.spec), "src.go": p.sources["%s/src/src.go" % p.sub],
                       "dest.go": p.sources["%s/dest/dest.go" % p.sub], "cases": cs})
    feats = collections.Counter()
    for p in pairs:
        for f in p.spec["features"]:
            if f.startswith(("embed", "sub", "each", "quirk", "corpus")):
                feats[f] += 1
    cov = {
        "evaluations": ncases,
        "distinct_nontrivial": len(distinct),
        "rule": ("%d src/dest pairs (the 28 corpus pairs + random pairs of harness/mapgen.py, as in C05); for the root type and "
                 "every inner mapped type, in each generated direction: all 2^k assignments of nil/non-nil to the k nil-able "
                 "positions of the input (pointers, embedded pointers at depth 1 and 2, slices, maps, the first two elements of "
                 "slices of pointers/structs, recursively through sub-structs) when k <= 6, otherwise none/all/each single/each "
                 "all-but-one plus %d random patterns; FromX alternately on a nil, a zero and a fully allocated dirty receiver; "
                 "nil receiver and nil argument; a third of the FromX cases twice (nil and dirty receiver) to compare the "
                 "results with each other; non-trivial = distinct case with at least one nil position" % (len(pairs), budget)),
        "samples": sample,
        "traces_validated_against_impl": ncases,
        "programs": 2 * len(ok_pairs) + 1,
        "pairs": len(pairs), "pairs_compiled": len(ok_pairs),
        "pairs_in_guard": sum(1 for p in ok_pairs if guards.get(p.idx)),
        "roots_exhaustive_patterns": stats["exhaustive"], "roots_sampled_patterns": stats["sampled"],
        "nil_positions_per_root": dict(sorted(collections.Counter(positions).items())),
        "roots_with_zero_positions": sum(1 for k in positions if k == 0),
        "pairs_where_both_sides_have_zero_positions": {
            "random": sum(1 for p in pairs if not p.is_corpus and p.max_positions == 0),
            "corpus": sum(1 for p in pairs if p.is_corpus and p.max_positions == 0)},
        "max_positions_per_pair": dict(sorted(collections.Counter(p.max_positions for p in pairs).items())),
        "receiver_twins_compared": ntwins,
        "cases_certified_by_theorem": ncases - len(uncert) - hop_cases,
        "cases_in_pointer_mapper_pairs_not_certified": hop_cases,
        "pairs_in_gen_guard": sum(1 for p in ok_pairs if gen.get(p.idx) == 1),
        "pairs_outside_gen_guard": sum(1 for p in ok_pairs if gen.get(p.idx, 0) == 0),
        "observations": dict(obs),
        "features": dict(sorted(feats.items())),
    }
    return run.finish(cov, assumptions=c05.ASSUMPTIONS + [
        "values are trees: no aliasing between the argument and the receiver, no cyclic values",
        "panics inside user code (mapper methods, manual toX/fromX) are outside the property",
    ])


def replay(run, path):
    r = json.load(open(path))
    run.prove(PROP_FILE, CORR)
    shoot = run.build_shoot()
    p = mh.Pair(0, r["spec"])
    if r.get("case"):
        c = dict(r["case"])
        c.pop("obs", None)
        p.cases = [c]
    else:
        p.cases, _ = gen_cases(run, r["spec"], 16)
    mh.execute(run, [p], shoot=shoot, tag="replay")
    if p.status != "ok":
        print("pair status:", p.status, p.shoot, p.errors)
        print("VIOLATION property=C09 replay=%s" % path)
        return 1
    v, g = mh.coq_verdicts(run, [p], tag="replay", fn="mismatches09")
    print("observed:", [c["obs"] for c in p.cases][:3], "verdicts:", v, "in guard:", g)
    if v:
        print("VIOLATION property=C09 replay=%s" % path)
        return 1
    return 0
