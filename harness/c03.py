"""C03  shoot new -getset: accessors exist exactly as directed and round-trip.

Theorems: coq/Properties/C03.v (model coq/Model/CtorGetSet.v on top of Model/Ctor.v).
Correspondence (coq/Corr/CtorGetSetCorr.v): struct packages from harness/ctorgen.py with get/set
field directives and getter/setter type directives, run through `shoot new -getset -type=<order>`
(once, or twice so that the second run sees the first run's output); go/types
(harness/go/cmd/ctoracc) reports the methods declared on T, the method set of *T, the interfaces
<T>Getter/<T>Setter (embedded, explicit, complete method set, whether *T implements them); an
in-package oracle calls every setter of *T's method set on NewT(sentinels) and on the zero value,
then reads every leaf by its full path and calls every getter."""
import json

import lib
import l2
import ctorgen
import ctorlib
import ctoracc
import ctor_findings
import ctordirective_l1
import transfer_l1
import c02

FUEL = 8
THEOREMS = ("C03_accessor_table / C03_emitted_accessors / C03_exported_directive_is_fatal / C03_get_after_set / "
            "C03_setter_frame / C03_interface_method_set / C03_pointer_receiver_satisfies")
CORR = "Model.CtorGetSet Corr.CtorCorr Corr.CtorGetSetCorr"

VERIF_SET = '''
func verifSet(key string, fn any, i int) {
	f := reflect.ValueOf(fn)
	a := ort.Sentinel(f.Type().In(0), i)
	ort.Note("A", key, ort.Tok(a.Interface()))
	f.Call([]reflect.Value{a})
}
'''


# ------------------------------------------------------------------ generation
def _sd(name, fields, comment=()):
    return {"pkg": "", "name": name, "tparams": [], "doc": ctorgen.doc_text(list(comment)), "comment": list(comment),
            "fields": fields}


def fixed_corpus():
    """fixed cases at the head of every run.  Zed is declared BEFORE Alpha, which embeds it (the good order), and sorts AFTER
    it: when the tool picks the types itself (-file= / -type=*) it must take them in declaration order, on a fresh directory
    AlphaGetter/AlphaSetter embed ZedGetter/ZedSetter"""
    res = []
    for i, sel in enumerate(["file", "star"]):
        zed = _sd("Zed", [ctorgen.fdecl(["z"], ctorgen.T_basic("int"))])
        mid = _sd("Mike", [ctorgen.fdecl([], ctorgen.T_named("", "Zed")), ctorgen.fdecl(["m"], ctorgen.T_basic("bool"), ["//shoot: get"])])
        alpha = _sd("Alpha", [ctorgen.fdecl([], ("ptr", ctorgen.T_named("", "Mike")) if i else ctorgen.T_named("", "Zed")),
                              ctorgen.fdecl(["a"], ctorgen.T_basic("string"))])
        structs = [zed, mid, alpha] if i else [zed, alpha]
        pkg = {"name": "g%03d" % i, "structs": structs, "extra_decls": [], "features": {}, "select": sel}
        res.append(pkg)
    # a type-level directive on a GROUPED declaration holds for every struct of the group, not only for the first
    for i, d in enumerate(["// shoot: getter", "// shoot: setter"]):
        first = _sd("First", [ctorgen.fdecl(["a"], ctorgen.T_basic("int")), ctorgen.fdecl(["b"], ctorgen.T_basic("string"), ["//shoot: set"])])
        second = _sd("Second", [ctorgen.fdecl(["c"], ctorgen.T_basic("bool")),
                                ctorgen.fdecl(["d"], ctorgen.T_basic("int"), ["//shoot: get;set"])] +
                     ([ctorgen.fdecl([], ctorgen.T_named("", "First"))] if i else []))
        third = _sd("Third", [ctorgen.fdecl(["e"], ctorgen.T_basic("uint8"), ["//shoot: get"]), ctorgen.fdecl(["f"], ctorgen.T_basic("string"))])
        for sd in (first, second, third):
            sd["doc"] = ctorgen.doc_text([d])
        res.append({"name": "g%03d" % (2 + i), "structs": [first, second, third], "extra_decls": [], "features": {},
                    "select": "list", "groups": [{"names": ["First", "Second", "Third"], "comment": [d]}]})
    # the ONLY embedded fields of the run are instances of generic shoot types (value and pointer): the outer accessor
    # interfaces embed BoxGetter[int] / PairSetter[string, T] ... of the types generated earlier in the same run
    B, N, f = ctorgen.T_basic, ctorgen.T_named, ctorgen.fdecl
    box = _sd("Box", [f(["v"], ("param", "T")), f(["n"], B("int"), ["//shoot: get"])])
    box["tparams"] = [{"names": ["T"], "con": ("ident", "any")}]
    holder = _sd("Holder", [f([], N("", "Box", [B("int")])), f(["w"], B("string"))])
    res.append({"name": "g004", "structs": [box, holder], "extra_decls": [], "features": {}, "select": "list"})
    pair = _sd("Pair", [f(["k"], ("param", "K"), ["//shoot: get;set"]), f(["val"], ("param", "V"))])
    pair["tparams"] = [{"names": ["K"], "con": ("ident", "comparable")}, {"names": ["V"], "con": ("ident", "any")}]
    outer = _sd("Outer", [f([], ("ptr", N("", "Pair", [B("string"), ("param", "T")]))), f(["o"], B("bool"), ["//shoot: set"])])
    outer["tparams"] = [{"names": ["T"], "con": ("ident", "any")}]
    res.append({"name": "g005", "structs": [pair, outer], "extra_decls": [], "features": {}, "select": "file"})
    # a read-only type (multi-line field doc with a directive, accessors of named types, a declaration with exported and
    # unexported names) processed before a type WITHOUT any doc comment, embedded by value and by pointer by TWO later
    # types; both kinds on one type directive line
    acc = _sd("Acc", [f(["timeout"], N("time", "Duration"), ["// the timeout of one call", "//shoot: get"]),
                      f(["kind"], N("helper", "Kind"), ["//shoot: set", "// (write side)"]),
                      f(["Label", "note"], B("string"))], ["// shoot: getter"])
    plain = _sd("Plain", [f([], N("", "Acc")), f(["p"], B("int"))])
    third = _sd("Third", [f([], ("ptr", N("", "Acc"))), f(["q"], B("bool"), ["//shoot: get"])])
    both = _sd("Both", [f(["Owner", "memo"], B("string")), f([], N("", "Plain")), f(["r"], B("int"), ["//shoot: set"])],
               ["// shoot: getter;setter"])
    res.append({"name": "g006", "structs": [acc, plain, third, both], "extra_decls": [], "features": {}, "select": "list"})
    # a shoot type, then a struct whose name differs from it only in the case of the first letter, then a type embedding
    # the first one, in one merged-mode run (the per-type overlay names must stay distinct: x.shootnew.base.go and
    # x.shootnew._base.go); field names with a letter directly after a digit (x2y -> X2y / SetX2y)
    for i, sel in enumerate(["file", "star"]):
        base = _sd("Base", [f(["z"], B("int")), f(["x2y"], B("string"), ["//shoot: get;set"])])
        low = _sd("base", [f(["k"], B("int")), f(["sha256sum"], B("string"))])
        son = _sd("Son", [f([], N("", "Base")) if i == 0 else f([], ("ptr", N("", "Base"))), f(["utf8name"], B("bool"))])
        res.append({"name": "g%03d" % (7 + i), "structs": [base, low, son], "extra_decls": [], "features": {}, "select": sel})
    return res


DIGIT_NAMES = ["x2y", "sha256sum", "utf8name", "v1beta"]


def add_digit_names(rng, pkg, p=0.3):
    """an unexported accessor field whose name has a letter directly after a digit"""
    if rng.random() >= p:
        return
    sd = rng.choice(pkg["structs"])
    used = set(n for x in pkg["structs"] for fd in x["fields"] for n in fd["names"])
    n = rng.choice(DIGIT_NAMES)
    if n not in used:
        sd["fields"].insert(rng.randrange(0, len(sd["fields"]) + 1),
                            ctorgen.fdecl([n], ctorgen.T_basic(rng.choice(["int", "string"])),
                                          rng.choice([[], ["//shoot: get"], ["//shoot: set;get"]])))


def decl_order_not_sorted(pkg):
    """some struct embeds (directly) a struct of the package whose name sorts after its own"""
    own = set(sd["name"] for sd in pkg["structs"])
    return any(not fd["names"] and ctorgen.short_name(fd["ty"]) in own and ctorgen.short_name(fd["ty"]) > sd["name"]
               for sd in pkg["structs"] for fd in sd["fields"])


def gen_packages(run, n):
    pkgs, stats = [], {"regenerated": 0, "outside_guard_kept": 0, "fatal_expected": 0, "embed_order_class": 0,
                   "grouped_declarations": 0, "selected_by_file": 0, "selected_by_star": 0,
                   "tool_selected_with_embedded_sorting_after_embedder": 0}

    def finish(pkg, classes, fatal=False):
        pkg["classes"] = classes
        pkg["complete_order"] = ctoracc.complete_order(pkg, pkg["order"])
        sel = pkg.get("select") or "list"
        stats["selected_by_file"] += 1 if sel == "file" else 0
        stats["selected_by_star"] += 1 if sel == "star" else 0
        stats["tool_selected_with_embedded_sorting_after_embedder"] += 1 if sel != "list" and decl_order_not_sorted(pkg) else 0
        stats["outside_guard_kept"] += 1 if "out" in classes else 0
        stats["embed_order_class"] += 1 if (pkg["rounds"] == 1 and not pkg["complete_order"]) else 0
        stats["grouped_declarations"] += 1 if pkg.get("groups") else 0
        stats["fatal_expected"] += 1 if fatal else 0
        pkgs.append(pkg)

    if n >= 20:
        for pkg in fixed_corpus():
            pkg["order"] = [sd["name"] for sd in pkg["structs"]]
            pkg["rounds"] = 1
            finish(pkg, [ctoracc.precheck(pkg, sd, pkg["order"]) for sd in pkg["structs"]])
    forced = len(pkgs) + (4 if n >= 20 else 0)
    k = 0
    while len(pkgs) < n:
        k += 1
        name = "g%03d" % len(pkgs)
        # the next packages: generated, inside the guard, the tool selects the types (-file= / -type=* alternating) on a
        # fresh directory, and an embedded struct's name sorts after its embedder's
        force = len(pkgs) < forced and k < 40 * n
        style = run.rng.random()
        if force:
            style = 0.5
        opts = {}
        if style < 0.12:
            opts = dict(p_embed=0.0, p_generic=0.3)
        elif style < 0.72:
            opts = dict(p_embed=0.95, nstructs=run.rng.choice([3, 4, 4, 5, 5]))     # chains: several embedded interfaces
        else:
            opts = dict(p_embed=0.8)
        fatal = run.rng.random() < 0.04 and not force
        pkg = ctoracc.gen_acc_pkg(run.rng, name, p_exported_dir=0.5 if fatal else 0.0, **opts)
        add_digit_names(run.rng, pkg)
        names = [sd["name"] for sd in pkg["structs"]]
        r = run.rng.random()
        sel = "list" if r < 0.76 else ("file" if r < 0.88 else "star")
        if force:
            sel = "file" if len(pkgs) % 2 == 0 else "star"
        selected = list(names)
        if sel == "list" and len(names) > 2 and run.rng.random() < 0.2:
            selected.remove(run.rng.choice(names))
        classes = [ctoracc.precheck(pkg, sd, selected) for sd in pkg["structs"]]
        if force and (set(classes) != {"in"} or not decl_order_not_sorted(pkg)):
            stats["regenerated"] += 1
            continue
        if "bad" in classes or (classes.count("out") and run.rng.random() < 0.8):
            stats["regenerated"] += 1
            if k < 60 * n:
                continue
        order = list(selected)                       # declaration order = dependency order
        if sel == "list" and run.rng.random() < 0.25:
            run.rng.shuffle(order)                   # possibly a struct before one it embeds: the K_embed_order class
        pkg["order"] = order                         # -file= / -type=*: every struct of the file, in declaration order
        pkg["select"] = sel
        pkg["rounds"] = 2 if (sel == "list" and run.rng.random() < 0.2) else 1
        ctoracc.add_groups(run.rng, pkg)
        if sel != "list":
            pkg["order"] = ctoracc.decl_order(pkg)   # a grouped declaration moves its structs together (textual order)
        finish(pkg, classes, fatal)
    return pkgs, stats


# ------------------------------------------------------------------ oracle text
def reads_code(lf, kind, var="v"):
    out = []
    for p, _ in lf:
        path = ".".join(p)
        out.append('\t\tort.Read("%s", %s, func() any { return %s.%s })' % (kind, json.dumps(path), var, path))
    return out


def oracle_for_struct(pkg, sd, inst, setters, getters, entries, key):
    T = sd["name"] + ctorlib.inst_suffix(inst)
    lf, em = ctoracc.leaves(pkg, sd, inst)
    lines, runs = [], []
    for entry in entries:
        for k, s in enumerate(setters):
            cid = "%s.%s#%d#%d" % (key[0], key[1], entry, k)
            runs.append((cid, entry, s))
            if entry == 0:
                lines.append('\tort.Case(%s, New%s, 0, func(r any) {' % (json.dumps(cid), T))
                lines.append('\t\tv := r.(*%s)' % T)
            else:
                lines.append('\tort.Block(%s, func() {' % json.dumps(cid))
                lines.append('\t\tv := &%s{}' % T)
            lines.append('\t\t_ = v')
            lines += reads_code(lf, "B")
            lines.append('\t\tverifSet("tok", v.%s, 100)' % s)
            lines += reads_code(lf, "P")
            for g in getters:
                lines.append('\t\tort.Read("G", %s, func() any { return v.%s() })' % (json.dumps(g), g))
            lines.append('\t})')
    return "\n".join(lines) + ("\n" if lines else ""), runs


def oracle_file(pkg, body, needs_time, needs_helper, modname):
    imps = ['"reflect"', 'ort "%s/ort"' % modname]
    if needs_time:
        imps.append('"time"')
    if needs_helper:
        imps.append('"%s/helper"' % modname)
    head = "package %s\n\nimport (\n%s)\n\n" % (pkg["name"], "".join("\t%s\n" % i for i in imps))
    use = ""
    if needs_time:
        use += "var _ time.Duration\n"
    if needs_helper:
        use += "var _ helper.Kind\n"
    return head + use + VERIF_SET + "\nfunc VerifOracle() {\n" + body + "}\n"


# ------------------------------------------------------------------ observation
def iface_obs(ii):
    if ii is None:
        return None
    return {"embeds": list(ii["embeds"]), "explicit": [tuple(r) for r in ii["explicit"]],
            "methods": [tuple(r) for r in ii["methods"]], "impl": ii["impl"] == "yes"}


def observe(run, shoot, accbin, modname, pkgs, extra_flags=()):
    mod = ctorlib.setup_module(run, modname)
    jobs = []
    for pkg in pkgs:
        pkg["flags_for_generate_line"] = ["new", "-getset"] + list(extra_flags)
        l2.write_files(mod / pkg["name"], ctoracc.render_go(pkg, modname))
        args = ctoracc.select_args(pkg, ctoracc.source_name(pkg, modname), ["new", "-getset"] + list(extra_flags))
        pkg["args"] = args
        jobs.append((pkg["name"], args))
    res = ctorlib.run_shoot_pkgs(shoot, mod, jobs)
    again = [(i, j) for i, (j, r, p) in enumerate(zip(jobs, res, pkgs)) if p["rounds"] == 2 and r["rc"] == 0]
    if again:
        res2 = ctorlib.run_shoot_pkgs(shoot, mod, [j for _, j in again])
        for (i, _), r in zip(again, res2):
            res[i] = r
    run.log("shoot ran on %d packages (%d of them twice)" % (len(pkgs), len(again)))
    sigs = ctoracc.run_ctoracc(accbin, mod)
    run.log("ctoracc done")
    obs, bodies = {}, {}
    for pkg, r in zip(pkgs, res):
        info = sigs.get("%s/%s" % (modname, pkg["name"]))
        pkg["shoot"] = {"rc": r["rc"], "out": r["out"][-600:], "err": r["err"][-600:], "timed_out": r["timed_out"]}
        status = 2 if r["timed_out"] else (1 if r["rc"] != 0 else 0)
        pkg["status"] = status
        errs = (info or {}).get("errors", ["ctoracc did not report the package"])
        pkg["type_errors"] = errs
        body = ""
        for sd in pkg["structs"]:
            if sd["name"] not in pkg["order"]:
                continue
            key = (pkg["name"], sd["name"])
            o = {"name": sd["name"], "status": 0, "own": [], "mset": [], "getter": None, "setter": None, "runs": []}
            obs[key] = o
            if status != 0:
                o["status"] = 5
                continue
            if errs:
                # every compile error goes to the struct whose generated declarations contain its position; an error that
                # belongs to no struct counts against all of them (3), errors of sibling types only give 5
                if "_attr" not in pkg:
                    pkg["_attr"] = ctorlib.attribute_errors(mod / pkg["name"], [x["name"] for x in pkg["structs"]], errs)
                o["status"], o["errors"] = ctorlib.status_from_errors(sd["name"], *pkg["_attr"])
                continue
            st = info["structs"].get(sd["name"])
            if st is None or ("New" + sd["name"]) not in info["funcs"]:
                o["status"] = 6          # the package type-checks but T / NewT is missing: fails Pb inside the guard
                continue
            o["own"] = [tuple(m[:3]) for m in st["own"] if m[0] != "ShootNew"]
            o["mset"] = [(tuple(m[:3]), list(m[3:])) for m in st["mset"] if m[0] != "ShootNew"]
            o["getter"] = iface_obs(info["ifaces"].get(sd["name"] + "Getter"))
            o["setter"] = iface_obs(info["ifaces"].get(sd["name"] + "Setter"))
            setters = [m[0][0] for m in o["mset"] if m[0][1] == "set"]
            getters = [m[0][0] for m in o["mset"] if m[0][1] == "get"]
            inst = ctorlib.inst_for(sd, run.rng)
            lf, em = ctoracc.leaves(pkg, sd, inst)
            entries = [0]
            if any(p for _, p in em) or run.rng.random() < 0.3:
                entries.append(1)
            if not run.thorough() and len(setters) > 6:
                setters = run.rng.sample(setters, 6)
            text, runs = oracle_for_struct(pkg, sd, inst, setters, getters, entries, key)
            sd["_runs"] = runs
            body += text
        if body:
            text = "".join(ctoracc.render_go(pkg, modname).values())
            bodies[pkg["name"]] = oracle_file(pkg, body, '"time"' in text, "/helper" in text, modname)
    for d, t in bodies.items():
        l2.write_files(mod / d, {"zz_oracle_verif.go": t})
    cases = {}
    if bodies:
        cases, err = ctorlib.build_and_run_oracles(run, mod, modname, sorted(bodies))
        if cases is None:
            raise lib.CheckBroken("the oracle program does not build: " + err[-4000:])
    run.log("oracle ran: %d blocks" % len(cases))
    for pkg in pkgs:
        for sd in pkg["structs"]:
            key = (pkg["name"], sd["name"])
            o = obs.get(key)
            if o is None or o["status"] != 0:
                continue
            for cid, entry, s in sd.get("_runs", []):
                c = cases.get(cid)
                if c is None:
                    o["status"] = 5
                    break
                rr = {"entry": entry, "setter": s, "tok": "", "panic": bool(c["panics"]), "before": [], "after": [],
                      "gets": [], "panics": c["panics"]}
                for kind, kk, tok in c["reads"]:
                    if kind == "A":
                        rr["tok"] = tok
                    elif kind == "B":
                        rr["before"].append((kk.split("."), tok))
                    elif kind == "P":
                        rr["after"].append((kk.split("."), tok))
                    elif kind == "G":
                        rr["gets"].append((kk, tok))
                o["runs"].append(rr)
    return obs, mod


# ------------------------------------------------------------------ cases
def coq_iobs(i):
    cs, cl = ctorgen.coq_str, ctorgen.coq_list
    return ("{| io_embeds := %s; io_explicit := %s; io_methods := %s; io_impl := %s |}"
            % (cl([cs(e) for e in i["embeds"]]), cl([ctoracc.coq_row(r) for r in i["explicit"]]),
               cl([ctoracc.coq_row(r) for r in i["methods"]]), ctoracc.coq_bool(i["impl"])))


def coq_robs(r):
    cs, cp = ctorgen.coq_str, ctorlib.coq_path
    return ("{| ro_entry := %d; ro_setter := %s; ro_tok := %s; ro_panic := %s; ro_before := %s; ro_after := %s; "
            "ro_gets := %s |}"
            % (r["entry"], cs(r["setter"]), cs(r["tok"]), ctoracc.coq_bool(r["panic"]),
               ctorlib.coq_pairs(r["before"], cp, cs), ctorlib.coq_pairs(r["after"], cp, cs),
               ctorlib.coq_pairs(r["gets"], cs, cs)))


def coq_sobs(o):
    cs, cl = ctorgen.coq_str, ctorgen.coq_list
    return ("{| so_name := %s; so_status := %d; so_own := %s; so_mset := %s; so_getter := %s; so_setter := %s; "
            "so_runs := %s |}"
            % (cs(o["name"]), o["status"], cl([ctoracc.coq_row(r) for r in o["own"]]),
               cl(["(%s, %s)" % (ctoracc.coq_row(r), ctorlib.coq_path(p)) for r, p in o["mset"]]),
               ctoracc.coq_opt(o["getter"], coq_iobs), ctoracc.coq_opt(o["setter"], coq_iobs),
               cl([coq_robs(r) for r in o["runs"]])))


def render_cases(pkgs, obs, fuel=FUEL):
    cs, cl = ctorgen.coq_str, ctorgen.coq_list
    pkgdefs, rendered = {}, []
    for pkg in pkgs:
        ident = "pkg_" + pkg["name"]
        pkgdefs[ident] = ctorgen.coq_pkg(pkg)
        structs = [obs[(pkg["name"], t)] for t in pkg["order"] if (pkg["name"], t) in obs]
        term = ("{| gc_pkg := %s; gc_flags := %s; gc_fuel := %d; gc_order := %s; gc_rounds := %d; gc_status := %d; "
                "gc_structs := %s |}"
                % (ident, ctoracc.coq_flags(getset=True), fuel, cl([cs(t) for t in pkg["order"]]), pkg["rounds"],
                   pkg["status"], cl([coq_sobs(o) for o in structs] if pkg["status"] == 0 else [])))
        rendered.append((term, [ident]))
    return pkgdefs, rendered


def replay_record(pkg, obs, verdict, modname):
    return {"kind": "property-fails-on-implementation" if verdict == 2 else "correspondence-broken",
            "theorem": THEOREMS,
            "correspondence": "L2:C03:accessor methods, interfaces, method sets and set-then-get runs vs Model/CtorGetSet.v",
            "spec": ctoracc.spec_json(pkg), "order": pkg["order"], "rounds": pkg["rounds"],
            "sources": ctoracc.render_go(pkg, modname), "cmd": "shoot " + " ".join(pkg["args"]),
            "shoot": pkg.get("shoot"), "type_errors": pkg.get("type_errors"),
            "observed": [obs[(pkg["name"], t)] for t in pkg["order"] if (pkg["name"], t) in obs],
            "verdict": verdict,
            "how": "render the sources into a module that replaces github.com/lopolopen/shoot by the tree under test, run the "
                   "command in the package directory, which holds no generated file yet (%d time(s)), go build; compare the methods declared on each type with "
                   "its get/set/getter/setter directives, the method sets of <T>Getter/<T>Setter and *T, and call each setter "
                   "then read every field and getter (expected: coq/Model/CtorGetSet.v)" % pkg["rounds"]}


# ------------------------------------------------------------------ findings
def _gen(run, shoot, entry, args=None):
    r, gen, d = ctor_findings._run(run, shoot, entry)
    return r, gen, d


def h_nil_named(run, shoot):
    def h(e):
        r, gen, _ = _gen(run, shoot, e)
        if r["panicked"]:
            return "buggy"
        if r["timed_out"]:
            return "other: timeout"
        if r["rc"] != 0:
            return "other: exit %s: %s" % (r["rc"], r["err"][-200:])
        return "correct"
    return h


def h_once_shadow(run, shoot):
    def h(e):
        r, gen, _ = _gen(run, shoot, e)
        if r["rc"] != 0:
            return "other: exit %s: %s" % (r["rc"], r["err"][-200:])
        txt = "".join(t for n, t in gen.items() if n.endswith(".son.go"))
        has = "func (s *Son) Z() string" in txt and "func (s *Son) SetZ(" in txt
        if has:
            return "correct"
        if "func (s *Son) K() int" in txt:
            return "buggy"
        return "other: Son's accessors not found"
    return h


def h_excluded_field(run, shoot):
    def h(e):
        r, gen, _ = _gen(run, shoot, e)
        if r["rc"] != 0:
            return "other: exit %s: %s" % (r["rc"], r["err"][-200:])
        txt = "".join(gen.values())
        if "func (c *Conf) Name() string" not in txt:
            return "other: Conf's accessors not found"
        if "func (c *Conf) Hid() int" in txt and "func (c *Conf) SetHid(" in txt:
            return "correct"
        if "Hid" not in txt:
            return "buggy"
        return "other: partial accessors for hid"
    return h


def h_embed_order(run, shoot):
    def h(e):
        w = e["witness"]
        outs = []
        for k, args in enumerate((w["args_a"], w["args_b"])):
            mod = l2.make_module(run, "witmod")
            d = mod / ("k_embed_order_%d" % k)
            l2.write_files(d, {"f.go": w["files"]["p/f.go"]})
            r = l2.run_shoot(shoot, d, args, timeout=20)
            if r["rc"] != 0:
                return "other: exit %s: %s" % (r["rc"], r["err"][-200:])
            p = d / w["file"]
            if not p.exists():
                return "other: %s not written" % w["file"]
            outs.append("\tBaseGetter\n" in p.read_text())
        if outs == [False, True]:
            return "buggy"
        if outs[0] == outs[1]:
            return "correct"
        return "other: SonGetter embeds BaseGetter with %s" % outs
    return h


def h_field_hides(run, shoot, accbin):
    def h(e):
        r, gen, d = _gen(run, shoot, e)
        if r["rc"] != 0:
            return "other: exit %s: %s" % (r["rc"], r["err"][-200:])
        if accbin is None:
            return "other: ctoracc not built"
        info = ctoracc.run_ctoracc(accbin, d.parent, ["./" + d.name])
        pk = [v for k, v in info.items() if k.endswith("/" + d.name)]
        if not pk or pk[0]["errors"]:
            return "other: witness package does not type-check: %s" % (pk and pk[0]["errors"][:2])
        g = pk[0]["ifaces"].get("SonGetter")
        if g is None:
            return "other: SonGetter not generated"
        if g["impl"] == "yes":
            return "correct"
        if "BaseGetter" in g["embeds"] and g["impl"] == "no":
            return "buggy"
        return "other: SonGetter %s" % g
    return h


def h_shadow_type_conflict(run, shoot):
    def h(e):
        r, gen, d = _gen(run, shoot, e)
        if r["rc"] != 0:
            return "other: exit %s: %s" % (r["rc"], r["err"][-200:])
        ok, errs = l2.go_build(d.parent, ["./" + d.name])
        if ok:
            return "correct"
        if "duplicate method Z" in str(errs):
            return "buggy"
        return "other: %s" % str(errs)[:300]
    return h


def h_typespec_doc(run, shoot):
    def h(e):
        r, gen, d = _gen(run, shoot, e)
        if r["rc"] != 0:
            return "other: exit %s: %s" % (r["rc"], r["err"][-200:])
        a = "".join(t for n, t in gen.items() if n.endswith(".a.go"))
        if "func (a *A) A() int" not in a:
            return "other: A's getter not found"
        return "buggy" if "func (a *A) SetA(" in a else "correct"
    return h


def h_type_named_test(run, shoot):
    def h(e):
        r, gen, d = _gen(run, shoot, e)
        if r["rc"] != 0:
            return "other: exit %s: %s" % (r["rc"], r["err"][-200:])
        withnew = [n for n, t in gen.items() if "func Newtest(" in t]
        if not withnew:
            return "other: Newtest not generated: %s" % sorted(gen)
        return "buggy" if all(n.endswith("_test.go") for n in withnew) else "correct"
    return h


def finding_handlers(run, shoot, accbin=None):
    return {
        "K_getset_type_named_test": h_type_named_test(run, shoot),
        "K_ctor_method_name_collision": ctor_findings.h_method_collision(run, shoot),
        "K_getset_shadow_type_conflict": h_shadow_type_conflict(run, shoot),
        "K_getset_typespec_doc": h_typespec_doc(run, shoot),
        "K_getset_field_hides_accessor": h_field_hides(run, shoot, accbin),
        "K_getset_nil_named": h_nil_named(run, shoot),
        "K_getset_once_shadow": h_once_shadow(run, shoot),
        "K_getset_excluded_field": h_excluded_field(run, shoot),
        "K_embed_order": h_embed_order(run, shoot),
    }


# ------------------------------------------------------------------ main
def features(pkg, obs):
    f = {}
    def bump(k, v=1):
        f[k] = f.get(k, 0) + v
    for sd in pkg["structs"]:
        o = obs.get((pkg["name"], sd["name"]))
        if o is None or o["status"] != 0:
            continue
        bump("structs")
        docs = [fd["doc"].lower() for fd in sd["fields"] if fd["names"]]
        if any("get" in d and "set" not in d.replace("getset", "") for d in docs):
            bump("field_get_only")
        if any("set" in d and "get" not in d for d in docs):
            bump("field_set_only")
        if sd.get("doc"):
            bump("type_level_directive")
        if o["getter"] and o["getter"]["embeds"]:
            bump("getter_embeds_interface")
        if o["setter"] and o["setter"]["embeds"]:
            bump("setter_embeds_interface")
        if o["getter"] is None:
            bump("no_getter_interface")
        if any(len(p) > 0 for _, p in o["mset"]):
            bump("promoted_accessors")
        if any(len(p) > 1 for _, p in o["mset"]):
            bump("promoted_through_depth_2+")
        if sd["tparams"]:
            bump("generic")
        own = [n for fd in sd["fields"] for n in fd["names"]]
        deeper = [x[1] for x in ctorgen.occurrences(pkg, sd, [("param", n) for n in ctorgen.tparam_names(sd)]) if len(x[0]) > 1]
        if set(own) & set(deeper):
            bump("own_field_shadows_promoted")
        if any(sd["name"] in g["names"] for g in (pkg.get("groups") or [])):
            bump("in_grouped_declaration")
        if any(e.endswith("]") for e in (o["getter"] or {"embeds": []})["embeds"]):
            bump("embedded_generic_interface")
        bump("runs", len(o["runs"]))
        bump("runs_panicking_on_nil_embed", sum(1 for r in o["runs"] if r["panic"]))
        bump("runs_on_zero_value", sum(1 for r in o["runs"] if r["entry"] == 1))
        bump("runs_promoted_setter", sum(1 for r in o["runs"]
                                         if any(m[0][0] == r["setter"] and len(m[1]) > 0 for m in o["mset"])))
    return f


def main(run):
    run.log("start")
    proof_ok = run.prove("Properties/C03.v", ["Corr/CtorGetSetCorr.v", "Corr/CtorDirectiveCorr.v", "Corr/TransferCorr.v"])
    shoot = run.build_shoot()
    accbin = run.build_helper("ctoracc")
    probe = lib.build_verifprobe(run)
    run.log("built")

    # L1 (case transforms + directive parsers) runs beside the L2 stream, with its own random stream
    l1 = ctoracc.start_l1(run, probe)
    outcome = run.replay_findings(finding_handlers(run, shoot, accbin))
    run.log("findings replayed")

    npk = 600 if run.thorough() else 50
    pkgs, gstats = gen_packages(run, npk)
    obs, mod = observe(run, shoot, accbin, "c03mod", pkgs)
    pkgdefs, rendered = render_cases(pkgs, obs)
    run.log("cases: %d packages" % len(rendered))
    mism = ctorlib.coq_shards(run, "c03cases", pkgdefs, rendered, CORR, "gmismatches", "gcase", shard=10)
    verdicts = dict(mism)
    reported = 0
    for idx, v in sorted(mism, key=lambda iv: (iv[1] != 2, iv[0])):
        if v in (1, 2, 4) and reported < 5:
            run.violation(replay_record(pkgs[idx], obs, v, "c03mod"), no_input=(v != 2))
            reported += 1
    ncalls, tm, dcalls, dm = l1.result()
    for m in tm[:3]:
        run.violation({"kind": "correspondence-broken", "correspondence": "L1:transfer vs Model/Transfer.v", "call": m},
                      no_input=True)
    for m in dm[:3]:
        run.violation({"kind": "correspondence-broken",
                       "correspondence": "L1:constructor directive parsers vs Model/CtorDirective.v", "call": m},
                      no_input=True)
    if not proof_ok and reported == 0 and not tm and not dm:
        run.proof_failure_violation()

    feat, nontrivial = {}, set()
    nruns = nstructs = 0
    for i, pkg in enumerate(pkgs):
        if verdicts.get(i, 0) != 0:
            continue
        for k, val in features(pkg, obs).items():
            feat[k] = feat.get(k, 0) + val
        for sd in pkg["structs"]:
            o = obs.get((pkg["name"], sd["name"]))
            if o is None or o["status"] != 0:
                continue
            nstructs += 1
            nruns += len(o["runs"])
            if o["runs"] or sd.get("doc") or any(fd["doc"] for fd in sd["fields"]):
                nontrivial.add(json.dumps([ctorgen.render_struct(sd), pkg["order"], pkg["rounds"],
                                           [ctorgen.render_struct(s) for s in pkg["structs"]] if o["mset"] else []]))
    samples = []
    for i in (0, len(pkgs) // 2, len(pkgs) - 1):
        pkg = pkgs[i]
        samples.append({"package": pkg["name"], "cmd": "shoot " + " ".join(pkg["args"]), "rounds": pkg["rounds"],
                        "source": "".join(ctoracc.render_go(pkg, "c03mod").values())[:1500],
                        "observed": [{k: (v[:2] if k == "runs" else v) for k, v in obs[(pkg["name"], t)].items()}
                                     for t in pkg["order"][:2] if (pkg["name"], t) in obs],
                        "verdict": verdicts.get(i, 0)})
    vd, why3 = {}, {}
    for i, pkg in enumerate(pkgs):
        v = verdicts.get(i, 0)
        vd[v] = vd.get(v, 0) + 1
        if v == 3:
            unobs = any(obs[(pkg["name"], t)]["status"] != 0 for t in pkg["order"] if (pkg["name"], t) in obs)
            reason = ("python_precheck_outside_guard" if "out" in pkg["classes"] else
                      "embed_order_class" if (pkg["rounds"] == 1 and not pkg["complete_order"]) else
                      "struct_not_observed" if unobs else "coq_guard_only")
            why3[reason] = why3.get(reason, 0) + 1
    cov = {
        "evaluations": sum(len(o["runs"]) + 1 for o in obs.values()),
        "distinct_nontrivial": len(nontrivial),
        "rule": ("%d generated packages of 1..5 struct declarations of the C02 grammar (value/pointer embedding of earlier "
                 "structs to depth 3, helper-package embeds, generics incl. embedded instances, multi-name declarations, name "
                 "forms lower/camel/snake/acronym/ALLCAPS/exported) with every combination of `shoot: get|set|new|def=` field "
                 "directives in several spellings, type-level getter/setter directives on ~35%% of the structs, a few exported "
                 "fields with a directive (fatal); `shoot new -getset -type=<all or all but one, declaration or random "
                 "order>`, 20%% of these run twice; in ~1 of 4 packages the tool picks the types itself (`-file=<source>` or "
                 "`-type=*` with the //go:generate line in the source) on a directory without generated files -- the first two "
                 "packages are the fixed corpus Zed/Alpha and Zed/Mike/Alpha (embedded type declared first, sorting last), two "
                 "more fixed ones carry a type-level getter / setter directive on a GROUPED declaration of three structs, two "
                 "embed only instances of generic shoot types (Box[int], *Pair[string, T]), one has a read-only type with "
                 "multi-line field docs and named accessor types embedded by two later types, the "
                 "next four are generated ones of that shape (generator.tool_selected_with_embedded_sorting_after_embedder).  Per selected struct one static case (methods declared on T, method "
                 "set of *T, <T>Getter/<T>Setter: embedded / explicit / complete method set / implemented by *T) and one "
                 "executed run per (entry point NewT(sentinels) | zero value, setter of *T's method set): all leaves before "
                 "and after, all getters after.  evaluations = static cases + runs.  non-trivial = distinct (struct, order, "
                 "rounds[, package when accessors are promoted]) in agreeing packages inside the guard with at least one "
                 "directive or executed run" % len(pkgs)),
        "samples": samples,
        "traces_validated_against_impl": nruns,
        "programs": len(pkgs),
        "structs_observed_in_agreeing_packages": nstructs,
        "package_verdicts": {str(k): v for k, v in sorted(vd.items())},
        "verdict_3_reasons": why3,
        "feature_counts": feat,
        "generator": gstats,
        "l1_transfer_calls": ncalls, "l1_directive_calls": dcalls, "l1_skipped": probe is None,
        "findings_measured": outcome,
        "exhaustive": False,
        "trusted_base": lib.TRUSTED_BASE_COMMON + c02.TRUSTED[:3] + TRUSTED,
    }
    return run.finish(cov, assumptions=ASSUMPTIONS)


TRUSTED = [
    "text/template is not modelled: the accessor part of constructor.tmpl is given as (methods declared on T, interface "
    "declarations with embedded interfaces and explicit methods)",
    "go/types is modelled on shoot's own output: the package view is the list of earlier generated files (accessor methods "
    "and interfaces per struct), Scope.Lookup finds <E>Getter iff that file declares it, types.Instantiate succeeds when "
    "the numbers of type parameters agree, types.AssignableTo(*E, I) is `every method of I is in the method set of *E` "
    "with Go's selector rule for methods re-stated in Model/CtorGetSet.v (find_method); signatures are compared as "
    "printed types",
    "the overlay reload between types is modelled for one output file per type (-type=<list>); the all-in-one modes are "
    "outside the model (open finding K_aio_overlay_stale)",
    "a promoted accessor call is modelled as a read/assignment of the declaring struct's field through the embedding path "
    "(nil embedded pointer = Panic); values are trees (no aliasing)",
]

ASSUMPTIONS = c02.ASSUMPTIONS + [
    "c03_guard additionally: no _-prefixed / new:\"-\" field in a selected struct (K_getset_excluded_field); no occurrence "
    "with the name of a field of the struct PRECEDES that field in depth-first declaration order and no plain field "
    "carries the name of an embedded struct (K_getset_once_shadow; a field shadowing a promoted one declared after it is "
    "inside the guard); accessor fields start with a lower-case letter",
    "for the method-set statements: every accessor of the embedding closure is visible on *T (implied by unique accessor "
    "names, C03_unique_names_visible; K_getset_field_hides_accessor, K_getset_shadow_type_conflict), acyclic embedding",
    "the interfaces of embedded shoot types are those present in the package view when the type is analysed: inside the "
    "guard every selected embedded struct precedes the struct in the -type order (or the command is run twice); a struct "
    "analysed before one of its embedded structs is the input class of K_embed_order (verdict 3, counted as "
    "embed_order_class); the model threads the view explicitly either way",
    "type declarations are single or grouped `type ( ... )` with the directive on the group; a directive on a type spec "
    "inside a group is ignored by shoot (K_getset_typespec_doc) and is not generated in the comparison stream",
    "accessor bodies are given (`this.<f>` reads / assigns the declaring struct's own field, "
    "C03_accessor_body_selects_own_field); the name -> field wiring of the template text is tied by the executed stream only",
]


def replay(run, path):
    r = json.load(open(path))
    run.prove("Properties/C03.v", ["Corr/CtorGetSetCorr.v"])
    if "spec" not in r:
        print("nothing to replay (no concrete input in %s)" % path)
        return 0
    shoot = run.build_shoot()
    accbin = run.build_helper("ctoracc")
    pkg = ctoracc.spec_from_json(r["spec"])
    pkg["groups"] = r["spec"].get("groups") or []
    pkg["order"] = r["order"]
    if (pkg.get("select") or "list") != "list":
        pkg["order"] = ctoracc.decl_order(pkg)       # the tool picks the types: textual declaration order of the source
    pkg["rounds"] = r["rounds"]
    obs, mod = observe(run, shoot, accbin, "c03mod", [pkg])
    pkgdefs, rendered = render_cases([pkg], obs)
    mism = ctorlib.coq_shards(run, "c03replay", pkgdefs, rendered, CORR, "gmismatches", "gcase")
    print("verdicts:", mism)
    if [v for _, v in mism if v in (1, 2, 4)]:
        print("VIOLATION property=C03 replay=%s" % path)
        return 1
    return 0
