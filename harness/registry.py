"""What MANIFEST.json claims; edited by hand, rendered by bin/mkmanifest."""

HOOKS = {
    "guard": "verif",
    "enable": "go build -tags verif (Go build tag; hook files are //go:build verif and add-only)",
    "baseline_off_cmd": "cd /repo && GOFLAGS=-mod=mod GOPROXY=off go test -vet=off -count=1 ./...",
    "source_commits": ["c6ac722"],
    "add_only": True,
}

NOTES = ("All checks: machine-checked proof in Rocq (Coq 8.16.1) about a hand-written executable model, "
         "plus a correspondence run that executes the freshly built /repo code and the model on the same "
         "inputs (compared inside Coq). See DESIGN.md.")

COMMON_NOTE = ("Trusted: Coq kernel + vm_compute; the hand-written model (the theorem is about the model); "
               "the correspondence harness (generators, Go probes); sampled, not exhaustive, tie to the code "
               "unless the evidence says exhaustive. No axioms, no extraction. ")

CLAIMED = {
    "C01": {
        "text": "PARTIAL. Proved (for all template data records, flag combinations, hand-written declaration lists and command "
                "lines): the generated file's header has the required form, and at the level of declared/used names the files "
                "shoot generates are well-formed with the package (no name declared twice incl. hand-written ones, no method/field "
                "clash, every used name declared) under explicit decidable guards, compositionally for several types in one run; "
                "the three open defect classes (enum -bit's undefined table, -opt -short collisions, unexported RestClient "
                "interfaces) are refuted as general theorems. NOT proved: Go's type checker proper and gofmt, which are observed: "
                "every run of the correspondence stream is compiled with its package (go build), gofmt -l'ed, and its declared "
                "names compared inside Coq with the model's skeleton; the property itself (exit 0 => header, package clause, "
                "gofmt-clean, compiles) is evaluated on every observation.",
        "design_ref": "DESIGN.md section 8, C01",
        "note": COMMON_NOTE + "Partial: the theorem is name-level; compilability beyond names is sampled by go build of every generated package.",
        "technique": "Rocq proof of name-level well-formedness of the template skeletons + differential run (shoot, declsig, gofmt, go build) compared inside Coq",
        "coq_targets": ["Properties/C01.vo", "Corr/GoWfCorr.vo"],
    },
    "C20": {
        "text": "Theorems over all n >= 0 and all scripts (unbounded length, any status in Z): at most n+1 calls, "
                "stop at the first acceptable attempt returning (that response, nil), otherwise exactly n+1 calls and "
                "the last attempt's (response, error), trace = Call 0 (Sleep Call i)*. The model is tied to "
                "middleware.RetryMiddleware by driving the real code with scripted transports (exhaustively for the "
                "property's bound in the thorough tier) and comparing inside Coq.",
        "design_ref": "DESIGN.md section 8, C20",
        "note": COMMON_NOTE + "Sleeping is observed through inter-call gaps (lower bound), not modelled in real time.",
        "technique": "Rocq proof by induction over the retry loop + differential run of RetryMiddleware vs model",
        "coq_targets": ["Properties/C20.vo", "Corr/RetryCorr.vo"],
    },
    "C19": {
        "text": "Theorems over all option sequences (any length, any arguments), all Register/NewRest histories and all "
                "middleware lists: RestConf holds exactly the last argument per option (zero if none) and every Use "
                "argument in order; Register panics iff the type was registered before, NewRest panics iff it was not and "
                "otherwise applies the first-registered constructor to exactly that conf; the chain is first-added "
                "outermost with logging outside all; client timeout = configured timeout on the repaired branch, with the "
                "int64-wrap defect of the template modelled and refuted by witness (open finding K_rest_timeout, golden-locked). "
                "Tied to restclient.go/constructor.go/middleware and the generated client by a Go driver executing option "
                "sequences and registry histories, compared inside Coq.",
        "design_ref": "DESIGN.md section 8, C19",
        "note": COMMON_NOTE + "reflect.Type identity is modelled as an abstract type id; the logging middleware is observed by its position only.",
        "technique": "Rocq proof by induction over option lists, registry histories and middleware lists + differential run of the runtime/generated client vs model",
        "coq_targets": ["Properties/C19.vo", "Corr/RestRuntimeCorr.vo"],
    },
    "C16": {
        "text": "Theorems over all multi-file package skeletons (unbounded), all four subcommands, all flag records / the literal argument vectors -type=L, -file=f, -type=*, and all iteration orders of Go's maps: the literal model of ParseCommonFlags/ListTypes/MakeData/confirmTypes/getGoFile/findCmdLine/fileName/Generate produces exactly the files (names and types per file, in order) the declarative reading of the property demands, named after the declaring source file, and lists them in the message; a missing/wrong-kind name yields a diagnostic and no file; the code's filters coincide with declarative eligibility. Guard: distinct identifier type names, and the input classes of five open findings, each refuted by a Coq witness and replayed against /repo. Tied to /repo by running the built binary on random skeleton packages × command lines and comparing exit class, diagnostics, written files with their types (marker methods) and the message list inside Coq.",
        "design_ref": "DESIGN.md section 8, C16; section 13",
        "note": COMMON_NOTE + "The package is abstracted to a skeleton (what testNode/ListTypes/go-types inspect); template execution, goimports and MergeSources are not modelled (observed through marker methods); flag.Parse and the findCmdLine regexp are re-implemented by hand. Five open findings (K_star_no_generate_line, K_enum_missing_silent, K_star_sep_file, K_local_type_listed, K_lower_collision) delimit the guard.",
        "technique": "Rocq refinement proof (literal walkers/filters/naming ⊑ declarative spec, permutation oracles for map iteration) + differential run of the shoot binary on generated multi-file packages vs the model, compared in Coq",
        "coq_targets": ["Properties/C16.vo", "Corr/CliCorr.vo"],
    },
    "C17": {
        "text": "Theorems over all directory states (hard links, look-alikes, leftovers), all output lists in any order, all chunkings of every write, all temp names and ALL crash points (prefixes of the operation list): every output name shows the complete old or the complete new file; no pre-existing inode is ever written (hard links and open readers keep the old bytes); names that are not outputs, this run's temporaries or Clean victims are untouched; after normal termination no temporary remains; Clean's victims are exactly the matching files that carry the header of the same subcommand and are not all-in-one files, never a hand-written file; output names match *.shoot<cmd>*.go and are path components. Tied to cmd/shoot/main.go and generatorbase.go by strace-level trace correspondence, inode/state diffs, L1 comparison of the header regexps and glob, and (thorough) SIGKILL and concurrent-reader runs.",
        "design_ref": "DESIGN.md section 8, C17; section 13",
        "note": COMMON_NOTE + "Partial: rename(2) atomicity and the kernel's behaviour under SIGKILL are assumptions of the model (sampled by 200 killed runs in the thorough tier); the directory is flat and holds regular files only. Open finding K_clean_own_output (-type '*' together with [dir]: Clean deletes the run's own output) is guarded, refuted by witness and replayed.",
        "technique": "Rocq proof of an inode-level file-system model of the write protocol (invariants over all operation prefixes) + strace trace/inode-state correspondence with the real binary, compared inside Coq",
        "coq_targets": ["Properties/C17.vo", "Corr/FsCorr.vo"],
    },
}

NOT_CLAIMED = {}
