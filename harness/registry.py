"""What MANIFEST.json claims; edited by hand, rendered by bin/mkmanifest."""

HOOKS = {
    "guard": "verif",
    "enable": "go build -tags verif (Go build tag; hook files are //go:build verif and add-only)",
    "baseline_off_cmd": "cd /repo && GOFLAGS=-mod=mod GOPROXY=off go test -vet=off -count=1 ./...",
    "source_commits": ["c6ac722"],
    "add_only": True,
}

NOTES = ("All checks: machine-checked proof in Rocq (Coq 8.16.1) about a hand-written executable model, "
         "plus a correspondence run that executes the freshly built /repo code and the model on the same "
         "inputs (compared inside Coq). See DESIGN.md.")

COMMON_NOTE = ("Trusted: Coq kernel + vm_compute; the hand-written model (the theorem is about the model); "
               "the correspondence harness (generators, Go probes); sampled, not exhaustive, tie to the code "
               "unless the evidence says exhaustive. No axioms, no extraction. ")

CLAIMED = {
    "C01": {
        "text": "PARTIAL. Proved about the template skeletons of Model/GoWf.v (which package-level names and methods a generated "
                "file declares and uses, as a function of the template data; read off the four templates), for all data "
                "records, flag combinations, hand-written declaration lists and command lines: the header has the required form; "
                "a file's own declarations are pairwise distinct for enum/rest/map always and for new whenever the names derived "
                "from the fields are pairwise distinct and differ from the fixed method names (a decidable condition); such a file "
                "is well-formed with every package that declares the type, nothing the file declares and no field named like a "
                "generated method; files with disjoint declarations compose. Three open defect classes are refuted as general "
                "theorems (enum -bit's undefined table, -opt -short collisions, unexported RestClient interfaces). NOT proved: "
                "that the hypotheses follow from the input package (no theorem composes a generator model with a skeleton; the "
                "-getset/-json part of the new skeleton is not yet compared), disjointness of the declarations of two types, Go's "
                "type checker beyond names, gofmt. Those rest on the correspondence: every run of the four streams x three "
                "selection modes is executed by the built binary, each written file is parsed (declared names vs skeleton), "
                "gofmt -l'ed and compiled with its package, and the property itself (exit 0, no panic/timeout, header, package "
                "clause, gofmt-clean, compiles) is evaluated inside Coq on EVERY case; a failure inside the generator models' "
                "guards is a concrete violation, outside them it is excused only while an open finding owning the class reproduces.",
        "design_ref": "DESIGN.md section 8, C01; docs/C01.md",
        "note": COMMON_NOTE + "Partial: the theorems are name-level and about template-data records; compilability is sampled by go build of every generated package. -gorm is not run (its modules are not available offline). Guards of the streams are those of the generator models (Enum, Ctor c02/c13, RestSpec.wf_mspec, MapperSpec.pair_guard).",
        "technique": "Rocq proof of name-level well-formedness of the template skeletons + differential run (shoot, declsig, gofmt, go build) with the property evaluated inside Coq on every case",
        "coq_targets": ["Properties/C01.vo", "Corr/GoWfCorr.vo"],
    },
    "C20": {
        "text": "Theorems over all n >= 0 and all scripts (unbounded length, any status in Z): at most n+1 calls, "
                "stop at the first acceptable attempt returning (that response, nil), otherwise exactly n+1 calls and "
                "the last attempt's (response, error), trace = Call 0 (Sleep Call i)*. The model is tied to "
                "middleware.RetryMiddleware by driving the real code with scripted transports (exhaustively for the "
                "property's bound in the thorough tier) and comparing inside Coq.",
        "design_ref": "DESIGN.md section 8, C20",
        "note": COMMON_NOTE + "Sleeping is observed through inter-call gaps (lower bound), not modelled in real time.",
        "technique": "Rocq proof by induction over the retry loop + (1) Go->Gallina translation of middleware/retry.go on every run with a bridge lemma (generated definition = model) re-checked by coqc, (2) differential run of RetryMiddleware vs model",
        "coq_targets": ["Properties/C20.vo", "Corr/RetryCorr.vo", "Proofs/RetryCorrProofs.vo"],
    },
    "C19": {
        "text": "Theorems over all option sequences (any length, any arguments), all Register/NewRest histories and all "
                "middleware lists: RestConf holds exactly the last argument per option (zero if none) and every Use "
                "argument in order; Register panics iff the type was registered before, NewRest panics iff it was not and "
                "otherwise applies the first-registered constructor to exactly that conf; the chain is first-added "
                "outermost with logging outside all. The property's last sentence (client HTTP timeout = configured timeout) is "
                "FALSE of /repo: open finding K_rest_timeout (golden-locked template line multiplies a time.Duration by "
                "time.Second in int64); proved instead: the generated client's timeout equals the configured one only for 0 "
                "(wrap64 (t * 10^9) = t <-> t = 0), with a concrete witness; the comparison uses the defect branch while the "
                "finding reproduces. "
                "Tied to restclient.go/constructor.go/middleware and the generated client by a Go driver executing option "
                "sequences and registry histories, compared inside Coq.",
        "design_ref": "DESIGN.md section 8, C19",
        "note": COMMON_NOTE + "reflect.Type identity is modelled as an abstract type id (exercised with two same-named types of different import paths); the logging middleware is observed through the position of its log line (wrappers nest, so the exit position determines the entry position); panic messages are classified by substring, their type names are not compared.",
        "technique": "Rocq proof by induction over option lists, registry histories and middleware lists + (1) Go->Gallina translation of the option functions, BuildMiddleware, NewWith, Register, NewRest on every run with bridge lemmas re-checked by coqc, (2) differential run of the runtime/generated client vs model",
        "coq_targets": ["Properties/C19.vo", "Corr/RestRuntimeCorr.vo"],
    },
    "C05": {
        "text": "Theorems over all mapping jobs (any type environment, embedding depth, field lists, tags, mapper methods, flags): ToX/FromX plans are write-once and every emitted statement joins name-matching fields with a strategy applicable to their types (assignment / conversion minus string<->fixed-width int / exact-signature mapper method / sub-struct by value, pointer, slice); invariant proved by induction over the two literal matching passes with shared Field objects. Semantics, completeness and priority are evaluated inside Coq against a declarative specification on every sampled case (not yet a theorem); six open findings delimit the guard, three of them with Coq refutation witnesses.",
        "design_ref": "DESIGN.md section 8, C05; section 13",
        "note": COMMON_NOTE + "go/types predicates and the Go semantics of the emitted statements are modelled; user mapper/manual methods are a parameter.",
        "technique": "Rocq proof by induction over the literal two-pass matcher + differential execution of generated ToX/FromX vs model and vs declarative spec, compared inside Coq",
        "coq_targets": ["Properties/C05.vo", "Corr/MapperCorr.vo"],
    },
    "C04": {
        "text": "Theorems over all enum packages of the grammar (any number of types/files/blocks/specs; ten integer kinds; iota, offset, shifted, explicit incl. negative, multi-name, carried-down, `_`, untyped interlopers) and every integer x: the literal stringer walk collects exactly the constants of the type; each declared constant maps to its prefix-trimmed name and back; Values/Strings are index-aligned, strictly ascending and a permutation of the declared values; IsValid x <-> declared; String x decimal otherwise; a changed or removed constant makes the old output ill-typed (iff characterisation of the guard). Guards: no duplicate values (open K_enum_dup), no implicitly typed / qualified-type specs (open K_enum_implicit_type, K_enum_foreign_carry), each with a refutation theorem. Model tied to str.go/enumer.tmpl by generating, compiling and executing packages and comparing inside Coq, incl. a stale-guard pass that edits sources without regenerating.",
        "design_ref": "DESIGN.md section 8, C04; section 13",
        "note": COMMON_NOTE + "go/types constant evaluation is modelled (cross-checked against the compiler's values on every run); compile errors are modelled only for the guard index and duplicate map keys.",
        "technique": "Rocq proof (refinement of the declarative 'constants of type T' by the literal walk; sort/permutation; assoc-list round trips) + differential execution of generated packages vs model",
        "coq_targets": ["Properties/C04.vo", "Corr/EnumCorr.vo"],
    },
    "C02": {
        "text": "Machine-checked (Rocq) over all struct packages of the grammar, all flags, all argument values: shoot's flatten is the depth-first occurrence list with pairwise shadow marking and refines Go's selector rule (an entry is unshadowed iff `resolve` returns its path); NewT(args) stores argument i exactly at the path Go resolves the parameter's field name to, every other leaf holds its def= default else zero, excluded fields are zero, embedded pointers are allocated; parameters are the unshadowed leaves (restricted to new-marked ones when any is marked), in declaration order depth-first, with distinct names; generics carry the struct's type parameters; bounded depth terminates, a self-embedding struct never does. Guarded by a decidable input guard that excludes the classes of 7 open findings, each refuted by a witness theorem. Tied to /repo on every run by differential execution of the built binary, go/types and an in-package oracle on ~185 generated structs (quick), compared inside Coq.",
        "design_ref": "DESIGN.md section 8, C02; section 13",
        "note": COMMON_NOTE + "Go semantics of composite literals/selectors, go/types' field presentation, TypeString, RE2 and text/template are modelled (listed in the evidence); the model-vs-code tie is sampled.",
        "technique": "Rocq proof (refinement of Go's selector rule by the literal flatten; pre-order decoding + evaluation of the generated literal) + L1 probe of the directive parsers + L2 differential run of shoot/go-types/oracle vs model",
        "coq_targets": ["Properties/C02.vo", "Corr/CtorCorr.vo", "Corr/CtorDirectiveCorr.vo", "Corr/TransferCorr.vo"],
    },
    "C12": {
        "text": "Theorems over all enum packages of the grammar, all strings, all integers and all prior target values: with -json/-text/-sql the enum marshals to its trimmed name, unmarshal(marshal c) = c, every non-string JSON / non-[]byte SQL value / undeclared name is an error that leaves the target unchanged; ParseEnum is Ok exactly on declared names and agrees with ValueMap(); TryParseEnum writes only on success; IsEnum v <-> T(v) (wrap to the kind's width) is in Values(). encoding/json enters as two functions with the law dec(enc s) = s (proved for the instance used by the run). Tied to enumer.tmpl/enumer.go/constraints by executing the generated codecs and shoot.ParseEnum/TryParseEnum/IsEnum over all 2^3 flag sets (+ -gorm on stub modules) and comparing inside Coq.",
        "design_ref": "DESIGN.md section 8, C12; section 13",
        "note": COMMON_NOTE + "JSON inputs are restricted to strings without escapes; gorm.io modules are stubs; errors compared by class.",
        "technique": "Rocq proof (assoc-list round trips under NoDup, wrap arithmetic) + differential execution of generated codecs vs model",
        "coq_targets": ["Properties/C12.vo", "Corr/EnumCorr.vo"],
    },
    "C13": {
        "text": "Machine-checked (Rocq) for all struct packages of the grammar, all start values and ALL option sequences: an option assigns exactly its field (frame lemma; option paths provably never overlap); With is the single run defaults ++ options, so each option field ends with the last option on it, else its default, else its previous value, and nothing else changes; With never fails on NewT's result; NewWith = new(T).With; an option exists for exactly the non-embedded non-shadowed fields with the documented names. Open findings K_opt_nil_embed, K_opt_promoted_setdefault, K_opt_generic are excluded by guards and refuted by witnesses. Tied to /repo by ~1,280 executed option runs per quick check over three entry points, compared inside Coq.",
        "design_ref": "DESIGN.md section 8, C13; section 13",
        "note": COMMON_NOTE + "options are modelled as selector assignments on tree-shaped values; any(t).(defaulter) is modelled by go/types' method set.",
        "technique": "Rocq proof by induction over option sequences (last-assignment-wins over non-overlapping field paths) on top of the C02 model + differential execution of With/NewWith vs model",
        "coq_targets": ["Properties/C13.vo", "Corr/CtorOptCorr.vo"],
    },
    "C14": {
        "text": "Has/Add/Remove theorems for all integers (Has after Add; not Has after Remove for f<>0; bits outside f untouched, bitwise and as ldiff equations; results stay in the kind's range). String() theorems for every bit-flag enum of the grammar with an unbounded number of flags and unbounded width: declared -> name; union of declared single-bit flags that is not declared -> names in ascending flag order joined by ', ' (zero and composites may be present); anything else -> decimal; the cases are exhaustive. Open findings: K_bit_map (-bit output never compiles; golden-locked; observed through one documented scratch shim), K_bit_receiver_shadow (type names I*/V*: compile error / wrong String; modelled, guarded, refuted), K_enum_implicit_type. Tied to enumer.tmpl/str.go by executing the generated methods exhaustively over [0,2^(top+2)) x flags per sampled enum.",
        "design_ref": "DESIGN.md section 8, C14; section 13",
        "note": COMMON_NOTE + "on this tree the -bit output is only executable through the K_bit_map shim; Go's fixed-width & | &^ are modelled by Z.land/lor/ldiff.",
        "technique": "Rocq proof (Z.testbit extensionality; loop invariant over the ascending value table) + exhaustive-per-enum differential execution vs model",
        "coq_targets": ["Properties/C14.vo", "Corr/EnumCorr.vo"],
    },
    "C09": {
        "text": "Theorem: every ToX/FromX plan that passes the decidable safety check (guards = embedded-pointer chain of the field read, parents first; allocation list closed under parents and ordered) never dereferences nil, for all well-typed inputs with arbitrary nil patterns, all recursion depths, any user functions and any receiver; nil in/nil out; FromX ignores the receiver's content. The check is evaluated inside Coq on the plans of every sampled pair (all certified); that the analysis yields safe plans for every job is not proved in general. Tied to the code by executing the generated methods on exhaustive nil patterns (k<=6) incl. dirty/zero/nil receivers.",
        "design_ref": "DESIGN.md section 8, C09; section 13",
        "note": COMMON_NOTE + "Values are trees (no aliasing between argument and receiver); panics inside user code are outside the property; shoot-new sides (constructors) are covered by findings, not by the no-panic theorem.",
        "technique": "Rocq proof (typing + path lemmas + induction over statements and recursion depth) of no-panic for certified plans + per-pair certificate evaluation + differential execution on nil-saturated values, compared inside Coq",
        "coq_targets": ["Properties/C09.vo", "Corr/MapperCorr.vo"],
    },
    "C03": {
        "text": "Machine-checked (Rocq) for all struct packages of the C02 grammar, all package views, all flags and ALL values: the accessor lists of shoot's analysis equal the declarative directive table (both when undirected, get/set only when directed, none for exported fields, filtered by the type-level getter/setter directive), the emitted methods are named Pascal(f)/Set+Pascal(f) and typed like the field; a run is refused iff an exported field carries a directive; get_f(set_g(v,x)) = (f = g ? x : get_f v) and a setter changes its field and no other leaf, for own and promoted accessors under Go's method selection; <T>Getter/<T>Setter embed exactly interfaces of embedded structs that are present in the package view and implemented by *E, their complete method set is table + embedded sets, and *T implements it (guards: no hidden accessor, acyclic). Three new open findings (once-per-name skip, excluded fields, hidden accessor) delimit the guard, each refuted by a Coq witness and replayed. Tied to /repo on every run by differential execution: built binary, go/types method sets/interfaces/Implements, and ~450 executed set-then-get runs, compared inside Coq.",
        "design_ref": "DESIGN.md section 8, C03; section 13",
        "note": COMMON_NOTE + "go/types (scope lookup, instantiation, assignability) is modelled on shoot's own output and the package view is explicit (K_embed_order); text/template is given as abstract declarations; the tie is sampled.",
        "technique": "Rocq refinement proof (once-per-name loop ⊑ directive table; embedded-interface admission; method-set inclusion via level composition) + frame lemmas on tree values + L1 probe of directive parsers + L2 differential run of shoot/go-types/oracle vs model",
        "coq_targets": ["Properties/C03.vo", "Corr/CtorGetSetCorr.vo", "Corr/CtorDirectiveCorr.vo", "Corr/TransferCorr.vo"],
    },
    "C07": {
        "text": "Theorems for all legal iteration oracles and all directory contents: every map iteration of the modelled code is followed by a lookup-only use or a sort (sorting two permutations of a duplicate-free list gives equal lists); schedule-independence of a whole run for all four subcommands; schedule- and history-independence and 'running twice is a fixpoint' for enum, rest (outside K_rest_alias_dup) and new (outside the embedding class of K_embed_order / K_aio_overlay_stale); the five open findings are refuted in the model or replayed on the binary. Tied to /repo by byte comparison along histories (fresh, repeat, edit with stale output, delete) x 5..20 process executions per point x relocated module x [dir] from the parent, with the model predicting outcome class, files written and 'equal to the previous step'.",
        "design_ref": "DESIGN.md section 8, C07; section 13",
        "note": COMMON_NOTE + "The model takes no path and no clock (observed, not proved, for the implementation: two cwd dependences are known findings). gofmt/goimports are deterministic parameters. For map 'own earlier output is not read' and the all-in-one fixpoint including Clean are tied by the correspondence only.",
        "technique": "Rocq proof (oracle-parametric model, permutation/sort lemmas, blindness to generated files via stable-sort/filter) + differential byte-level history runs of the shoot binary vs the model",
        "coq_targets": ["Properties/C07.vo", "Corr/GenCorr.vo"],
    },
    "C08": {
        "text": "Theorems over all generator states, all views and unbounded type lists: MakeData of each of the four generators is independent of the generator object's state (every per-type reset present, each shown necessary by a refutation with the reset switched off), hence Generate is a function of the views only; the view with an overlay is the view of a directory holding those files; MergeSources yields the first header, the concatenated declarations and the import union. The all-in-one output equals the one-at-a-time outputs in order (enum, rest: unconditionally; new: via overlay == directory, embedding included) and permuting -type changes no file content for generators that do not read generated files. Open findings K_embed_order and K_merge_stray_comment are proved as refutations in the model and replayed. Tied to /repo by running all-in-one / -sep / one-at-a-time / fresh / permuted invocations on generated multi-type packages of all four subcommands and comparing at AST level (astsig) inside Coq.",
        "design_ref": "DESIGN.md section 8, C08; section 13",
        "note": COMMON_NOTE + "Declarations are abstract (name, kind, doc, tokens); gofmt/goimports printing is a parameter; the per-type analyses are transcribed for the compact grammar of harness/histgen.py; for map the statement 'own earlier output is not read' is tied by the correspondence only.",
        "technique": "Rocq proof (state non-interference by reset discipline, induction over the type list, stable-sort/filter lemmas, overlay=directory simulation) + differential run of the shoot binary in five invocation modes vs the model, AST-level comparison",
        "coq_targets": ["Properties/C08.vo", "Corr/GenCorr.vo"],
    },
    "C11": {
        "text": "Machine-checked (Rocq) for all struct packages of the C03 grammar, all package views, the four -tagcase values and ALL values: makeJson's JSONList is exactly the fields Go selects that are exported or have an own or promoted accessor, in declaration order, each named by its explicit json tag else the -tagcase transform of its name; for any JSON encoder/decoder satisfying decode(encode kv) = kv on case-fold-distinct names, Unmarshal(Marshal(x)) into any w agrees with x on every exported field and every field with both accessors, gives zero to setter-only fields and leaves the rest of w untouched. Four open findings (uncompilable exported snake names, promoted MarshalJSON, lost promoted tags, nil embedded pointer) are refuted by Coq witnesses and replayed; three repaired ones have regression handlers. Tied to /repo on every run by executing json.Marshal / json.Unmarshal of the generated code on ~140 structs x 4 tag cases and comparing members, values and every field inside Coq.",
        "design_ref": "DESIGN.md section 8, C11; section 13",
        "note": COMMON_NOTE + "encoding/json is a Section parameter (one law) and is observed, not modelled; values are compared through their raw JSON text; explicit tags with options / `-` and colliding member names are outside the guard.",
        "technique": "Rocq proof (filter characterisation of makeJson, refinement to Go's selector rule, round trip as a run of assignments on non-overlapping leaf paths with encoding/json as Section variables) + L1 probe + L2 differential execution of json.Marshal/Unmarshal on generated code vs model",
        "coq_targets": ["Properties/C11.vo", "Corr/CtorJsonCorr.vo", "Corr/CtorDirectiveCorr.vo", "Corr/TransferCorr.vo"],
    },
    "C10": {
        "text": "Theorems over every result list, every status in Z, every body, every behaviour of encoding/json and every failing call: a generated method exists exactly for the accepted value lists (result names irrelevant); given json's answer for the body, it returns a nil error iff 200 <= status < 300 and Decode returned nil or io.EOF, with the decoded value (its address for pointer results) next to the response; 400..499 -> `client error <status>: <body>`, 500..599 -> `server error …`, <200 and 300..399 -> `not supported error <status>` (texts proved to determine status and body); JoinPath/Marshal/NewRequest/transport failures are returned unchanged with every other slot nil; every response that Do returns with a nil error accompanies the return; the result is nil on every error path; the number of returned values is the declared one. One refuted input class (open finding K_rest_redirect_response_dropped, golden-locked): when Do returns a response together with an error (failed redirect chain) the response is dropped — proved for every accepted signature and replayed on every run. The model (cook.go's result checks transcribed literally, the template rendered to abstract Go statements and executed) is tied to internal/restclient by generating ~60 clients per run with the real shoot, compiling them and driving every method against scripted real and fabricated responses, followed redirects and 13 kinds of failures, compared inside Coq (thorough: every status 200..599 x 4 body classes x all shapes).",
        "design_ref": "DESIGN.md section 8, C10; section 13",
        "note": COMMON_NOTE + "encoding/json is a model parameter: 'empty body -> zero value', 'malformed / wrong-typed body -> error' are measured per case, the theorems are conditional on json's answer. net/http is not modelled (cases start from what http.Client.Do returned; statuses < 200 and > 999 only through fabricated responses). Statuses >= 600 are reported as server errors by the code although the text says 'any other status' (outside the quantifier; stated as its own theorem). The response body's Close is compared but not part of the property.",
        "technique": "unchanged.",
        "coq_targets": ["Properties/C10.vo", "Corr/RestHandleCorr.vo"],
    },
    "C06": {
        "text": "Theorems over all directives (token lists with any number of placeholders, alias lists), all parameter lists over {context, scalar, pointer scalar, struct/pointer struct with arbitrary field lists, map}, all argument values, all iteration orders of the three Go maps involved and all instances of the standard-library functions (fmt %v, url.JoinPath, json.Marshal, the base URL's query — uninterpreted): inside decidable guards (well-formed directive; distinct, named parameters; at most one struct/map/context; placeholders bound to non-pointer scalars; arguments of the declared kinds whose path texts are single non-empty non-dot segments without `/`, `%`, `{`; no nil pointer-to-struct on GET/DELETE) the generator model accepts the method and the generated method equals the declarative request: directive verb, path with every placeholder replaced by the alias-resolved argument passed with the base URL to join_path, query parameters with url.Values.Set semantics (nil pointers omitted, map last), JSON body of the struct argument on POST/PUT/PATCH, per-verb default headers overridden by the headers= directive in key order, the caller's context — or the same error. For comments in the canonical rendering (`shoot: Verb(path)` + optional `shoot: alias={k:v},…`) the link between comment text and structured directive is itself a theorem about the model's regex matcher. 'Exactly one request' and 'methods are analysed independently' hold by construction of the model and are established for the code only by the differential run. Open findings (K_rest_path_percent = missing url.PathEscape, K_rest_subst_rescan, K_rest_nil_struct_ptr, K_rest_ptr_map, K_rest_alias_dup) are refuted by witness and replayed; nine repaired findings are replayed as regressions. Tied to internal/restclient by running the real shoot on generated interface packages (sources re-read with go/parser for the model's input), compiling the clients and calling every method against a recording server (compared inside Coq with the model and with the declarative spec), plus differential runs of the directive parsers (verifprobe) and of the stdlib instances.",
        "design_ref": "DESIGN.md section 8, C06; section 13",
        "note": COMMON_NOTE + "RE2 and text/template are not modelled (the six regexes are executed literally by a backtracking matcher validated differentially; the template's meaning is hand-written); parameter classification, struct-field extraction and the default header table are the model's own definitions on both sides of the refinement, tied to the code by the sampled run only; url.JoinPath, fmt %v, encoding/json enter as parameters (reference instances compared with the real functions on every run); the brace guard on path arguments is sufficient, not necessary; outside the claim: embedded struct fields, float scalars, two struct parameters, qualified named non-struct types on POST/PUT/PATCH (bound as the body on purpose), escaped base URLs.",
        "technique": "Rocq refinement proof (generator model + template semantics ⊑ declarative request; parse-of-render for the canonical directive form) by induction over parameter, field, token, entry and write lists and over symbolic strings + differential run of generated clients, directive parsers and stdlib instances vs the model",
        "coq_targets": ["Properties/C06.vo", "Corr/RestCorr.vo"],
    },
    "C16": {
        "text": "Theorems over all multi-file package skeletons (unbounded; function-local types and existing non-package .go files included), all four subcommands, all flag records / the literal argument vectors -type=L, -file=f, -type=*, and all iteration orders of Go's maps: the literal model of ParseCommonFlags/ListTypes/MakeData/confirmTypes/getGoFile/findCmdLine/ fileName/Generate/main's loop produces exactly the files (names, and types per file in order) the declarative reading of the property demands, each named after the declaring source file; a missing, wrong-kind, local or constant-less name, or two types for one output file, yields a diagnostic and no file; -file on an existing file outside the package generates nothing; the code's filters coincide with declarative eligibility; getGoFile is independent of map order. Guard: package-level type names are distinct ASCII identifiers, package file names are distinct and do not start with '.' or '_', an explicit -type list implies Separate (proved of every command line), and the input classes of TWO open findings (K_star_no_generate_line, K_star_sep_file), each refuted by a Coq witness and replayed against /repo (the first also characterised for every package). 'Every written file is listed in the message' holds by construction of the model and is carried by the correspondence run. Tied to /repo by running the built binary on random skeleton packages × command lines and comparing exit class, diagnostics, written files with their types (marker methods) and the message list inside Coq.",
        "design_ref": "DESIGN.md section 8, C16; section 13",
        "note": COMMON_NOTE + "The package is abstracted to a skeleton (what testNode/ListTypes/go-types inspect, which files packages.Load makes part of the package); template execution, goimports and MergeSources are not modelled (observed through marker methods); flag.Parse and the findCmdLine regexp (per comment line) are re-implemented by hand; `shoot map -to` and a missing -path/[dir] are not modelled; constants are typed const specs. Open: K_star_no_generate_line, K_star_sep_file (patch withheld). Repaired in /repo and inside the theorems: K_enum_missing_silent, K_lower_collision/K_filename_case_clash, K_local_type_listed.",
        "technique": "Rocq refinement proof (literal walkers/filters/naming/loops ⊑ declarative spec, permutation oracles for map iteration) + differential run of the shoot binary on generated multi-file packages vs the model, compared in Coq",
        "coq_targets": ["Properties/C16.vo", "Corr/CliCorr.vo"],
    },
    "C18": {
        "text": "PARTIAL. Proved, over all command lines, package syntax trees, directory states, map orders and fault oracles of an executable phase/effect-log model of one shoot run: (1) without failing system calls and without an obstructing directory entry (a directory at an output name; a non-file matching *.shoot<cmd>*.go while the all-in-one cleanup runs) a run that does not exit 0 changed nothing; (2) with a well-founded embedding relation (decidable form: declared-before-use, through generic instances and imported packages) the run ends in a deliberate exit of status 0/1/2: no unbounded recursion, and none of the 11 index expressions / nil-able dereferences of the transcribed Go functions is reached outside its guard; (3) status 2 comes from the command line only. NOT proved, sampled by the correspondence run only: absence of panics in library code and in generator code that is not transcribed; that the read phases (go list, Generate) write nothing (structural in the model); behaviour on syntactically broken packages. Open defects, modelled, refuted by witness and replayed: 2 non-terminations (embedding cycles, also through generic and imported types), 2 exit-1-after-write (obstructing directory entries). Tied to the binary by running it on typed damaged packages, histories of earlier outputs and two injected I/O faults and comparing exit status, diagnostic class (60) and directory diff with the model's prediction inside Coq.",
        "design_ref": "DESIGN.md section 8, C18; section 13",
        "note": COMMON_NOTE + "partial: packages.Load on syntactically broken input, the text produced by the templates (oracle), go/types facts (recomputed from the abstract syntax) and the untranscribed parts of the generators are outside the proofs; token deletions and compile errors are checked against the property itself only; I/O faults beyond CreateTemp/Write of the first file are theorem-only.",
        "technique": "Rocq proof over an executable phase/effect-log model (generic invariant pass over the literal control flow, guarded partial operations proved unreachable, rank-based termination over package scopes, write/cleanup frame lemmas) + differential run of the shoot binary on typed damaged inputs, directory histories and injected I/O faults, compared inside Coq",
        "coq_targets": ["Properties/C18.vo", "Corr/FailCorr.vo"],
    },
    "C17": {
        "text": "Theorems over all directory states (hard links, look-alikes, leftovers), all output lists in any order, all chunkings of every write, all temp names and ALL crash points (prefixes of the operation list): every output name shows the complete old or the complete new file; no pre-existing inode is ever written (hard links and open readers keep the old bytes); names that are not outputs, this run's temporaries or files selected by Clean are untouched; a selected file is removed only once every output is complete; after an exit-0 run no temporary remains, and after a run in which one system call fails (any position) the same invariants hold and no temporary remains unless the failing call is the rename; Clean selects exactly the matching files whose first line is the header of the same subcommand and not a -type=* header, so a file without that header is never removed; output names match *.shoot<cmd>*.go and are path components. NOT proved for the current code: that a selected file is superseded by the new all-in-one file (declarative `superseded`; proved for a repaired Clean, refuted for the current one: open finding K_clean_not_superseded). Tied to cmd/shoot/main.go and generatorbase.go by strace-level trace correspondence (incl. provoked ENOSPC and rename failures), inode/state diffs, L1 comparison of the header regexps and glob, SIGKILL and concurrent-reader runs.",
        "design_ref": "DESIGN.md section 8, C17; section 13",
        "note": COMMON_NOTE + "Partial: rename(2) atomicity and the kernel's behaviour under SIGKILL are assumptions of the model (sampled by >= 200 killed runs in the thorough tier); the directory is flat and holds regular files only; intermediate instants are checked on the replayed trace, not observed; all successful outputs were single-write, partial writes are observed only under ENOSPC. Findings: K_clean_own_output (found here, fixed in 31cd4c3, defect branch kept and refuted, current code proved free of it); K_clean_not_superseded (open: `map -type=S -to=D` output deleted by a later -type=* run that does not cover S; refuted by witness, replayed, prototype patch recorded).",
        "technique": "Rocq proof of an inode-level file-system model of the write protocol (invariants over all operation prefixes and over one failing call) + strace trace/inode-state correspondence with the real binary, compared inside Coq",
        "coq_targets": ["Properties/C17.vo", "Corr/FsCorr.vo"],
    },
}

NOT_CLAIMED = {}
