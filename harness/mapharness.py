"""Shared L2 machinery of the mapper checks (C05, C09, C15): build a scratch
module with one src/dest package pair per specification, run the real
`shoot map`, write in-package input values, one oracle main program that calls
the generated ToX/FromX under recover() and dumps the results by reflection,
one go build / run per batch, and the comparison inside Coq (Corr/MapperCorr.v)."""
import concurrent.futures as cf
import json
import re

import lib
import l2
import mapgen


def shoot_retry(shoot, cwd, args, timeout=90):
    """run shoot; a timeout (overloaded machine) is retried once with a long limit and then reported as a broken
    check, not as a verdict about the property"""
    r = l2.run_shoot(shoot, cwd, args, timeout=timeout)
    if r["timed_out"]:
        r = l2.run_shoot(shoot, cwd, args, timeout=600)
        if r["timed_out"]:
            raise lib.CheckBroken("shoot %s did not finish within 600 s in %s" % (" ".join(args), cwd))
    return r

ORACLE_LIB = r'''
func dump(b *strings.Builder, v reflect.Value) {
	switch v.Kind() {
	case reflect.Int, reflect.Int8, reflect.Int16, reflect.Int32, reflect.Int64:
		fmt.Fprintf(b, "i%d", v.Int())
	case reflect.Uint, reflect.Uint8, reflect.Uint16, reflect.Uint32, reflect.Uint64:
		fmt.Fprintf(b, "i%d", v.Uint())
	case reflect.Float32, reflect.Float64:
		f := v.Float()
		if f != math.Trunc(f) || math.Abs(f) > 1e15 {
			fmt.Fprintf(b, "!%v", f)
		} else {
			fmt.Fprintf(b, "i%d", int64(f))
		}
	case reflect.String:
		b.WriteString("s" + hex.EncodeToString([]byte(v.String())))
	case reflect.Bool:
		if v.Bool() {
			b.WriteString("b1")
		} else {
			b.WriteString("b0")
		}
	case reflect.Ptr:
		if v.IsNil() {
			b.WriteString("n")
		} else {
			b.WriteString("p(")
			dump(b, v.Elem())
			b.WriteString(")")
		}
	case reflect.Struct:
		b.WriteString("t(")
		for i := 0; i < v.NumField(); i++ {
			if i > 0 {
				b.WriteString(",")
			}
			b.WriteString(v.Type().Field(i).Name + "=")
			dump(b, v.Field(i))
		}
		b.WriteString(")")
	case reflect.Slice:
		if v.IsNil() {
			b.WriteString("n")
		} else {
			b.WriteString("l(")
			for i := 0; i < v.Len(); i++ {
				if i > 0 {
					b.WriteString(",")
				}
				dump(b, v.Index(i))
			}
			b.WriteString(")")
		}
	case reflect.Map:
		if v.IsNil() {
			b.WriteString("n")
		} else {
			var items []string
			it := v.MapRange()
			for it.Next() {
				var kb, vb strings.Builder
				dump(&kb, it.Key())
				dump(&vb, it.Value())
				items = append(items, kb.String()+":"+vb.String())
			}
			sort.Strings(items)
			b.WriteString("m(" + strings.Join(items, ",") + ")")
		}
	default:
		b.WriteString("?" + v.Kind().String())
	}
}

func meth(id string, v any, to, from string) {
	t := reflect.TypeOf(v)
	_, a := t.MethodByName(to)
	_, b := t.MethodByName(from)
	fmt.Printf("M %s %v %v\n", id, a, b)
}

func run(id string, f func() any) {
	defer func() {
		if r := recover(); r != nil {
			fmt.Printf("C %s panic %q\n", id, fmt.Sprint(r))
		}
	}()
	res := f()
	v := reflect.ValueOf(res)
	if v.Kind() == reflect.Ptr && v.IsNil() {
		fmt.Printf("C %s nil\n", id)
		return
	}
	var b strings.Builder
	dump(&b, v.Elem())
	fmt.Printf("C %s v %s\n", id, b.String())
}
'''


class Pair:
    def __init__(self, idx, spec):
        self.idx = idx
        self.spec = spec
        self.sub = "p%d" % idx
        self.cases = []          # dicts: dir, type, in (value or None), recv (value or None), kind
        self.shoot = None        # result of run_shoot
        self.status = "ok"       # ok | shoot-failed | build-failed
        self.errors = []
        self.generated = {}


def root_types(spec, tname):
    j = [j for j in spec["jobs"] if j["src"] == tname][0]
    return mapgen.N("src", j["src"]), mapgen.N("dst", j["dst"])


def write_pair(run, mod, pair):
    files = mapgen.render_go(pair.spec, "vmod", pair.sub)
    l2.write_files(mod, files)
    pair.sources = files


def run_shoot_pair(shoot, mod, pair, pre=None):
    cwd = mod / pair.sub / "src"
    if pre:
        pre(shoot, mod, pair)
        if pair.status != "ok":
            return
    r = shoot_retry(shoot, cwd, mapgen.shoot_args(pair.spec))
    pair.shoot = {"rc": r["rc"], "err": r["err"][-1500:], "panicked": r["panicked"], "timed_out": r["timed_out"]}
    if r["rc"] != 0 or r["panicked"] or r["timed_out"]:
        pair.status = "shoot-failed"
    for p in sorted(cwd.glob("*.shootmap*.go")):
        pair.generated[p.name] = p.read_text()
    if pair.status == "ok" and not pair.generated:
        pair.status = "shoot-failed"
        pair.shoot["err"] += " (no file generated)"


def values_file(pair, pkg):
    """in-package constructors of the input values (written after shoot ran)"""
    spec = pair.spec
    here = pkg
    pkgname = "src" if pkg == "src" else "dest"
    used = set()
    body = []
    for k, c in enumerate(pair.cases):
        items = []
        sty, dty = root_types(spec, c["type"])
        if pkg == "src":
            if c["dir"] in ("to", "rt"):
                items.append(("In", sty, c["in"]))
            else:
                items.append(("Recv", sty, c["recv"]))
        else:
            if c["dir"] == "from":
                items.append(("In", dty, c["in"]))
        for tag, t, v in items:
            tn = mapgen.go_type(t, here, mapgen.QUALS)
            if v is None:
                expr = "nil"
            else:
                expr = "&" + mapgen.render_go_value(spec, t, v, here)
                _collect_pkgs(spec, t, used)
            body.append("func Verif%s%d() *%s { return %s }\n" % (tag, k, tn, expr))
    text = "\n".join(body)
    used = {p for p in ("src", "dst", "common", "mapper") if p != here and (mapgen.QUALS[p] + ".") in text}
    imp = mapgen._imports(used, here, "vmod", pair.sub)
    return "package %s\n\n%sfunc ptrOf[T any](v T) *T { return &v }\n\nvar _ = ptrOf[int]\n\n%s" % (pkgname, imp, "\n".join(body))


def _collect_pkgs(spec, t, acc, seen=None):
    seen = seen if seen is not None else set()
    k = t[0]
    if k == "named":
        acc.add(t[1])
        key = (t[1], t[2])
        if key in seen:
            return
        seen.add(key)
        d = mapgen.struct_decl(spec, t[1], t[2])
        if d and d["kind"] == "struct":
            for f in d["fields"]:
                _collect_pkgs(spec, f["ty"], acc, seen)
    elif k in ("ptr", "slice"):
        _collect_pkgs(spec, t[1], acc, seen)
    elif k == "map":
        _collect_pkgs(spec, t[1], acc, seen)
        _collect_pkgs(spec, t[2], acc, seen)


def main_file(pairs):
    imps = []
    calls = []
    for p in pairs:
        if p.status != "ok" or not p.cases:
            continue
        s, d = "s%d" % p.idx, "d%d" % p.idx
        need_d = any(c["dir"] == "from" for c in p.cases) or bool(getattr(p, "setcalls", {}).get("dst"))
        tyname = p.spec["root"]
        imps.append('\t%s "vmod/%s/src"' % (s, p.sub))
        if need_d:
            imps.append('\t%s "vmod/%s/dest"' % (d, p.sub))
        to_name, from_name = mapgen.method_names(p.spec)
        calls.append('\tmeth("%d", &%s.%s{}, "%s", "%s")' % (p.idx, s, p.spec["root"], to_name, from_name))
        for k, c in enumerate(p.cases):
            cid = "%d.%d" % (p.idx, k)
            rec = getattr(p, "setcalls", {})
            if c["type"] == p.spec["root"] and c["dir"] == "to" and rec.get("dst"):
                need_d = True
                calls.append("\t%s.VerifCalls = nil" % d)
            if c["type"] == p.spec["root"] and c["dir"] == "from" and rec.get("src"):
                calls.append("\t%s.VerifCalls = nil" % s)
            if c["dir"] == "rt":
                # round trip on a fresh receiver: new(S).FromX(v.ToX())
                calls.append('\trun("%s", func() any { return new(%s.%s).%s(%s.VerifIn%d().%s()) })' % (
                    cid, s, c["type"], from_name, s, k, to_name))
            elif c["dir"] == "to":
                calls.append('\trun("%s", func() any { return %s.VerifIn%d().%s() })' % (cid, s, k, to_name))
            else:
                calls.append('\trun("%s", func() any { return %s.VerifRecv%d().%s(%s.VerifIn%d()) })' % (
                    cid, s, k, from_name, d, k))
            if c["type"] == p.spec["root"] and c["dir"] == "to" and rec.get("dst"):
                calls.append('\tfmt.Printf("S %s %%s\\n", strings.Join(%s.VerifCalls, ","))' % (cid, d))
            if c["type"] == p.spec["root"] and c["dir"] == "from" and rec.get("src"):
                calls.append('\tfmt.Printf("S %s %%s\\n", strings.Join(%s.VerifCalls, ","))' % (cid, s))
    return ('package main\n\nimport (\n\t"encoding/hex"\n\t"fmt"\n\t"math"\n\t"reflect"\n\t"sort"\n\t"strings"\n\n%s\n)\n\n'
            'var _ = math.Abs\nvar _ = sort.Strings\nvar _ = hex.EncodeToString\n%s\nfunc main() {\n%s\n}\n'
            % ("\n".join(imps), ORACLE_LIB, "\n".join(calls)))


def execute(run, pairs, shoot=None, par=6, pre=None, tag="b"):
    """build everything and fill c["obs"] for every case of every pair whose code compiled"""
    mod = l2.make_module(run, "vmod_" + tag)
    # the module is called vmod inside go.mod
    (mod / "go.mod").write_text((mod / "go.mod").read_text().replace("module vmod_" + tag, "module vmod"))
    l2.write_files(mod, {"common/common.go": mapgen.COMMON_GO})
    shoot = shoot or run.build_shoot()
    for p in pairs:
        write_pair(run, mod, p)
    with cf.ThreadPoolExecutor(max_workers=par) as ex:
        list(ex.map(lambda p: run_shoot_pair(shoot, mod, p, pre), pairs))
    for p in pairs:
        if p.status != "ok":
            continue
        l2.write_files(mod, {"%s/src/zz_verif_vals.go" % p.sub: values_file(p, "src"),
                             "%s/dest/zz_verif_vals.go" % p.sub: values_file(p, "dst")})
    binp = run.scratch / ("oracle_" + tag)
    for attempt in range(4):
        l2.write_files(mod, {"zmain/main.go": main_file(pairs)})
        rc, out, err = lib.sh(["go", "build", "-o", str(binp), "./zmain"], cwd=mod, env=lib.go_env(), timeout=1800)
        if rc == 0:
            break
        bad = {}
        cur = None
        for line in err.splitlines():
            m = re.match(r"# vmod/(p\d+)/", line)
            if m:
                cur = m.group(1)
                bad.setdefault(cur, [])
            elif line.startswith("# "):
                cur = None
            elif cur:
                bad[cur].append(line)
        if not bad:
            raise lib.CheckBroken("oracle build failed: " + err[-3000:])
        for p in pairs:
            if p.sub in bad:
                p.status = "build-failed"
                p.errors = bad[p.sub][:12]
    else:
        raise lib.CheckBroken("oracle build keeps failing: " + err[-3000:])
    rc, out, err = lib.sh([str(binp)], cwd=mod, timeout=1800)
    if rc != 0:
        raise lib.CheckBroken("oracle program failed: rc=%s %s" % (rc, err[-3000:]))
    obs = {}
    meths = {}
    setc = {}
    for line in out.splitlines():
        f = line.split(" ", 3)
        if len(f) >= 3 and f[0] == "C":
            obs[f[1]] = (f[2], f[3] if len(f) > 3 else "")
        elif len(f) >= 4 and f[0] == "M":
            meths[f[1]] = (f[2] == "true", f[3] == "true")
        elif len(f) >= 2 and f[0] == "S":
            setc[f[1]] = [x for x in (f[2] if len(f) > 2 else "").split(",") if x]
    for p in pairs:
        if p.status != "ok":
            continue
        p.methods = meths.get(str(p.idx))
        for k, c in enumerate(p.cases):
            c["setcalls"] = setc.get("%d.%d" % (p.idx, k))
            o = obs.get("%d.%d" % (p.idx, k))
            if o is None:
                raise lib.CheckBroken("oracle printed nothing for case %d.%d" % (p.idx, k))
            if o[0] == "panic":
                c["obs"] = ["panic", o[1]]
            elif o[0] == "nil":
                c["obs"] = ["nil"]
            else:
                if "!" in o[1] or "?" in o[1]:
                    raise lib.CheckBroken("oracle dump outside the value model: " + o[1][:300])
                c["obs"] = ["val", mapgen.parse_dump(o[1])]
    return mod


def coq_obs(o):
    if o[0] == "panic":
        return "OPanic"
    if o[0] == "nil":
        return "ONil"
    return "(OVal %s)" % mapgen.coq_val(o[1])


def coq_case(pair, c):
    def ptr(v):
        return "VNil" if v is None else "(VPtr %s)" % mapgen.coq_val(v)
    sc = c.get("setcalls")
    return ('{| c_ps := PS%d; c_type := "%s"; c_to := %s; c_in := %s; c_recv := %s; c_obs := %s; c_setcalls := %s; c_rt := %s |}'
            % (pair.idx, c["type"], "true" if c["dir"] in ("to", "rt") else "false", ptr(c["in"]),
               ptr(c.get("recv")), coq_obs(c["obs"]),
               "None" if sc is None else "(Some [%s])" % "; ".join('"%s"' % x for x in sc),
               "true" if c["dir"] == "rt" else "false"))


HEADER = ("From Coq Require Import String List ZArith NArith Bool.\n"
          "From Shoot Require Import Model.MapVal Model.Mapper Model.MapperEval Model.MapperSpec Model.MapperSpec15 Corr.MapperCorr.\n"
          "Import ListNotations.\nLocal Open Scope string_scope.\nLocal Open Scope list_scope.\n"
          "Set Printing Width 1000000.\nSet Printing Depth 1000000.\n")


def coq_verdicts(run, pairs, tag="mc", shard_cases=250, par=6, extra_defs="", fn="mismatches", cert=None, guard="pair_guard", gen=None, masks=None):
    """returns {(pair idx, case idx): verdict} for the non-zero verdicts, and {pair idx: in_guard};
    gen (a dict) receives {pair idx: gen_verdict} (Corr.gen_report: 0 outside gen_guard, 1 inside and safe, 2 inconsistent)"""
    shards, cur, n = [], [], 0
    for p in pairs:
        if p.status != "ok" or not p.cases:
            continue
        cur.append(p)
        n += len(p.cases)
        if n >= shard_cases:
            shards.append(cur)
            cur, n = [], 0
    if cur:
        shards.append(cur)

    def one(k):
        ps = shards[k]
        defs = []
        index = []
        terms = []
        for p in ps:
            defs.append("Definition PS%d : pairspec := %s." % (p.idx, mapgen.render_coq_pair(p.spec)))
            for ci, c in enumerate(p.cases):
                index.append((p.idx, ci))
                terms.append(coq_case(p, c))
        guards = "Definition G := Eval vm_compute in [%s].\nPrint G.\n" % "; ".join(
            "(%d%%N, if %s (ps_env PS%d) (ps_fuel PS%d) (ps_jobs PS%d) then 1%%N else 0%%N)" % (
                p.idx, ("%s_w (ps_way PS%d)" % (guard, p.idx)) if guard in ("pair_guard", "pair_guard15") else guard, p.idx, p.idx, p.idx)
            for p in ps)
        ways = "Definition W := Eval vm_compute in way_mismatches [%s].\nPrint W.\n" % "; ".join(
            "(%d%%N, PS%d, %s, %s)" % (p.idx, p.idx, "true" if p.methods[0] else "false", "true" if p.methods[1] else "false")
            for p in ps if getattr(p, "methods", None))
        body = (HEADER + extra_defs + "\n".join(defs) + "\nDefinition cases : list case := [\n%s\n].\n"
                "Definition M := Eval vm_compute in %s cases.\nPrint M.\n%s%s" % (";\n".join(terms), fn, guards, ways))
        if cert is not None:
            body += "Definition UC := Eval vm_compute in uncertified cases.\nPrint UC.\n"
        if masks is not None:
            body += "Definition GMASK := Eval vm_compute in guard15_report [%s].\nPrint GMASK.\n" % "; ".join(
                "(%d%%N, PS%d)" % (p.idx, p.idx) for p in ps)
        if gen is not None:
            body += "Definition GENR := Eval vm_compute in gen_report [%s].\nPrint GENR.\n" % "; ".join(
                "(%d%%N, PS%d)" % (p.idx, p.idx) for p in ps)
        out = run.coq_eval("%s_%d" % (tag, k), body)
        res = {index[i]: v for i, v in lib.parse_coq_list_pairs(out, "M")}
        if cert is not None:
            cert.extend(index[i] for i, _ in lib.parse_coq_list_pairs(out, "UC"))
        g = {i: bool(v) for i, v in lib.parse_coq_list_pairs(out, "G")}
        if masks is not None:
            masks.update({i: v for i, v in lib.parse_coq_list_pairs(out, "GMASK")})
        if gen is not None:
            gen.update({i: v for i, v in lib.parse_coq_list_pairs(out, "GENR")})
        for i, v in lib.parse_coq_list_pairs(out, "W"):
            res[(i, -1)] = v
        return res, g
    verdicts, guards = {}, {}
    with cf.ThreadPoolExecutor(max_workers=par) as ex:
        for res, g in ex.map(one, range(len(shards))):
            verdicts.update(res)
            guards.update(g)
    return verdicts, guards


def replay_dict(pair, ci=None, verdict=None, extra=None):
    c = pair.cases[ci] if ci is not None else None
    d = {"spec": pair.spec, "sources": pair.sources, "shoot_cmd": "cd %s/src && shoot %s" % (pair.sub, " ".join(mapgen.shoot_args(pair.spec))),
         "shoot": pair.shoot, "generated": pair.generated, "status": pair.status, "errors": pair.errors}
    if c is not None:
        d["case"] = c
        d["verdict"] = verdict
    if extra:
        d.update(extra)
    return d


def dumps(x):
    return json.dumps(x, default=str)


# ------------------------------------------------------------------ known-finding witnesses
def witness_outcome(run, shoot, finding, check=None):
    """run the witness of a known finding; returns 'buggy' | 'correct' | 'other: …'
    compile-type witnesses: buggy = the generated package does not build;
    witnesses with a main program: it prints BUGGY / CORRECT"""
    w = finding["witness"]
    mod = l2.make_module(run, "kf_" + finding["id"])
    (mod / "go.mod").write_text((mod / "go.mod").read_text().replace("module kf_" + finding["id"], "module vmod"))
    files = {"src/src.go": w["src"], "dest/dest.go": w["dest"]}
    if "common" in w:
        files["common/common.go"] = w["common"]
    l2.write_files(mod, files)
    for key, sub in (("pre", "dest"), ("pre_src", "src")):
        if key in w:      # `shoot new -getset` on the shoot-new side first
            r0 = shoot_retry(shoot, mod / sub, w[key])
            if r0["rc"] != 0 or r0["panicked"]:
                return "other: shoot %s failed: %s" % (" ".join(w[key]), r0["err"][-300:])
    r = shoot_retry(shoot, mod / "src", w.get("args", ["map", "-path=../dest", "-type=T"]))
    if check:
        return check(r, mod)
    if r["panicked"]:
        return "other: shoot panicked: " + r["err"][-300:]
    if r["rc"] != 0:
        return "other: shoot exit %d: %s" % (r["rc"], r["err"][-300:])
    if "main" in w:
        l2.write_files(mod, {"zmain/main.go": w["main"]})
        rc, out, err = l2.go_run(mod, "./zmain", timeout=900)
        if rc != 0:
            return "other: witness program failed: " + err[-300:]
        o = out.strip()
        return {"BUGGY": "buggy", "CORRECT": "correct"}.get(o, "other: " + o[:200])
    ok, errs = l2.go_build(mod, ("./src",))
    if ok:
        return "correct"
    txt = " ".join(" ".join(v) for v in errs.values())
    return "buggy" if ("undefined" in txt or "cannot use" in txt or "cannot convert" in txt) else "other: " + txt[:300]


STATE_LEAK_SRC = """package src

type Order2 struct {
	ID   string
	Name string
}

type Order struct {
	ID   string
	Name string
}
"""
STATE_LEAK_DEST = """package dest

type Order2 struct {
	id   string
	name string
}

type Order struct {
	ID   string
	Name string
}
"""


def state_leak_outcome(run, shoot, finding):
    """K_map_state_leak (fixed): -type=Order2,Order must not reuse Order2's constructor/accessors for plain Order"""
    mod = l2.make_module(run, "kf_" + finding["id"])
    (mod / "go.mod").write_text((mod / "go.mod").read_text().replace("module kf_" + finding["id"], "module vmod"))
    l2.write_files(mod, {"src/src.go": STATE_LEAK_SRC, "dest/dest.go": STATE_LEAK_DEST})
    r0 = shoot_retry(shoot, mod / "dest", ["new", "-getset", "-type=Order2"])
    if r0["rc"] != 0:
        return "other: shoot new failed: " + r0["err"][-300:]
    r = shoot_retry(shoot, mod / "src", ["map", "-path=../dest", "-type=Order2,Order"])
    if r["rc"] != 0 or r["panicked"]:
        return "other: shoot map failed: " + r["err"][-300:]
    txt = (mod / "src" / "src.shootmap.order.go").read_text()
    if "NewOrder" in txt or "SetId" in txt:
        return "buggy"
    ok, errs = l2.go_build(mod, ("./src",))
    return "correct" if ok else "other: " + str(errs)[:300]
