"""Struct-package specs for the `shoot new` properties (C02, C13, C03, C11; reusable
by C01, C07, C08, C15): generator, Go renderer, Coq renderer.

A spec mirrors coq/Model/Ctor.v:

  ty     ("basic", n) | ("ptr", t) | ("slice", t) | ("map", k, v)
         | ("named", pkg, name, [args]) | ("param", n)
  fdecl  {"names": [..] ([] = embedded), "ty": ty, "doc": str, "tag": None | raw literal,
          "comment": [source lines of the doc comment]}
  sdecl  {"pkg": "" | "helper", "name", "tparams": [{"names": [..], "con": ("ident"|"other", text)}],
          "doc": str, "comment": [..], "fields": [fdecl]}
  pkg    {"name": package name, "structs": [sdecl of the package under generation, declaration order],
          "extra_decls": [Go source of non-struct declarations], "features": {...}}

`doc` is what go/ast's CommentGroup.Text() returns for the rendered comment
(computed by doc_text below for the restricted comment forms we render).

API:  gen_struct_pkg(rng, name, **opts) -> pkg      render_go(pkg) -> {file: text}
      coq_pkg(pkg) -> Coq term of type pkg_spec (helper structs included)
      HELPER_GO / HELPER_STRUCTS: the fixed helper package every scratch module carries.
"""
import re

# ------------------------------------------------------------------ helper package
HELPER_GO = '''package helper

type Kind int

type Pt struct {
	X, Y int
}

type HBase struct {
	HX int
	HY string
}

type HDeep struct {
	HBase
	HZ int
}

// a struct with an unexported field: only its exported part can be used from another package
type HPriv struct {
	HA int
	hb int
}
'''


def T_basic(n):
    return ("basic", n)


def T_named(pkg, name, args=()):
    return ("named", pkg, name, list(args))


def fdecl(names, ty, comment=(), tag=None):
    comment = list(comment)
    return {"names": list(names), "ty": ty, "comment": comment, "doc": doc_text(comment), "tag": tag}


GO_KEYWORDS = {"break", "default", "func", "interface", "select", "case", "defer", "go", "map", "struct", "chan",
               "else", "goto", "package", "switch", "const", "fallthrough", "if", "range", "type", "continue",
               "for", "import", "return", "var"}
# identifiers the generated code itself uses next to the parameters
RESERVED = {"helper", "time", "shoot", "json", "nil", "true", "false", "int", "string", "bool", "any", "opt", "opts",
            "data", "err", "new", "len", "cap", "make", "append"}

# ------------------------------------------------------------------ case transforms (Python port, used only
# to steer generation; verdicts come from the Coq model, which is tied to the Go code by transfer_l1)


def _go_pascal(s):
    # ToPascalCase: split on "_", upper-case the first byte of every non-empty part
    if s == "":
        return ""
    out = []
    for p in s.split("_"):
        if p == "":
            continue
        out.append(p[0].upper() + p[1:] if "a" <= p[0] <= "z" else p)
    return "".join(out)


def split_camel_tokens(s):
    if s == "":
        return [""]
    toks, cur = [], s[0]
    for i in range(1, len(s)):
        c = s[i]
        prev = s[i - 1]
        nxt_lower = i + 1 < len(s) and s[i + 1].islower() and s[i + 1].isascii()
        if "A" <= c <= "Z" and (("a" <= prev <= "z") or nxt_lower):
            toks.append(cur)
            cur = c
        else:
            cur += c
    toks.append(cur)
    return toks


def to_camel(s):
    """port of transfer.ToCamelCase (ASCII)"""
    if s == "":
        return ""
    toks = split_camel_tokens(_go_pascal(s))
    out = []
    for i, t in enumerate(toks):
        if i == 0:
            out.append(t.lower())
        elif t:
            out.append(t[0].upper() + t[1:].lower())
    return "".join(out)


# ------------------------------------------------------------------ doc comments
def is_directive_comment(text):
    """go/ast isDirective on the text after the // marker"""
    if text.startswith(("line ", "extern ", "export ")):
        return True
    m = re.match(r"^([a-z0-9]+):([a-z0-9])", text)
    return bool(m)


def doc_text(comment_lines):
    """CommentGroup.Text() for a group of // line comments (source lines incl. the marker)"""
    lines = []
    for src in comment_lines:
        assert src.startswith("//"), src
        t = src[2:]
        if is_directive_comment(t):
            continue
        if t.startswith(" "):
            t = t[1:]
        lines.append(t.rstrip(" \t\r\n"))
    # remove leading / trailing blank lines, collapse runs of blank lines
    out = []
    for l in lines:
        if l == "" and (not out or out[-1] == ""):
            continue
        out.append(l)
    while out and out[-1] == "":
        out.pop()
    if not out:
        return ""
    return "\n".join(out) + "\n"


HELPER_STRUCTS = [
    {"pkg": "helper", "name": "Pt", "tparams": [], "doc": "", "comment": [],
     "fields": [fdecl(["X", "Y"], T_basic("int"))]},
    {"pkg": "helper", "name": "HBase", "tparams": [], "doc": "", "comment": [],
     "fields": [fdecl(["HX"], T_basic("int")), fdecl(["HY"], T_basic("string"))]},
    {"pkg": "helper", "name": "HDeep", "tparams": [], "doc": "", "comment": [],
     "fields": [fdecl([], T_named("helper", "HBase")), fdecl(["HZ"], T_basic("int"))]},
    {"pkg": "helper", "name": "HPriv", "tparams": [], "doc": "", "comment": [],
     "fields": [fdecl(["HA"], T_basic("int")), fdecl(["hb"], T_basic("int"))]},
]


# ------------------------------------------------------------------ Go rendering
def go_type(t, pkgname=None, subst=None):
    k = t[0]
    if k == "basic":
        return t[1]
    if k == "ptr":
        return "*" + go_type(t[1], pkgname, subst)
    if k == "slice":
        return "[]" + go_type(t[1], pkgname, subst)
    if k == "map":
        return "map[%s]%s" % (go_type(t[1], pkgname, subst), go_type(t[2], pkgname, subst))
    if k == "named":
        s = (t[1] + "." if t[1] else "") + t[2]
        if t[3]:
            s += "[" + ", ".join(go_type(a, pkgname, subst) for a in t[3]) + "]"
        return s
    if k == "param":
        if subst and t[1] in subst:
            return go_type(subst[t[1]], pkgname, None)
        return t[1]
    raise ValueError(t)


def type_string(t):
    """types.TypeString with shoot's qualifier (type arguments joined by ',')"""
    k = t[0]
    if k == "basic":
        return t[1]
    if k == "ptr":
        return "*" + type_string(t[1])
    if k == "slice":
        return "[]" + type_string(t[1])
    if k == "map":
        return "map[%s]%s" % (type_string(t[1]), type_string(t[2]))
    if k == "named":
        s = (t[1] + "." if t[1] else "") + t[2]
        if t[3]:
            s += "[" + ", ".join(type_string(a) for a in t[3]) + "]"
        return s
    return t[1]


def uses_pkg(t, q):
    k = t[0]
    if k in ("ptr", "slice"):
        return uses_pkg(t[1], q)
    if k == "map":
        return uses_pkg(t[1], q) or uses_pkg(t[2], q)
    if k == "named":
        return t[1] == q or any(uses_pkg(a, q) for a in t[3])
    return False


def render_struct(sd):
    out = []
    for c in sd.get("comment", []):
        out.append(c)
    tp = ""
    if sd["tparams"]:
        tp = "[" + ", ".join("%s %s" % (", ".join(g["names"]), g["con"][1]) for g in sd["tparams"]) + "]"
    out.append("type %s%s struct {" % (sd["name"], tp))
    for fd in sd["fields"]:
        for c in fd.get("comment", []):
            out.append("\t" + c)
        line = "\t"
        if fd["names"]:
            line += ", ".join(fd["names"]) + " "
        line += go_type(fd["ty"])
        if fd["tag"] is not None:
            line += " " + fd["tag"]
        out.append(line)
    out.append("}")
    return "\n".join(out) + "\n"


def render_go(pkg, module="vmod"):
    """-> {relative file name: text}; one file <name>.go with every struct of the package"""
    body = []
    for d in pkg.get("extra_decls", []):
        body.append(d)
    for sd in pkg["structs"]:
        body.append(render_struct(sd))
    text = "\n".join(body)
    imports = []
    alltys = [fd["ty"] for sd in pkg["structs"] for fd in sd["fields"]]
    if any(uses_pkg(t, "time") for t in alltys) or "time." in text:
        imports.append('"time"')
    if any(uses_pkg(t, "helper") for t in alltys):
        imports.append('"%s/helper"' % module)
    if "fmt." in text:
        imports.append('"fmt"')
    head = "package %s\n\n" % pkg["name"]
    if imports:
        head += "import (\n" + "".join("\t%s\n" % i for i in sorted(imports)) + ")\n\n"
    if pkg.get("generate_line"):
        head += "//go:generate shoot %s\n\n" % pkg["generate_line"]
    return {pkg["name"] + ".go": head + text}


# ------------------------------------------------------------------ Coq rendering
def coq_str(s):
    return '"' + s.replace('"', '""') + '"'


def coq_list(xs):
    return "[" + "; ".join(xs) + "]"


def coq_ty(t):
    k = t[0]
    if k == "basic":
        return "(TBasic %s)" % coq_str(t[1])
    if k == "ptr":
        return "(TPtr %s)" % coq_ty(t[1])
    if k == "slice":
        return "(TSlice %s)" % coq_ty(t[1])
    if k == "map":
        return "(TMap %s %s)" % (coq_ty(t[1]), coq_ty(t[2]))
    if k == "named":
        return "(TNamed %s %s %s)" % (coq_str(t[1]), coq_str(t[2]), coq_list([coq_ty(a) for a in t[3]]))
    return "(TParam %s)" % coq_str(t[1])


def coq_fdecl(fd):
    return ("{| fd_names := %s; fd_ty := %s; fd_doc := %s; fd_tag := %s |}"
            % (coq_list([coq_str(n) for n in fd["names"]]), coq_ty(fd["ty"]), coq_str(fd["doc"]),
               "None" if fd["tag"] is None else "(Some %s)" % coq_str(fd["tag"])))


def coq_sdecl(sd):
    tps = coq_list(["{| tp_names := %s; tp_con := %s %s |}"
                    % (coq_list([coq_str(n) for n in g["names"]]),
                       "CIdent" if g["con"][0] == "ident" else "COther", coq_str(g["con"][1]))
                    for g in sd["tparams"]])
    return ("{| sd_pkg := %s; sd_name := %s; sd_tparams := %s; sd_doc := %s; sd_fields := %s |}"
            % (coq_str(sd["pkg"]), coq_str(sd["name"]), tps, coq_str(sd.get("doc", "")),
               coq_list([coq_fdecl(f) for f in sd["fields"]])))


def coq_pkg(pkg):
    return coq_list([coq_sdecl(sd) for sd in pkg["structs"] + HELPER_STRUCTS])


# ------------------------------------------------------------------ structure helpers (spec level)
def find_struct(pkg, q, n):
    for sd in pkg["structs"] + HELPER_STRUCTS:
        if sd["pkg"] == q and sd["name"] == n:
            return sd
    return None


def struct_of(pkg, t):
    if t[0] == "ptr":
        t = t[1]
    if t[0] == "named":
        return find_struct(pkg, t[1], t[2])
    return None


def short_name(t):
    if t[0] == "ptr":
        t = t[1]
    return t[2] if t[0] == "named" else ""


def subst_ty(s, t):
    k = t[0]
    if k == "param":
        return s.get(t[1], t)
    if k in ("ptr", "slice"):
        return (k, subst_ty(s, t[1]))
    if k == "map":
        return (k, subst_ty(s, t[1]), subst_ty(s, t[2]))
    if k == "named":
        return (k, t[1], t[2], [subst_ty(s, a) for a in t[3]])
    return t


def tparam_names(sd):
    return [n for g in sd["tparams"] for n in g["names"]]


def struct_fields(sd, args):
    """[(name, type, embedded)] with the type arguments substituted"""
    s = dict(zip(tparam_names(sd), args))
    res = []
    for fd in sd["fields"]:
        t = subst_ty(s, fd["ty"])
        if not fd["names"]:
            res.append((short_name(fd["ty"]), t, True))
        else:
            for n in fd["names"]:
                res.append((n, t, False))
    return res


def occurrences(pkg, sd, args, pre=(), depth=0, limit=8):
    """every field occurrence reachable from sd through embedded structs, depth-first:
    [(path tuple, name, type, embedded, is_struct, via_ptr_hops tuple)]"""
    res = []
    if depth > limit:
        return res
    for (n, t, emb) in struct_fields(sd, args):
        sub = struct_of(pkg, t) if emb else None
        res.append((pre + (n,), n, t, emb, sub is not None))
        if sub is not None:
            sargs = (t[1] if t[0] == "ptr" else t)[3]
            res.extend(occurrences(pkg, sub, sargs, pre + (n,), depth + 1, limit))
    return res


def embed_depth(pkg, sd, seen=()):
    d = 0
    for fd in sd["fields"]:
        if not fd["names"]:
            sub = struct_of(pkg, fd["ty"])
            if sub is not None and sub["name"] not in seen:
                d = max(d, 1 + embed_depth(pkg, sub, seen + (sd["name"],)))
    return d


# ------------------------------------------------------------------ generator
NAME_FORMS = {
    "lower": ["a", "b", "c", "k", "n", "v", "w", "x", "y", "z", "id", "name", "host", "port", "size", "count"],
    "camel": ["userName", "itemCount", "maxSize", "baseDir", "isOpen", "lastSeen"],
    "snake": ["user_name", "item_count", "max_size", "base_dir", "is_open", "last_seen_at"],
    "acronym": ["userID", "apiURL", "httpCode", "xmlData", "dbDSN", "idURL"],
    "allcaps": ["MAXSIZE", "DEBUG", "URL", "ID", "HTTP"],
    "exported": ["Name", "Count", "Host", "Label", "Weight", "Owner"],
}

BASIC_TYPES = ["int", "string", "bool", "int64", "uint8", "float64", "int32", "uint", "int", "string", "string"]

DEF_VALUES = {
    "int": ["80", "7", "0", "1024", "-3"], "int64": ["9", "100"], "int32": ["5"], "uint": ["3"], "uint8": ["200", "1"],
    "string": ['"abc"', '"x y"', '""', '"a,b"', '"dflt"', '"v1"'], "bool": ["true", "false"], "float64": ["1.5", "2"],
    "dur": ["5", "time.Second", "3 * time.Millisecond"],
}


def rand_type(rng, tparams=(), depth=0, allow_helper=True):
    r = rng.random()
    if tparams and r < 0.18:
        return ("param", rng.choice(tparams))
    if depth < 2 and r < 0.30:
        return ("ptr", rand_type(rng, tparams, depth + 2, allow_helper)) if rng.random() < 0.55 else \
               ("slice", rand_type(rng, tparams, depth + 1, allow_helper))
    if depth < 2 and r < 0.38:
        return ("map", T_basic(rng.choice(["string", "int"])), rand_type(rng, tparams, depth + 1, allow_helper))
    if r < 0.46:
        return T_named("time", "Duration")
    if allow_helper and r < 0.54:
        return T_named("helper", rng.choice(["Kind", "Pt"]))
    return T_basic(rng.choice(BASIC_TYPES))


def _has_param(t):
    if t[0] == "param":
        return True
    if t[0] in ("ptr", "slice"):
        return _has_param(t[1])
    if t[0] == "map":
        return _has_param(t[1]) or _has_param(t[2])
    if t[0] == "named":
        return any(_has_param(a) for a in t[3])
    return False


def def_for_type(rng, t):
    if t[0] == "basic" and t[1] in DEF_VALUES:
        return rng.choice(DEF_VALUES[t[1]])
    if t == T_named("time", "Duration"):
        return rng.choice(DEF_VALUES["dur"])
    if t[0] in ("ptr", "slice", "map"):
        r = rng.random()
        if r < 0.2:
            return "nil"
        if not _has_param(t):
            # a NON-nil default of a pointer / slice / map field (an option passing nil must override it)
            if t[0] == "ptr":
                return "new(%s)" % go_type(t[1])
            return "%s{}" % go_type(t)
    return None


DOC_NOISE = ["some field", "shoot new", "shoot:new", "note: shoot: new", "Shoot", "TODO(x): tune"]


def field_comment(rng, want_new, defv, want_get=None, want_set=None, messy=0.25):
    """source comment lines for the requested directives (plus noise); returns [] for none"""
    parts = []
    if want_new:
        parts.append(rng.choice(["new", "new", "New", "NEW"]) if rng.random() < messy else "new")
    if want_get:
        parts.append("get")
    if want_set:
        parts.append("set")
    if defv is not None:
        kw = "default" if rng.random() < 0.2 else "def"
        parts.append("%s=%s" % (kw, defv))
    lines = []
    if rng.random() < 0.15:
        lines.append("// " + rng.choice(DOC_NOISE))
    if parts:
        rng.shuffle(parts)
        style = rng.random()
        if len(parts) > 1 and style < 0.25:
            # one directive per line
            for p in parts:
                lines.append("//shoot: " + p)
        else:
            sep = rng.choice([";", ";", "; ", " ;"]) if rng.random() < messy else ";"
            head = rng.choice(["//shoot: ", "// shoot: ", "//shoot:  ", "// Shoot: ", "//SHOOT: "]) if rng.random() < messy else "//shoot: "
            tail = ";" if rng.random() < 0.1 else ""
            lines.append(head + sep.join(parts) + tail)
    if lines and rng.random() < 0.1:
        lines.append("// " + rng.choice(DOC_NOISE))
    return lines


def pick_names(rng, forms, k, avoid, avoid_camel=()):
    pool = [n for f in forms for n in NAME_FORMS[f] if n not in avoid and to_camel(n) not in avoid_camel]
    rng.shuffle(pool)
    return pool[:k]


def depth_names(pkg, t):
    """{(name, depth)} of the occurrences below an embedded field of type t (the field itself at depth 0)"""
    sub = struct_of(pkg, t)
    res = {(short_name(t), 0)}
    if sub is not None:
        sargs = (t[1] if t[0] == "ptr" else t)[3]
        for o in occurrences(pkg, sub, sargs):
            res.add((o[1], len(o[0])))
    return res


def gen_struct_pkg(rng, name, nstructs=None, p_embed=0.6, p_shadow=0.45, p_new=0.3, p_def=0.3,
                   p_generic=0.2, p_tag=0.25, p_under=0.15, p_multi=0.25, getset_dirs=False,
                   allow_ptr_embed=True, forms=None, max_depth=3, p_helper_embed=0.1):
    """a package of 1..N struct declarations; later structs may embed earlier ones (acyclic)."""
    forms = forms or list(NAME_FORMS)
    n = nstructs or rng.choice([1, 2, 3, 3, 4, 5])
    pkg = {"name": name, "structs": [], "extra_decls": [], "features": {}}
    tnames = ["Base", "Son", "Top", "Node", "Item", "Conf", "User", "Order", "Leaf", "Mid"]
    rng.shuffle(tnames)
    uses_number = False
    for i in range(n):
        sname = tnames[i]
        generic = rng.random() < p_generic
        tps = []
        if generic:
            if rng.random() < 0.3:
                # three groups, two NON-adjacent ones with the same constraint (the order of NewT's type
                # parameters must be the struct's, not "grouped by constraint")
                c1, c2 = rng.choice([("comparable", "any"), ("any", "Number"), ("any", "comparable"), ("Number", "any")])
                uses_number = uses_number or "Number" in (c1, c2)
                tps = [{"names": ["K"], "con": ("ident", c1)}, {"names": ["V"], "con": ("ident", c2)},
                       {"names": ["W"], "con": ("ident", c1)}]
                if rng.random() < 0.3:
                    tps.append({"names": ["X"], "con": ("ident", c2)})
            elif rng.random() < 0.3:
                tps = [{"names": ["K", "V"], "con": ("ident", rng.choice(["comparable", "any"]))}]
            elif rng.random() < 0.5:
                tps = [{"names": ["T"], "con": ("ident", "any")}, {"names": ["U"], "con": ("ident", "comparable")}]
            else:
                c = rng.choice(["any", "comparable", "Number"])
                uses_number = uses_number or c == "Number"
                tps = [{"names": ["T"], "con": ("ident", c)}]
        tpn = [x for g in tps for x in g["names"]]
        sd = {"pkg": "", "name": sname, "tparams": tps, "doc": "", "comment": [], "fields": []}
        # embedded parts
        embeds = []
        if pkg["structs"] and rng.random() < p_embed:
            cands = [s for s in pkg["structs"] if embed_depth(pkg, s) < max_depth]
            rng.shuffle(cands)
            taken_nd = set()
            for s in cands[:rng.choice([1, 1, 2, 2, 3])]:
                args = [T_basic(rng.choice(["int", "string"])) if not tpn or rng.random() < 0.6 else ("param", rng.choice(tpn))
                        for _ in tparam_names(s)]
                # a constraint Number only admits int here
                k = 0
                for g in s["tparams"]:
                    for _ in g["names"]:
                        if g["con"][1] == "Number":
                            args[k] = T_basic("int")
                        elif g["con"][1] == "comparable" and args[k][0] == "param":
                            args[k] = T_basic("string")
                        k += 1
                t = T_named("", s["name"], args)
                if allow_ptr_embed and rng.random() < 0.4:
                    t = ("ptr", t)
                nd_ = depth_names(pkg, t)
                if nd_ & taken_nd and rng.random() < 0.9:
                    continue                      # would be ambiguous at one depth
                taken_nd |= nd_
                embeds.append(t)
        if rng.random() < p_helper_embed:
            t = T_named("helper", rng.choice(["HBase", "HDeep"]))
            if rng.random() < 0.3:
                t = ("ptr", t)
            nd_ = depth_names(pkg, t)
            clash = any(nd_ & depth_names(pkg, u) for u in embeds)
            if not clash:
                embeds.append(t)
        # names reachable below (candidates for shadowing)
        below = []
        for t in embeds:
            sub = struct_of(pkg, t)
            sargs = (t[1] if t[0] == "ptr" else t)[3]
            below += [o[1] for o in occurrences(pkg, sub, sargs)]
        nown = rng.choice([1, 2, 2, 3, 3, 4, 5]) if embeds else rng.choice([1, 2, 3, 3, 4, 5, 6])
        used = set(short_name(t) for t in embeds)
        used_camel = set(to_camel(b) for b in below) | set(to_camel(u) for u in used)
        groups = []
        any_new = rng.random() < p_new
        k = 0
        while k < nown:
            multi = rng.random() < p_multi and k + 1 < nown
            cnt = 2 if multi else 1
            names = []
            for _ in range(cnt):
                if below and rng.random() < p_shadow:
                    cand = [b for b in below if b not in used]
                    if cand:
                        nm = rng.choice(cand)
                        names.append(nm)
                        used.add(nm)
                        continue
                got = pick_names(rng, forms, 1, used, used_camel)
                if got:
                    names.append(got[0])
                    used.add(got[0])
                    used_camel.add(to_camel(got[0]))
            if not names:
                break
            k += len(names)
            t = rand_type(rng, tpn)
            under = rng.random() < p_under
            if under:
                names = ["_" + x for x in names]
            want_new = any_new and rng.random() < 0.5
            defv = def_for_type(rng, t) if rng.random() < p_def else None
            exported = any(x[:1].isupper() for x in names)
            wg = ws = None
            if getset_dirs and not exported:
                wg, ws = rng.choice([(None, None), (True, None), (None, True), (True, True)])
            comment = field_comment(rng, want_new, defv, wg, ws)
            tag = None
            if rng.random() < p_tag:
                tag = rng.choice(['`new:"-"`', '`new:"-"`', '`json:"%s"`' % names[0].lower(),
                                  '`json:"%s" new:"-"`' % names[0].lower(), '`new:""`', '`new:"x"`',
                                  '`renew:"-"`', '`json:"-"`', '`new:"-" json:"n,omitempty"`'])
            groups.append(fdecl(names, t, comment, tag))
        emb_decls = []
        for t in embeds:
            comment = field_comment(rng, any_new and rng.random() < 0.5, None) if rng.random() < 0.5 else []
            tag = '`new:"-"`' if rng.random() < 0.05 else None
            emb_decls.append(fdecl([], t, comment, tag))
        fields = groups + emb_decls
        rng.shuffle(fields)
        if not fields:
            fields = [fdecl(["x"], T_basic("int"))]
        sd["fields"] = fields
        pkg["structs"].append(sd)
    if uses_number:
        pkg["extra_decls"].append("type Number interface {\n\t~int | ~int64\n}\n")
    return pkg


def embedded_struct_names(pkg):
    """names of the package's own structs that some struct of the package embeds"""
    res = set()
    for sd in pkg["structs"]:
        for fd in sd["fields"]:
            if not fd["names"]:
                sub = struct_of(pkg, fd["ty"])
                if sub is not None and sub["pkg"] == "":
                    res.add(sub["name"])
    return res


_SHOOT_LINE = re.compile(r"^(//\s*shoot:\s*)(.*)$", re.I)


def strip_defs_of_embedded(pkg):
    """remove the def= directives (and new:"-" tags of embedded fields) from the structs that are embedded by
    another struct of the package: a default in the declaration of an embedded struct is invisible to the embedding
    type (open finding), so most generated packages keep defaults on non-embedded structs"""
    emb = embedded_struct_names(pkg)
    for sd in pkg["structs"]:
        if sd["name"] not in emb:
            continue
        for fd in sd["fields"]:
            lines = []
            for line in fd["comment"]:
                m = _SHOOT_LINE.match(line)
                if not m:
                    lines.append(line)
                    continue
                parts = [p for p in m.group(2).split(";") if not re.match(r"^\s*def(ault)?=", p, re.I)]
                if any(p.strip() for p in parts):
                    lines.append(m.group(1) + ";".join(parts))
            fd["comment"] = lines
            fd["doc"] = doc_text(lines)
    for sd in pkg["structs"]:
        for fd in sd["fields"]:
            if not fd["names"] and fd["tag"] is not None and 'new:"-"' in fd["tag"]:
                fd["tag"] = None
    return pkg


def _same_length_literal(text):
    """another literal of the same length (digits and the letters inside double quotes are changed)"""
    out, inq = [], False
    for ch in text:
        if ch == '"':
            inq = not inq
            out.append(ch)
        elif inq and ch.isalpha() and ch.isascii():
            out.append("b" if ch == "a" else "a" if ch.islower() else "B" if ch == "A" else "A")
        elif not inq and ch.isdigit():
            out.append("7" if ch == "0" else str(int(ch) % 9 + 1))
        else:
            out.append(ch)
    return "".join(out)


def length_preserving_edit(pkg):
    """an EARLIER version of the package: the same declarations with other def= literals of the same length
    (generate on it, then on pkg: the second run must replace the first one's outputs).  None if nothing to edit."""
    import copy
    pre = copy.deepcopy({k: v for k, v in pkg.items() if not k.startswith("_")})
    changed = False
    for sd in pre["structs"]:
        for fd in sd["fields"]:
            lines = []
            for line in fd["comment"]:
                m = _SHOOT_LINE.match(line)
                if not m:
                    lines.append(line)
                    continue
                parts = []
                for part in m.group(2).split(";"):
                    m2 = re.match(r"^(\s*def(?:ault)?=)(.*)$", part, re.I)
                    if m2:
                        new = _same_length_literal(m2.group(2))
                        changed = changed or new != m2.group(2)
                        part = m2.group(1) + new
                    parts.append(part)
                lines.append(m.group(1) + ";".join(parts))
            fd["comment"] = lines
            fd["doc"] = doc_text(lines)
    return pre if changed else None
