"""Typed damaged inputs for C18 (clean failures).

Mirrors coq/Model/Fail.v: a small abstract syntax of a Go package (files,
declarations, struct fields, interface methods, function declarations), the
raw command line and the state of the package directory.

    case = gen_case(rng, k)          # a Case: valid base spec of one subcommand + 0..2 typed damages
    case.layout()                    # {relative path: text | ('dir',) | ('symlink', target)} to write
    case.coq_input()                 # Coq term of type Fail.input

Everything random comes from the rng passed in.  The generator never decides
what shoot should do: the prediction is computed by the Coq model from the same
abstract input; the labels recorded here are only coverage counters."""
import re

# ------------------------------------------------------------------ Coq syntax


def cs(s):
    return '"' + s.replace('"', '""') + '"'


def cb(b):
    return "true" if b else "false"


def clist(items):
    return "[" + "; ".join(items) + "]"


# ------------------------------------------------------------ type expressions
# ('id', n) ('sel', q, n) ('star', t) ('arr', t) ('map', k, v) ('func',) ('chan', t) ('ell', t)
# ('gen', n, a) ('lit',)

def tid(n):
    return ("id", n)


def tsel(q, n):
    return ("sel", q, n)


def tstar(t):
    return ("star", t)


def go_t(t):
    k = t[0]
    if k == "id":
        return t[1]
    if k == "sel":
        return t[1] + "." + t[2]
    if k == "star":
        return "*" + go_t(t[1])
    if k == "arr":
        return "[]" + go_t(t[1])
    if k == "arrn":
        return "[3]" + go_t(t[1])
    if k == "map":
        return "map[%s]%s" % (go_t(t[1]), go_t(t[2]))
    if k == "func":
        return "func()"
    if k == "chan":
        return "chan " + go_t(t[1])
    if k == "ell":
        return "..." + go_t(t[1])
    if k == "gen":
        return "%s[%s]" % (t[1], go_t(t[2]))
    return "struct{ A int }"


def coq_t(t):
    k = t[0]
    if k == "id":
        return "(TId %s)" % cs(t[1])
    if k == "sel":
        return "(TSel %s %s)" % (cs(t[1]), cs(t[2]))
    if k == "star":
        return "(TStar %s)" % coq_t(t[1])
    if k == "arr":
        return "(TArr %s)" % coq_t(t[1])
    if k == "arrn":
        return "(TArrN %s)" % coq_t(t[1])
    if k == "map":
        return "(TMap %s %s)" % (coq_t(t[1]), coq_t(t[2]))
    if k == "func":
        return "TFunc"
    if k == "chan":
        return "(TChan %s)" % coq_t(t[1])
    if k == "ell":
        return "(TEll %s)" % coq_t(t[1])
    if k == "gen":
        return "(TGen %s %s)" % (cs(t[1]), coq_t(t[2]))
    return "TLit"


# ------------------------------------------------------------------ the syntax

class Field:
    def __init__(self, names, typ, get=False, set_=False, newdash=False, doc=None, tag=None):
        self.names, self.typ, self.get, self.set, self.newdash = list(names), typ, get, set_, newdash
        self.doc, self.tag = doc, tag       # rendered doc comment line / tag text (consistent with the booleans)

    def coq(self):
        return ("{| fd_names := %s; fd_type := %s; fd_get := %s; fd_set := %s; fd_newdash := %s |}"
                % (clist(cs(n) for n in self.names), coq_t(self.typ), cb(self.get), cb(self.set), cb(self.newdash)))

    def go(self):
        s = ""
        if self.doc:
            s += "\t" + self.doc + "\n"
        s += "\t" + (", ".join(self.names) + " " if self.names else "") + go_t(self.typ)
        if self.tag:
            s += " `" + self.tag + "`"
        return s + "\n"


class Param:
    def __init__(self, names, typ):
        self.names, self.typ = list(names), typ

    def coq(self):
        return "{| pa_names := %s; pa_type := %s |}" % (clist(cs(n) for n in self.names), coq_t(self.typ))

    def go(self):
        return (", ".join(self.names) + " " if self.names else "") + go_t(self.typ)


def go_params(ps):
    return ", ".join(p.go() for p in ps)


class Embed:
    """embedded element of an interface; kind in rest|universe|named|other"""
    def __init__(self, kind, text, doc=None):
        self.kind, self.text, self.doc = kind, text, doc

    def coq(self):
        return "IEmbed " + {"rest": "EmRest", "universe": "EmUniverse", "named": "EmNamed", "other": "EmOther"}[self.kind]

    def go(self):
        return ("\t" + self.doc + "\n" if self.doc else "") + "\t" + self.text + "\n"


class Method:
    """doc: None | ('bad', text) | ('req', verb, path).
    alias: None | (pairs, text): a second doc line `//shoot: alias=<text>`; pairs = what parseAlias finds in it"""
    def __init__(self, name, doc, params, results):
        self.name, self.doc, self.params, self.results = name, doc, list(params), list(results)
        self.alias = None
        self.alias_first = False

    def coq(self):
        if self.doc is None:
            d = "MDNone"
        elif self.doc[0] == "bad":
            d = "MDBad"
        else:
            pairs = self.alias[0] if self.alias else []
            d = "(MDReq %s %s %s)" % (cs(self.doc[1]), cs(self.doc[2]), clist("(%s, %s)" % (cs(k), cs(v)) for k, v in pairs))
        return "IMethod %s %s %s %s" % (cs(self.name), d, clist(p.coq() for p in self.params),
                                        clist(p.coq() for p in self.results))

    def go(self):
        s = ""
        al = "\t//shoot: alias=%s\n" % self.alias[1] if (self.alias and self.doc is not None) else ""
        if self.doc is not None:
            line = "\t" + (self.doc[1] if self.doc[0] == "bad" else "//shoot: %s(%s)" % (self.doc[1], self.doc[2])) + "\n"
            s += (al + line) if self.alias_first else (line + al)
        res = go_params(self.results)
        if len(self.results) > 1 or (self.results and self.results[0].names):
            res = "(" + res + ")"
        return s + "\t%s(%s) %s\n" % (self.name, go_params(self.params), res)


class TSpec:
    """body: ('struct', [Field]) | ('iface', [Embed|Method]) | ('other', texpr)"""
    def __init__(self, name, body, alias=False, tparams=""):
        self.name, self.body, self.alias = name, body, alias
        self.tparams = tparams          # Go text of the type parameter list, e.g. "[T any]" (not part of the model)

    def coq(self):
        if self.body[0] == "struct":
            b = "BStruct " + clist(f.coq() for f in self.body[1])
        elif self.body[0] == "iface":
            b = "BIface " + clist(i.coq() for i in self.body[1])
        else:
            b = "BOther " + coq_t(self.body[1])
        return "{| ts_name := %s; ts_alias := %s; ts_body := %s |}" % (cs(self.name), cb(self.alias), b)

    def go(self):
        eq = "= " if self.alias else ""
        if self.body[0] == "struct":
            if not self.body[1]:
                return "%s%s %sstruct{}" % (self.name, self.tparams, eq)
            return "%s%s %sstruct {\n%s}" % (self.name, self.tparams, eq, "".join(f.go() for f in self.body[1]))
        if self.body[0] == "iface":
            if not self.body[1]:
                return "%s %sinterface{}" % (self.name, eq)
            return "%s %sinterface {\n%s}" % (self.name, eq, "\n".join(i.go() for i in self.body[1]))
        return "%s %s%s" % (self.name, eq, go_t(self.body[1]))


class VSpec:
    def __init__(self, names, typ, value, intval=True):
        self.names, self.typ, self.value, self.intval = list(names), typ, value, intval   # value: Go text or None

    def coq(self):
        return ("{| vs_names := %s; vs_type := %s; vs_hasval := %s; vs_intval := %s |}"
                % (clist(cs(n) for n in self.names), "None" if self.typ is None else "(Some %s)" % coq_t(self.typ),
                   cb(self.value is not None), cb(self.intval)))

    def go(self):
        s = ", ".join(self.names)
        if self.typ is not None:
            s += " " + go_t(self.typ)
        if self.value is not None:
            s += " = " + self.value
        return s


def go_tdecl(specs, indent=""):
    if len(specs) == 1:
        return indent + "type " + specs[0].go().replace("\n", "\n" + indent) + "\n"
    inner = "\n".join(indent + "\t" + t.go().replace("\n", "\n\t" + indent) for t in specs)
    return indent + "type (\n" + inner + "\n" + indent + ")\n"


def go_cdecl(specs, indent=""):
    if len(specs) == 1:
        return indent + "const " + specs[0].go() + "\n"
    return indent + "const (\n" + "".join(indent + "\t" + v.go() + "\n" for v in specs) + indent + ")\n"


class FDecl:
    """recv: None | [Param]; results: None | [Param]; body: None | {'locals': [('type',[TSpec])|('const',[VSpec])], 'text': str}"""
    def __init__(self, name, recv=None, params=(), results=None, body=None):
        self.name, self.recv, self.params, self.results, self.body = name, recv, list(params), results, body

    def coq(self):
        recv = "None" if self.recv is None else "(Some %s)" % clist(p.coq() for p in self.recv)
        res = "None" if self.results is None else "(Some %s)" % clist(p.coq() for p in self.results)
        if self.body is None:
            body = "None"
        else:
            ls = []
            for d in self.body.get("locals", []):
                ls.append(("LType " if d[0] == "type" else "LConst ") + clist(x.coq() for x in d[1]))
            body = "(Some %s)" % clist(ls)
        return ("{| fn_recv := %s; fn_name := %s; fn_params := %s; fn_results := %s; fn_body := %s |}"
                % (recv, cs(self.name), clist(p.coq() for p in self.params), res, body))

    def go(self):
        s = "func "
        if self.recv is not None:
            s += "(" + go_params(self.recv) + ") "
        s += "%s%s(%s)" % (self.name, getattr(self, "tparams", ""), go_params(self.params))
        if self.results is not None:
            r = go_params(self.results)
            s += " (" + r + ")" if (len(self.results) != 1 or self.results[0].names) else " " + r
        if self.body is None:
            return s + "\n"
        s += " {\n"
        for d in self.body.get("locals", []):
            s += go_tdecl(d[1], "\t") if d[0] == "type" else go_cdecl(d[1], "\t")
        s += self.body.get("text", "")
        return s + "}\n"


class GoFile:
    """decls: ('type',[TSpec]) ('const',[VSpec]) ('func',FDecl) ('comment',text)"""
    def __init__(self, name, pkg):
        self.name, self.pkg, self.decls, self.dest_imports = name, pkg, [], []
        self.raw = None              # text override (stale generated file with an empty package)

    def coq(self):
        ds = []
        for d in self.decls:
            if d[0] == "type":
                ds.append("DType " + clist(t.coq() for t in d[1]))
            elif d[0] == "const":
                ds.append("DConst " + clist(v.coq() for v in d[1]))
            elif d[0] == "func":
                ds.append("DFunc " + d[1].coq())
            else:
                ds.append("DComment " + cs(d[1]))
        return ("{| f_name := %s; f_pkg := %s; f_imports_dest := %s; f_decls := %s |}"
                % (cs(self.name), cs(self.pkg), clist(cs(x) for x in self.dest_imports), clist(ds)))

    def go(self, dest_import_path=None, foreign=None):
        if self.raw is not None:
            return self.raw
        body = []
        for d in self.decls:
            if d[0] == "type":
                body.append(go_tdecl(d[1]))
            elif d[0] == "const":
                body.append(go_cdecl(d[1]))
            elif d[0] == "func":
                body.append(d[1].go())
            else:
                body.append(d[1] + "\n")
        text = "\n".join(body)
        code = re.sub(r"(?m)^\s*//.*$", "", text)
        imps = []
        if re.search(r"\bcontext\.", code):
            imps.append('"context"')
        if re.search(r"\bhttp\.", code):
            imps.append('"net/http"')
        if re.search(r"\btime\.", code):
            imps.append('"time"')
        if re.search(r"\bshoot\.", code):
            imps.append('"github.com/lopolopen/shoot"')
        for n in self.dest_imports:
            if re.search(r"\b%s\." % re.escape(n), code) and dest_import_path:
                imps.append('%s "%s"' % (n, dest_import_path))
        for q, path in sorted((foreign or {}).items()):
            if re.search(r"\b%s\." % re.escape(q), code):
                imps.append('"%s"' % path)
        head = "package %s\n\n" % self.pkg
        if imps:
            head += "import (\n" + "".join("\t" + i + "\n" for i in imps) + ")\n\n"
        return head + text


# ------------------------------------------------------------------ the case

class Case:
    def __init__(self, sub):
        self.sub = sub
        self.args = []               # os.Args[1:]
        self.cwd_is_pkg = True       # run from the package directory (else from its parent, with a [dir] argument)
        self.pkgdirs = ["."]
        self.inmodule = True
        self.files = []              # GoFile, sorted by name
        self.extra = {}              # name -> ('file', first line, rest) | ('dir',) | ('dangling',)
        self.dests = {}              # spelling after FixPath -> ('pkg', name, [GoFile], dirname) | ('file', dirname)
        self.render = {}             # type name -> 'ROk' | 'RFormatErr' | ...
        self.merge_ok = True
        self.uncertain = []          # type names whose render class the harness does not know
        self.labels = []             # damage kinds applied (coverage only)
        self.opaque = None           # None | description of a textual damage (no model input)
        self.text_patch = None       # (relative file, new text) applied after rendering (opaque cases)
        self.pkgname = "p"
        self.destname = "dest"
        self.foreign = {}            # local name of an imported package -> [TSpec] (directory and package of the same name)
        self.foreign_path = {}       # local name -> import path of a package that is NOT rendered (standard library)

    # --- Coq
    def coq_entry(self, e):
        if e[0] in ("file", "file_nonl"):
            return "EFile " + cs(e[1])
        return "EDir" if e[0] == "dir" else "EDangling"

    def coq_input(self):
        dests = []
        for sp, d in sorted(self.dests.items()):
            if d[0] == "pkg":
                dests.append("(%s, DestPkg %s %s)" % (cs(sp), cs(d[1]), clist(f.coq() for f in d[2])))
            else:
                dests.append("(%s, DestFile)" % cs(sp))
        return ("{| i_args := %s; i_pkgdirs := %s; i_inmodule := %s; i_files := %s; i_extra := %s; "
                "i_dests := %s; i_render := %s; i_merge_ok := %s; i_foreign := %s |}"
                % (clist(cs(a) for a in self.args), clist(cs(d) for d in self.pkgdirs), cb(self.inmodule),
                   clist(f.coq() for f in self.files),
                   clist("(%s, %s)" % (cs(n), self.coq_entry(e)) for n, e in sorted(self.extra.items())),
                   clist(dests), clist("(%s, %s)" % (cs(t), r) for t, r in sorted(self.render.items())),
                   cb(self.merge_ok),
                   clist("(%s, %s)" % (cs(q), clist(t.coq() for t in ts)) for q, ts in sorted(self.foreign.items()))))

    # --- files to write, relative to the case directory; the package lives in p/
    def layout(self, import_base):
        out = {}
        destpath = None
        for sp, d in self.dests.items():
            if d[0] == "pkg":
                destpath = import_base + "/" + d[3]
        fpaths = {q: self.foreign_path.get(q, import_base + "/" + q) for q in self.foreign}
        for q, ts in self.foreign.items():
            if q not in self.foreign_path:
                out[q + "/x.go"] = "package %s\n\n" % q + "\n".join(go_tdecl([t]) for t in ts)
        for f in self.files:
            out["p/" + f.name] = f.go(destpath, fpaths)
        for n, e in self.extra.items():
            if e[0] == "file":
                out["p/" + n] = e[1] + "\n" + e[2]
            elif e[0] == "file_nonl":
                out["p/" + n] = e[1]
            elif e[0] == "dir":
                out["p/" + n] = ("dir",)
            else:
                out["p/" + n] = ("symlink", "/nonexistent/c18")
        seen = set()
        for sp, d in self.dests.items():
            if d[0] == "pkg":
                if d[3] in seen:
                    continue
                seen.add(d[3])
                out[d[3]] = ("dir",)
                for f in d[2]:
                    out[d[3] + "/" + f.name] = f.go(None)
            else:
                out[d[1]] = "not a directory\n"
        if self.text_patch:
            out[self.text_patch[0]] = self.text_patch[1]
        return out

    def all_tspecs(self):
        for f in self.files:
            for d in f.decls:
                if d[0] == "type":
                    for t in d[1]:
                        yield f, t

    def struct_names(self):
        return [t.name for _, t in self.all_tspecs() if t.body[0] == "struct"]


# --------------------------------------------------------------- vocabulary

STRUCTS = ["Order", "Item", "User", "Point", "Config", "Node", "Task", "Page", "Rule", "Box", "Cell", "Job"]
USTRUCTS = ["inner", "rec", "aux", "cfg"]
ENUMS = ["Color", "Level", "Mode", "State", "Kind", "Flag"]
IFACES = ["Client", "API", "Repo", "Store"]
FILES = ["a.go", "b.go", "model.go", "types_x.go", "zz.go", "m1.go", "api.go", "k9.go"]
INT_KINDS = ["int", "int8", "int16", "int32", "int64", "uint", "uint8", "uint16", "uint32", "uint64"]
UFIELDS = [("id", tid("int")), ("name", tid("string")), ("note", tid("string")), ("count", tid("int64")),
           ("price", tid("float64")), ("tags", ("arr", tid("string"))), ("meta", ("map", tid("string"), tid("int"))),
           ("ok", tid("bool")), ("ttl", tsel("time", "Duration")), ("ref", tstar(tid("int"))),
           # universe-scoped names, directly and below every type constructor
           ("cause", tid("error")), ("errs", ("arr", tid("error"))), ("perr", tstar(tid("error"))),
           ("byKey", ("map", tid("string"), tid("error"))), ("anyv", tid("any")), ("anys", ("arr", tid("any")))]
EFIELDS = [("ID", tid("int")), ("Name", tid("string")), ("Title", tid("string")), ("Amount", tid("float64")),
           ("Labels", ("arr", tid("string"))), ("Active", tid("bool")),
           ("Errs", ("arr", tid("error"))), ("Cause", tstar(tid("error"))), ("ErrBy", ("map", tid("string"), tid("error"))),
           ("Any", tid("any")), ("Anys", ("arr", tid("any"))), ("PAny", tstar(tid("any"))),
           ("Nested", ("arr", ("arr", tid("error")))), ("ErrKey", ("map", tid("error"), tid("int"))),
           ("ErrArr", ("arrn", tid("error"))), ("AnyArr", ("arrn", tid("any")))]

DOC_GET = ["//shoot: get", "// shoot: get", "//shoot: new;get", "//Shoot: GET", "//shoot: get;"]
DOC_SET = ["//shoot: set", "// shoot: set", "//shoot: new;set"]
DOC_BOTH = ["//shoot: get;set", "//shoot: set;get", "//shoot: get;set;new"]
DOC_NONE = [None, None, None, "//shoot:get", "//shoot: gett", "//shoot get", "// hoot: get", "//shoot: new",
            "//shoot: getter", "// just a comment", "//shoot: settle", "//shoot:", "//shoot: ;;", "//shoot: get set x"]
TAG_DASH = ['new:"-"', 'json:"x" new:"-"']
TAG_NONE = [None, None, 'json:"abc"', 'new:"-', 'new:-', 'json:"a,b" new', 'new:"x"', 'map:"Other"']
BAD_REQ_DOCS = ['//shoot: Fetch("/a")', '//shoot Get("/a")', '//shoot: Get "/a"', "// a plain comment",
                '//shoot: Get("/a") trailing words', '//shot: Get("/a")']
VERBS = ["Get", "Post", "Put", "Patch", "Delete", "GET", "get"]


def doc_for(rng, get, set_):
    if get and set_:
        return rng.choice(DOC_BOTH)
    if get:
        return rng.choice(DOC_GET)
    if set_:
        return rng.choice(DOC_SET)
    return rng.choice(DOC_NONE)


# ------------------------------------------------------------- base specs

def pick_files(rng, n=None):
    n = n or rng.choice([1, 1, 2, 2, 3])
    return sorted(rng.sample(FILES, n))


def filler_decls(rng, c, used):
    """declarations every package may contain: an interface, an int type with constants, a func with locals"""
    out = []
    done = c.__dict__.setdefault("_filler", set())
    if rng.random() < 0.3 and "Pinger" not in done:
        done.add("Pinger")
        out.append(("type", [TSpec("Pinger", ("iface", [Method("Ping", None, [], [Param([], tid("error"))])]))]))
    if rng.random() < 0.3 and "Weekday" not in done:
        done.add("Weekday")
        out.append(("type", [TSpec("Weekday", ("other", tid("int")))]))
        out.append(("const", [VSpec(["WeekdayMon"], tid("Weekday"), "iota"), VSpec(["WeekdayTue"], None, None)]))
    if rng.random() < 0.2 and "helper" not in done:
        done.add("helper")
        out.append(("func", FDecl("helper", None, [], None,
                                  {"locals": [("type", [TSpec("localT", ("other", tid("int")))])], "text": "\tvar _ localT\n"})))
    return out


def new_struct(rng, name, earlier, exported_ok=True):
    fields = []
    used = set()
    if earlier and rng.random() < 0.45:
        e = rng.choice(earlier)
        fields.append(Field([], tstar(tid(e)) if rng.random() < 0.4 else tid(e)))
    for fname, ft in rng.sample(UFIELDS, rng.randint(1, 4)):
        get, set_ = rng.choice([(False, False)] * 3 + [(True, False), (False, True), (True, True)])
        nd = rng.random() < 0.08
        tag = rng.choice(TAG_DASH) if nd else rng.choice(TAG_NONE)
        fields.append(Field([fname], ft, get, set_, nd, doc_for(rng, get, set_), tag))
        used.add(fname)
    if exported_ok and rng.random() < 0.5:
        for fname, ft in rng.sample(EFIELDS, rng.randint(1, 2)):
            fields.append(Field([fname], ft, False, False, False, rng.choice([None, None, "// exported", "//shoot: new"]),
                                rng.choice([None, 'json:"%s"' % fname.lower()])))
    rng.shuffle(fields)
    return TSpec(name, ("struct", fields))


def ext_scope():
    return [TSpec("Fine", ("struct", [Field(["W"], tid("int")), Field(["x"], tid("string"))])),
            TSpec("Deep", ("struct", [Field([], tid("Fine")), Field(["z"], tid("int"))]))]


def decorate_embeds(rng, c):
    """valid embedded fields that are not plain identifiers: an instantiated generic struct of the package and
    struct types of an imported package (one of which embeds another type of that package)"""
    ss = [(f, t) for f, t in c.all_tspecs() if t.body[0] == "struct" and not t.tparams]
    if not ss:
        return
    for _ in range(rng.randint(1, 2)):
        f, t = rng.choice(ss)
        k = rng.choice(["generic", "generic_ptr", "ext_fine", "ext_deep_ptr", "ext_deep", "blank_inner", "blank_inner"])
        if k == "blank_inner":
            # blank and odd field names are skipped at the top level only: promoted ones reach the name transformations
            if not any(x.name == "Pad" for _, x in c.all_tspecs()):
                c.files[0].decls.insert(0, ("type", [TSpec("Pad", ("struct", [Field(["_"], ("arrn", ("func",))), Field(["__"], tid("int")),
                                                                             Field(["pz_"], tid("int"))]))]))
            if t.name == "Pad" or any(not x.names and core_t(x.typ) == tid("Pad") for x in t.body[1]):
                continue
            t.body[1].insert(0, Field([], rng.choice([tid("Pad"), tstar(tid("Pad"))])))
            c.uncertain.append(t.name)
            c.uncertain.append("Pad")
            c.labels.append("embed:" + k)
            continue
        if k.startswith("generic"):
            if not any(x.name == "Gbox" for _, x in c.all_tspecs()):
                c.files[0].decls.insert(0, ("type", [TSpec("Gbox", ("struct", [Field(["gv"], tid("T"))]), tparams="[T any]")]))
                if c.sub == "new":
                    c.uncertain.append("Gbox")
            e = ("gen", "Gbox", tid(rng.choice(["int", "string"])))
            if any(not x.names and (x.typ == e or x.typ == tstar(e)) for x in t.body[1]) or t.name == "Gbox":
                continue
            if any(not x.names and go_t(core_t(x.typ)).startswith("Gbox[") for x in t.body[1]):
                continue
            t.body[1].insert(0, Field([], tstar(e) if k == "generic_ptr" else e))
        else:
            c.foreign["ext"] = ext_scope()
            n = "Fine" if k == "ext_fine" else "Deep"
            if any(not x.names and core_t(x.typ) in (tsel("ext", "Fine"), tsel("ext", "Deep")) for x in t.body[1]):
                continue
            e = tsel("ext", n)
            t.body[1].insert(0, Field([], tstar(e) if k == "ext_deep_ptr" else e))
        c.labels.append("embed:" + k)


def core_t(t):
    return t[1] if t[0] == "star" else t


def base_new(rng):
    c = Case("new")
    names = rng.sample(STRUCTS, rng.randint(1, 4))
    if rng.random() < 0.25:
        names.append(rng.choice(USTRUCTS))
    c.files = [GoFile(n, c.pkgname) for n in pick_files(rng)]
    earlier = []
    for n in names:
        f = rng.choice(c.files)
        f.decls.append(("type", [new_struct(rng, n, earlier)]))
        earlier.append(n)
    for f in c.files:
        for d in filler_decls(rng, c, [t.name for _, t in c.all_tspecs()]):
            f.decls.insert(rng.randint(0, len(f.decls)), d)
    c.flagpool = ["-getset", "-json", "-opt", "-option", "-exp", "-exported", "-short", "-tagcase=pascal",
                  "-tagcase=camel", "-tagcase=lower", "-tagcase", "-getset=true", "-json=false", "--json"]
    return c


def enum_type(rng, name, kind=None):
    kind = kind or rng.choice(INT_KINDS)
    signed = not kind.startswith("u")
    specs = []
    style = rng.choice(["iota", "iota1", "lits", "shift"])
    n = rng.randint(1, 4)
    cn = ["%s%s" % (name, s) for s in rng.sample(["Red", "Blue", "Low", "High", "On", "Off", "A", "B"], n)]
    if style == "iota":
        specs.append(VSpec([cn[0]], tid(name), "iota"))
        specs += [VSpec([x], None, None) for x in cn[1:]]
    elif style == "iota1":
        specs.append(VSpec(["_"], tid(name), "iota"))
        specs += [VSpec([x], None, None) for x in cn]
    elif style == "shift":
        specs.append(VSpec([cn[0]], tid(name), "1 << iota"))
        specs += [VSpec([x], None, None) for x in cn[1:]]
    else:
        vals = rng.sample(range(-5 if signed else 0, 40), n)
        specs = [VSpec([x], tid(name), str(v)) for x, v in zip(cn, vals)]
    if rng.random() < 0.2:
        specs.insert(rng.randint(0, len(specs)), VSpec(["untyped%s" % name], None, "99"))
        # an untyped spec with a value resets the carried type: the specs after it are untyped too
    return TSpec(name, ("other", tid(kind))), specs


def base_enum(rng):
    c = Case("enum")
    c.files = [GoFile(n, c.pkgname) for n in pick_files(rng)]
    for n in rng.sample(ENUMS, rng.randint(1, 3)):
        f = rng.choice(c.files)
        t, specs = enum_type(rng, n)
        f.decls.append(("type", [t]))
        g = f if rng.random() < 0.7 else rng.choice(c.files)
        g.decls.append(("const", specs))
    if rng.random() < 0.4:
        rng.choice(c.files).decls.append(("type", [new_struct(rng, rng.choice(STRUCTS), [])]))
    for f in c.files:
        for d in filler_decls(rng, c, [t.name for _, t in c.all_tspecs()]):
            f.decls.insert(rng.randint(0, len(f.decls)), d)
    c.flagpool = ["-bit", "-bitwise", "-json", "-text", "-sql", "-json=1", "-text=F"]
    return c


def _ctx():
    return Param(["ctx"], tsel("context", "Context"))


def _resp():
    return Param([], tstar(tsel("http", "Response")))


def _err():
    return Param([], tid("error"))


BODY_VERBS = ("POST", "PUT", "PATCH")


def rest_method(rng, k, structs):
    """a valid method: POST/PUT/PATCH carry exactly one struct parameter, GET/DELETE at most one map"""
    verb = rng.choice(VERBS)
    if verb.upper() in BODY_VERBS and not structs:
        verb = rng.choice(["Get", "Delete", "GET"])
    name = "M%d" % k
    path = rng.choice(['"/items"', '"/items/{id}"', "/plain/path", '"/a/{id}/b/{name}"'])
    params = [_ctx()] if rng.random() < 0.8 else []
    pool = [Param(["id"], tid("int")), Param(["name"], tid("string")), Param(["q"], ("map", tid("string"), tid("string"))),
            Param(["p"], tstar(tid("int"))), Param(["a", "b"], tid("int")),
            Param(["e"], tid("error")), Param(["u"], tid("Undefined9")), Param(["pe"], tstar(tid("error"))),
            Param(["av"], tid("any")), Param(["pa"], tstar(tid("any")))]
    params += rng.sample(pool, rng.randint(0, 2))
    if verb.upper() in BODY_VERBS or (structs and rng.random() < 0.4):
        s = rng.choice(structs)
        params.append(Param(["req"], tstar(tid(s)) if rng.random() < 0.5 else tid(s)))
    elif rng.random() < 0.15:
        params.append(Param(["d"], tsel("time", "Duration")))
    results = [_resp(), _err()]
    if rng.random() < 0.6:
        first = rng.choice([tstar(tid(structs[0])) if structs else tstar(tid("int")), ("arr", tid("string")),
                            ("map", tid("string"), tid("int")), tstar(tid("string")), ("arr", tid("error")),
                            tstar(tid("error")), ("map", tid("string"), tid("any")), ("arr", tid("any")), tstar(tid("any"))])
        results = [Param([], first)] + results
    m = Method(name, ("req", verb, path), params, results)
    if rng.random() < 0.3 and all(p.names for p in params):
        set_alias(rng, m, malformed=rng.random() < 0.3)
    if any(not p.names for p in params):
        # unnamed parameters are not inspected at all: a body verb would find no body parameter
        if verb.upper() in BODY_VERBS:
            for i, p in enumerate(params):
                if not p.names:
                    p.names = ["n%d" % i]
    return m


def rest_iface(rng, name, structs, nmeth=None):
    items = [Embed("rest", "shoot.RestClient[%s]" % name,
                   rng.choice([None, None, "//shoot: headers={X-Api:k1}"]))]
    for k in range(nmeth if nmeth is not None else rng.randint(1, 3)):
        items.append(rest_method(rng, k, structs))
    if rng.random() < 0.15:
        items.append(Method("Ignored", rng.choice([None, ("bad", rng.choice(BAD_REQ_DOCS))]), [_ctx()], [_resp(), _err()]))
    return TSpec(name, ("iface", items))


def base_rest(rng):
    c = Case("rest")
    c.files = [GoFile(n, c.pkgname) for n in pick_files(rng, rng.choice([1, 1, 2]))]
    for f in c.files:
        structs = []
        for n in rng.sample(["Req", "Res", "Query", "Body"], rng.randint(0, 2)):
            n2 = n + f.name[0].upper()
            f.decls.append(("type", [TSpec(n2, ("struct", [Field([x], t) for x, t in rng.sample(EFIELDS, 2)]))]))
            structs.append(n2)
        f.structs = structs
    names = rng.sample(IFACES, rng.randint(1, 2))
    allstructs = [x for f in c.files for x in f.structs]
    for n in names:
        f = rng.choice(c.files)
        f.decls.append(("type", [rest_iface(rng, n, f.structs if rng.random() < 0.5 else allstructs)]))
    if rng.random() < 0.3:
        rng.choice(c.files).decls.append(("type", [TSpec("Plain", ("iface", [Method("Foo", None, [], [Param([], tid("int"))])]))]))
    c.flagpool = []
    return c


def map_struct_pair(rng, name, shootnew=False):
    """-> (src TSpec, dest TSpec, extra src decls)"""
    if shootnew:
        fs = [Field(["id"], tid("int")), Field(["name"], tid("string"))]
        src = TSpec(name, ("struct", fs))
        dst = TSpec(name, ("struct", [Field(["Id"], tid("int")), Field(["Name"], tid("string"))]))
        extra = [
            ("func", FDecl("ShootNew", [Param(["t"], tid(name))], [], None, {"text": ""})),
            ("func", FDecl("New" + name, None, [Param(["id"], tid("int")), Param(["name"], tid("string"))],
                           [Param([], tstar(tid(name)))], {"text": "\treturn &%s{id: id, name: name}\n" % name})),
            ("func", FDecl("Id", [Param(["t"], tstar(tid(name)))], [], [Param([], tid("int"))], {"text": "\treturn t.id\n"})),
            ("func", FDecl("Name", [Param(["t"], tstar(tid(name)))], [], [Param([], tid("string"))], {"text": "\treturn t.name\n"})),
            ("func", FDecl("SetName", [Param(["t"], tstar(tid(name)))], [Param(["v"], tid("string"))], None,
                           {"text": "\tt.name = v\n"})),
        ]
        return src, dst, extra
    pool = rng.sample(EFIELDS, rng.randint(1, 6))
    sf = [Field([n], t, tag=rng.choice([None, None, 'map:"-"', 'json:"x"'])) for n, t in pool]
    df = [Field([n], (tid("int64") if t == tid("int") and rng.random() < 0.3 else t)) for n, t in pool]
    if rng.random() < 0.3:
        df.append(Field(["Extra"], tid("string")))
    if rng.random() < 0.3:
        sf.append(Field(["Err"], tid("error")))
        df.append(Field(["Err"], tid("error")))
    return TSpec(name, ("struct", sf)), TSpec(name, ("struct", df)), []


def base_map(rng):
    c = Case("map")
    c.destname = rng.choice(["dest", "dst", "model"])
    c.files = [GoFile(n, c.pkgname) for n in pick_files(rng, rng.choice([1, 1, 2]))]
    dfile = GoFile("d.go", c.destname)
    alias = rng.choice([None, None, "dm"])
    impname = alias or c.destname
    for f in c.files:
        f.dest_imports = [impname]
    c.impname = impname
    names = rng.sample(STRUCTS, rng.randint(1, 3))
    c.shootnew = []
    for n in names:
        f = rng.choice(c.files)
        sn = rng.random() < 0.25
        s, d, extra = map_struct_pair(rng, n, sn)
        if sn:
            c.shootnew.append(n)
        f.decls.append(("type", [s]))
        f.decls += extra
        dfile.decls.append(("type", [d]))
        if not sn and rng.random() < 0.3:
            # a manual write and/or read method, named after the destination package (or the -alias value, see gen_case)
            c.manual = getattr(c, "manual", []) + [(f, n)]
    if rng.random() < 0.3:
        # a source-only struct: skipped in -file / -type=* mode, fatal when named
        rng.choice(c.files).decls.append(("type", [TSpec("Lonely", ("struct", [Field(["ID"], tid("int"))]))]))
    c.dests["../dest"] = ("pkg", c.destname, [dfile], "dest")
    c.flagpool = ["-i", "-way=toonly", "-way=->", "-way=fromonly", "-way=both", "-way=<->", "-i=true"]
    return c


def add_manual(rng, c, key):
    """manual toX / fromX methods for the structs chosen by base_map; key = alias or dest package name"""
    for f, n in getattr(c, "manual", []):
        imp = c.impname
        kinds = rng.choice([["to"], ["from"], ["to", "from"]])
        cap = rng.random() < 0.5
        k = (key[:1].upper() + key[1:]) if cap else key.lower()
        if "to" in kinds:
            f.decls.append(("func", FDecl(rng.choice(["to", "write"]) + k, [Param(["t"], tstar(tid(n)))],
                                          [Param(["d"], tstar(tsel(imp, n)))], None, {"text": "\t_ = d\n"})))
        if "from" in kinds:
            f.decls.append(("func", FDecl(rng.choice(["from", "read"]) + k, [Param(["t"], tstar(tid(n)))],
                                          [Param(["d"], rng.choice([tsel(imp, n), tstar(tsel(imp, n))]))], None,
                                          {"text": "\t_ = d\n"})))


# ------------------------------------------------------ selection and damage

def eligible(c):
    if c.sub == "new":
        return [t.name for _, t in c.all_tspecs() if t.body[0] == "struct" and not t.name.startswith("_")]
    if c.sub == "enum":
        typed = set()
        for f in c.files:
            for d in f.decls:
                if d[0] == "const":
                    for v in d[1]:
                        if v.typ is not None and v.typ[0] == "id":
                            typed.add(v.typ[1])
        return [t.name for _, t in c.all_tspecs() if t.body[0] == "other" and not t.alias and t.name in typed]
    if c.sub == "rest":
        return [t.name for _, t in c.all_tspecs()
                if t.body[0] == "iface" and any(isinstance(i, Embed) and i.kind == "rest" for i in t.body[1])]
    dn = set()
    for d in c.dests.values():
        if d[0] == "pkg":
            for f in d[2]:
                for x in f.decls:
                    if x[0] == "type":
                        dn.update(t.name for t in x[1] if t.body[0] == "struct")
    return [t.name for _, t in c.all_tspecs() if t.body[0] == "struct" and t.name in dn]


def file_of(c, name):
    for f, t in c.all_tspecs():
        if t.name == name:
            return f
    return None


def choose_selection(rng, c, must=None):
    """must: a type name that has to be selected"""
    el = eligible(c)
    mode = rng.choice(["types", "types", "types", "file", "star", "star"])
    if must is not None and mode == "star" and rng.random() < 0.5:
        mode = "types"
    if mode == "types":
        pool = [x for x in el if x != must]
        names = rng.sample(pool, min(len(pool), rng.randint(0 if must else 1, 2)))
        if must is not None:
            names.insert(rng.randint(0, len(names)), must)
        if not names:
            names = ["Nope"]
        c.sel = ("types", names)
    elif mode == "file":
        f = file_of(c, must) if must is not None else None
        f = f or rng.choice(c.files)
        c.sel = ("file", f.name)
    else:
        c.sel = ("star", rng.random() < 0.8)
    c.sep = rng.random() < 0.25
    c.sepflag = rng.choice(["-sep", "-separate", "-sep=true"])


def assemble(rng, c):
    flags = list(getattr(c, "flags", []))
    if c.sel[0] == "types":
        v = ",".join(c.sel[1])
        flags.append(rng.choice(["-type=" + v, "-type=" + v, "--type=" + v, ("-type", v)]))
    elif c.sel[0] == "file":
        flags.append(rng.choice(["-file=" + c.sel[1], ("-file", c.sel[1])]))
    else:
        flags.append(rng.choice(["-type=*", "-type=*", "-type=*", ("-type", "*")]))
    if c.sep:
        flags.append(c.sepflag)
    if c.sub == "map" and getattr(c, "path", "../dest") is not None:
        flags.append("-path=" + getattr(c, "path", "../dest"))
    rng.shuffle(flags)
    args = [c.sub]
    for f in flags:
        if isinstance(f, tuple):
            args += list(f)
        else:
            args.append(f)
    if c.cwd_is_pkg:
        if rng.random() < 0.15:
            args.append(".")
    else:
        args.append(c.dirarg)
    c.args = args


def add_generate_line(rng, c):
    """after the command line is final: the //go:generate line `-type=*` looks for"""
    if c.sel[0] == "star" and c.sel[1] and c.files:
        args = list(c.args)
        if rng.random() < 0.1:
            args = args[:-1] + ["-zzz"]          # a stale line: does not end with the command line
        line = "//go:generate " + rng.choice(["", "", "go run github.com/lopolopen/shoot/cmd/"]) + "shoot " + " ".join(args)
        srcs = [f for f in c.files if f.raw is None]
        if not srcs:
            return
        f = rng.choice(srcs)
        f.decls.insert(rng.randint(0, len(f.decls)), ("comment", line))


def pick_struct(rng, c):
    ss = [(f, t) for f, t in c.all_tspecs() if t.body[0] == "struct" and not t.name.startswith("_")]
    return rng.choice(ss) if ss else (None, None)


# ---- damages of the package (applied before the command line is assembled); each returns the type to select or None

def d_exported_getset(rng, c):
    f, t = pick_struct(rng, c)
    get, set_ = rng.choice([(True, False), (False, True), (True, True)])
    t.body[1].insert(rng.randint(0, len(t.body[1])),
                     Field([rng.choice(["Visible", "Shown"])], tid("int"), get, set_, False, doc_for(rng, get, set_)))
    if rng.random() < 0.8:
        c.flags.append("-getset")
    return t.name


def d_embedded_universe(rng, c):
    f, t = pick_struct(rng, c)
    t.body[1].insert(0, Field([], tid("error")))
    return t.name


def d_local_shadow(rng, c):
    f, t = pick_struct(rng, c)
    g = rng.choice(c.files)
    g.decls.insert(rng.randint(0, len(g.decls)),
                   ("func", FDecl("shadow" + t.name, None, [], None,
                                  {"locals": [("type", [TSpec(t.name, ("other", tid("int")))])], "text": "\tvar _ %s\n" % t.name})))
    return t.name


def d_type_wrong_kind(rng, c):
    kind = rng.choice(["iface", "int", "alias", "named", "underscore", "string"])
    f = rng.choice(c.files)
    base = pick_struct(rng, c)[1]
    if kind == "iface":
        t = TSpec("Wrongi", ("iface", [Method("Foo", None, [], [Param([], tid("int"))])]))
    elif kind == "int":
        t = TSpec("Wrongn", ("other", tid("int")))
    elif kind == "string":
        t = TSpec("Wrongs", ("other", tid("string")))
    elif kind == "alias" and base is not None:
        t = TSpec("Wronga", ("other", tid(base.name)), alias=True)
    elif kind == "named" and base is not None:
        t = TSpec("Wrongd", ("other", tid(base.name)))
    else:
        t = TSpec("_Hidden", ("struct", [Field(["x"], tid("int"))]))
    f.decls.append(("type", [t]))
    return t.name


def d_keyword_field(rng, c):
    f, t = pick_struct(rng, c)
    t.body[1].append(Field([rng.choice(["Type", "fn_", "Func", "rng_e"])], tid("int")))
    c.uncertain.append(t.name)
    return t.name


def d_undefined_field(rng, c):
    f, t = pick_struct(rng, c)
    t.body[1].append(Field([rng.choice(["u", "U"])], rng.choice([tid("Undefined7"), tsel("nopkg", "T"), tstar(tid("Undefined7"))])))
    c.uncertain.append(t.name)
    return t.name


def d_embed_named(rng, c):
    f, t = pick_struct(rng, c)
    n = TSpec("Via" + t.name, ("other", tid(t.name)), alias=rng.random() < 0.4)
    f.decls.append(("type", [n]))
    u = TSpec("Holds" + t.name, ("struct", [Field([], rng.choice([tid(n.name), tstar(tid(n.name))])), Field(["w"], tid("int"))]))
    f.decls.append(("type", [u]))
    if c.sub == "map":
        for d in c.dests.values():
            if d[0] == "pkg" and d[2]:
                d[2][0].decls.append(("type", [TSpec(u.name, ("struct", [Field(["W"], tid("int"))]))]))
    # both templates print an embedded entry by the name of its type, which is empty for some of these shapes
    # (a pointer to an alias): whether the text formats is not known to the harness
    c.uncertain.append(u.name)
    return u.name


def d_enum_alias(rng, c):
    f = rng.choice(c.files)
    f.decls.append(("type", [TSpec("Aliased", ("other", tid(rng.choice(INT_KINDS))), alias=True)]))
    rng.choice(c.files).decls.append(("const", [VSpec(["AliasedA"], tid("Aliased"), "1")]))
    return "Aliased"


def d_enum_nonint(rng, c):
    kind, val = rng.choice([("string", '"x"'), ("float64", "1.5"), ("float64", "2"), ("bool", "true")])
    f = rng.choice(c.files)
    f.decls.append(("type", [TSpec("Odd", ("other", tid(kind)))]))
    f.decls.append(("const", [VSpec(["OddA"], tid("Odd"), val, intval=False)]))
    return "Odd"


def d_enum_struct_const(rng, c):
    f = rng.choice(c.files)
    f.decls.append(("type", [TSpec("Stc", ("struct", [Field(["x"], tid("int"))]))]))
    f.decls.append(("const", [VSpec(["StcA"], tid("Stc"), "1", intval=False)]))
    return "Stc"


def d_enum_bad_value(rng, c):
    f = rng.choice(c.files)
    kind = rng.choice(["int", "uint8", "int32"])
    f.decls.append(("type", [TSpec("Badv", ("other", tid(kind)))]))
    val = rng.choice(['"s"', "1 << 70", "Undefined3", "-1" if kind == "uint8" else "1.5"])
    specs = [VSpec(["BadvA"], tid("Badv"), "1"), VSpec(["BadvB"], tid("Badv"), val, intval=False)]
    if rng.random() < 0.4:
        specs.reverse()
    if rng.random() < 0.3:
        f.decls.append(("func", FDecl("localc", None, [], None, {"locals": [("const", specs)], "text": ""})))
    else:
        f.decls.append(("const", specs))
    return "Badv"


def d_enum_undefined_type(rng, c):
    rng.choice(c.files).decls.append(("const", [VSpec(["GhostA"], tid("Ghost"), "1", intval=False)]))
    return "Ghost"


def d_enum_no_consts(rng, c):
    rng.choice(c.files).decls.append(("type", [TSpec("Bare", ("other", tid(rng.choice(INT_KINDS))))]))
    return "Bare"


def d_enum_named_chain(rng, c):
    f = rng.choice(c.files)
    f.decls.append(("type", [TSpec("Basek", ("other", tid("int16")))]))
    f.decls.append(("type", [TSpec("Chained", ("other", tid("Basek")))]))
    f.decls.append(("const", [VSpec(["ChainedA"], tid("Chained"), "iota"), VSpec(["ChainedB"], None, None)]))
    return "Chained"


def rest_target(rng, c):
    xs = [(f, t) for f, t in c.all_tspecs() if t.name in eligible(c)]
    return rng.choice(xs)


def rest_methods(t):
    ms = [m for m in t.body[1] if isinstance(m, Method) and m.doc is not None and m.doc[0] == "req"]
    if not ms:
        m = Method("Fresh", ("req", "Get", '"/fresh"'), [_ctx()], [_resp(), _err()])
        t.body[1].append(m)
        ms = [m]
    return ms


def d_rest_param(rng, c):
    f, t = rest_target(rng, c)
    m = rng.choice(rest_methods(t))
    bad = rng.choice([("arr", tid("int")), ("func",), ("chan", tid("int")), ("ell", tid("string")), ("gen", "Page", tid("int")),
                      ("lit",), tstar(("arr", tid("int"))), ("arrn", tid("int")), ("arr", tid("error")), tstar(("arrn", tid("any")))])
    named = rng.random() < 0.85
    m.params.append(Param(["x"] if named else [], bad))
    if not named:
        for p in m.params:          # Go: parameters are all named or all unnamed
            p.names = []
    return t.name


def d_rest_results(rng, c):
    f, t = rest_target(rng, c)
    m = rng.choice(rest_methods(t))
    k = rng.choice(["few0", "few1", "many", "second", "last", "named", "rettype", "rettype2", "grouped", "grouped", "grouped"])
    S = tstar(tid("string"))
    HR = tstar(tsel("http", "Response"))
    E = tid("error")
    if k == "grouped":
        # one *ast.Field may declare several results: the number of fields and the number of values differ
        m.results = rng.choice([
            [Param(["a", "b"], E)],
            [Param(["first", "second"], HR)],
            [Param(["a", "b"], HR), Param(["err"], E)],
            [Param(["r"], HR), Param(["e1", "e2"], E)],
            [Param(["x", "y"], S), Param(["h"], HR), Param(["err"], E)],
            [Param(["x"], S), Param(["h1", "h2"], HR), Param(["err"], E)],
            [Param(["x"], S), Param(["h"], HR), Param(["e1", "e2"], E)],
            [Param(["a", "b", "c"], E)],
            [Param(["a", "b"], S), Param(["c", "d"], HR)],
            [Param(["a"], S), Param(["b"], S), Param(["h"], HR), Param(["e1", "e2"], E)],
            [Param(["h"], HR), Param(["err"], E)],
            [Param(["a", "b"], E), Param(["c"], E)],
        ])
        return t.name
    if k == "few0":
        m.results = []
    elif k == "few1":
        m.results = [_err()]
    elif k == "many":
        m.results = [Param([], tid("int")), Param([], S), _resp(), _err()]
    elif k == "second":
        m.results = rng.choice([[Param([], S), _err()], [Param([], S), Param([], tsel("http", "Response")), _err()],
                                [Param([], tstar(tsel("http", "Request"))), _err()]])
    elif k == "last":
        m.results = rng.choice([[_resp(), Param([], S)], [Param([], S), _resp(), Param([], tid("Error"))]])
    elif k == "named":
        m.results = [Param(["r"], S), Param(["h"], tstar(tsel("http", "Response"))), Param(["err"], tid("error"))]
    elif k == "rettype":
        m.results = [Param([], rng.choice([tid("int"), tid("string"), tsel("time", "Duration"), ("func",), ("chan", tid("int")),
                                           ("arrn", tid("string")), ("arrn", tid("error")), tid("error"), tid("any")])),
                     _resp(), _err()]
    else:
        ss = getattr(f, "structs", [])
        m.results = [Param([], tid(ss[0]) if ss else tid("bool")), _resp(), _err()]
    return t.name


def d_rest_bad_path(rng, c):
    f, t = rest_target(rng, c)
    m = rng.choice(rest_methods(t))
    m.doc = ("req", m.doc[1], rng.choice(['"/a"b"', '/a"b', '""', '', '"', '"/a', 'a"']))
    return t.name


def d_rest_ambiguous(rng, c):
    f, t = rest_target(rng, c)
    m = rng.choice(rest_methods(t))
    ss = getattr(f, "structs", [])
    cands = [tsel("time", "Duration"), tsel("http", "Header"), tstar(tsel("http", "Request"))] + [tid(x) for x in ss]
    a, b = rng.choice(cands), rng.choice(cands)
    m.params = [p for p in m.params if p.typ[0] != "sel" or p.typ[1] == "context"]
    m.params = [p for p in m.params if not (p.typ[0] in ("id", "star") and (p.typ[1] in ss or (p.typ[0] == "star" and p.typ[1][0] == "id" and p.typ[1][1] in ss)))]
    for p in m.params:
        if not p.names:
            p.names = ["n%d" % m.params.index(p)]
    if rng.random() < 0.5:
        m.params.append(Param(["b1", "b2"], a))
    else:
        m.params += [Param(["b1"], a), Param(["b2"], b)]
    return t.name


def d_rest_needs_body(rng, c):
    f, t = rest_target(rng, c)
    m = rng.choice(rest_methods(t))
    m.doc = ("req", rng.choice(["Post", "PUT", "patch"]), m.doc[2])
    ss = [x for g in c.files for x in getattr(g, "structs", [])]
    k = rng.choice(["drop", "scalar", "unnamed", "map"])
    def is_struct_param(p):
        b = p.typ[1] if p.typ[0] == "star" else p.typ
        return (b[0] == "id" and b[1] in ss) or (b[0] == "sel" and b[1] != "context")
    m.params = [p for p in m.params if not is_struct_param(p)]
    if k == "scalar":
        m.params.append(Param(["n"], tid("int")))
    elif k == "map":
        m.params.append(Param(["mm"], ("map", tid("string"), tid("string"))))
    elif k == "unnamed" and ss:
        m.params = [Param([], p.typ) for p in m.params] + [Param([], tid(ss[0]))]
    return t.name


def d_rest_two_maps(rng, c):
    f, t = rest_target(rng, c)
    m = rng.choice(rest_methods(t))
    M = ("map", tid("string"), tid("string"))
    m.params = [p for p in m.params if p.names]
    m.params += rng.choice([[Param(["q1"], M), Param(["q2"], tstar(M))], [Param(["q1", "q2"], M)],
                            [Param(["q1"], M), Param(["x"], tid("int")), Param(["q3"], ("map", tid("string"), tid("any")))]])
    if rng.random() < 0.7:
        m.doc = ("req", rng.choice(["Get", "DELETE", "get"]), m.doc[2])
    return t.name


MALFORMED_ALIAS = ["userID:id", "{uid:id", "uid:id}", "{uid id}", "{:id}", "{uid:}", "{}", "{u.id:id}", "uid=id", "{{", "{a b:c}"]


def set_alias(rng, m, malformed=False):
    """an alias= directive for method m, tied to what consumes it: a parameter that stands for a path placeholder,
    names of scalar / struct / map parameters.  Keys and values are distinct (the reversal iterates a Go map)."""
    pairs = []
    ph = re.findall(r"{(\w+)}", m.doc[2]) if m.doc and m.doc[0] == "req" else []
    names = [n for p in m.params for n in p.names if n != "_" and p.typ != tsel("context", "Context")]
    used_k, used_v = set(), set()
    for name in ph[:2]:
        # the placeholder is the alias of a parameter with another name
        k = "p_" + name
        tgt = next((p for p in m.params if name in p.names), None)
        if tgt is not None and len(tgt.names) == 1:
            tgt.names = [k]
        elif tgt is None:
            m.params.append(Param([k], rng.choice([tid("int"), tid("string"), tstar(tid("int"))])))
        else:
            continue
        pairs.append((k, name)); used_k.add(k); used_v.add(name)
    for n in names:
        if rng.random() < 0.5 and n not in used_k and ("a_" + n) not in used_v and not n.startswith("p_"):
            pairs.append((n, "a_" + n)); used_k.add(n); used_v.add("a_" + n)
    if not pairs:
        pairs = [("zz", "unused")]
    text = ",".join("{%s:%s}" % kv for kv in pairs)
    if malformed:
        k = rng.choice(["none", "none", "partial"])
        if k == "partial" and len(pairs) > 1:
            text = "{%s:%s}," % pairs[0] + rng.choice(MALFORMED_ALIAS)
            pairs = pairs[:1]
        else:
            text = rng.choice(MALFORMED_ALIAS)
            pairs = []
    else:
        text = rng.choice([text, text, text + ";", text.replace(":", ": ")])
    m.alias = (pairs, text)
    m.alias_first = rng.random() < 0.3


def d_rest_alias(rng, c):
    """a malformed (or well-formed) alias= directive on a method that CONSUMES the directive's result: a struct parameter with
    fields, a map parameter, path placeholders"""
    f, t = rest_target(rng, c)
    m = rng.choice(rest_methods(t))
    ss = [x for g in c.files for x in getattr(g, "structs", [])]
    for p in m.params:
        if not p.names:
            p.names = ["n%d" % m.params.index(p)]
    has_struct = any(core_t(p.typ) in [tid(x) for x in ss] or (core_t(p.typ)[0] == "sel" and core_t(p.typ)[1] != "context") for p in m.params)
    if ss and not has_struct:
        m.params.append(Param(["req"], rng.choice([tid(ss[0]), tstar(tid(ss[0]))])))
    if m.doc[1].upper() in ("GET", "DELETE") and not any(p.typ[0] == "map" for p in m.params) and rng.random() < 0.7:
        m.params.append(Param(["qm"], ("map", tid("string"), tid("string"))))
    if "{" not in m.doc[2] and rng.random() < 0.7:
        m.doc = ("req", m.doc[1], rng.choice(['"/items/{id}"', '"/a/{id}/b/{name}"']))
    set_alias(rng, m, malformed=rng.random() < 0.75)
    return t.name


def d_rest_unnamed(rng, c):
    """unnamed or blank parameters"""
    f, t = rest_target(rng, c)
    m = rng.choice(rest_methods(t))
    k = rng.choice(["all_unnamed", "blank", "blank_group", "blank_ctx"])
    if k == "all_unnamed":
        for p in m.params:
            p.names = []
        if not m.params:
            m.params.append(Param([], tid("int")))
    elif k == "blank":
        m.params.append(Param(["_"], rng.choice([tid("int"), ("arr", tid("int")), tid("string")])))
    elif k == "blank_group":
        m.params.append(Param(["x9", "_"], tid("int")))
    else:
        m.params = [Param(["_"], tsel("context", "Context"))] + [p for p in m.params if p.typ != tsel("context", "Context")]
    for p in m.params:
        if k != "all_unnamed" and not p.names:
            p.names = ["n%d" % m.params.index(p)]
    return t.name


def d_rest_ptr_path(rng, c):
    """a pointer parameter named like a placeholder of the path"""
    f, t = rest_target(rng, c)
    m = rng.choice(rest_methods(t))
    path, names = rng.choice([('"/items/{id}"', ["id"]), ('"/a/{id}/b/{name}"', ["name"]), ("/x/{k_1}/{k2}", ["k2"]),
                              ('"/a/{id"', ["id"]), ('"/a/{}/{id}"', ["id"]), ('"/a/{i-d}/{id}x"', ["id"])])
    m.doc = ("req", m.doc[1], path)
    m.params = [p for p in m.params if not set(p.names) & set(names)]
    for p in m.params:
        if not p.names:
            p.names = ["n%d" % m.params.index(p)]
    m.params.append(Param(names, tstar(tid(rng.choice(["int", "string"]))) if rng.random() < 0.8 else tid("int")))
    return t.name


def d_rest_doc(rng, c):
    f, t = rest_target(rng, c)
    m = rng.choice(rest_methods(t))
    m.doc = rng.choice([None, ("bad", rng.choice(BAD_REQ_DOCS))])
    return t.name


def d_rest_embed(rng, c):
    f, t = rest_target(rng, c)
    k = rng.choice(["universe", "named", "other", "not_rest", "not_rest_universe"])
    if k == "universe":
        t.body[1].insert(rng.randint(0, 1), Embed("universe", "error"))
    elif k == "named":
        f.decls.append(("type", [TSpec("Closer" + t.name, ("iface", [Method("Close", None, [], [Param([], tid("error"))])]))]))
        t.body[1].insert(rng.randint(0, 1), Embed("named", "Closer" + t.name))
    elif k == "other":
        t.body[1].insert(rng.randint(0, 1), Embed("other", "Undefined5"))
    else:
        t.body[1][:] = [i for i in t.body[1] if not (isinstance(i, Embed) and i.kind == "rest")]
        if k == "not_rest_universe":
            t.body[1].insert(0, Embed("universe", "error"))
    return t.name


def d_rest_wrong_kind(rng, c):
    f = rng.choice(c.files)
    t = rng.choice([TSpec("Wrongs", ("struct", [Field(["x"], tid("int"))])), TSpec("Wrongn", ("other", tid("int"))),
                    TSpec("Wrongi", ("iface", [Embed("universe", "error")]))])
    f.decls.append(("type", [t]))
    return t.name


def map_target(rng, c, plain=True):
    el = eligible(c)
    xs = [(f, t) for f, t in c.all_tspecs() if t.name in el and (not plain or t.name not in c.shootnew)]
    return rng.choice(xs) if xs else (None, None)


def d_map_manual(rng, c):
    f, t = map_target(rng, c)
    if t is None:
        return None
    key = c.mapkey
    imp = c.impname
    T, D = t.name, t.name
    k = rng.choice(["value_recv", "value_recv_other", "write_nonptr", "write_int", "write_other", "dup_write", "read_int",
                    "read_other", "dup_read", "two_params", "with_result", "no_params", "ok_two_names",
                    "unnamed_param", "unnamed_recv", "no_body_write", "no_body_read", "unnamed_both"])
    to = rng.choice(["to", "write"]) + rng.choice([key.lower(), key[:1].upper() + key[1:]])
    fr = rng.choice(["from", "read"]) + rng.choice([key.lower(), key[:1].upper() + key[1:]])
    R = [Param(["t"], tstar(tid(T)))]
    body = {"text": ""}
    add = lambda fd: f.decls.append(("func", fd))
    f.decls[:] = [d for d in f.decls if not (d[0] == "func" and d[1].recv is not None and d[1].recv[0].typ == tstar(tid(T))
                                             and re.match(r"^(to|write|from|read)", d[1].name))]
    if k == "value_recv":
        add(FDecl(rng.choice([to, fr]), [Param(["t"], tid(T))], [Param(["d"], tstar(tsel(imp, D)))], None, body))
    elif k == "value_recv_other":
        f.decls.append(("type", [TSpec("Bystander", ("struct", [Field(["A"], tid("int"))]))]))
        add(FDecl(to, [Param(["o"], tid("Bystander"))], [Param(["x"], tid("int"))], None, body))
    elif k == "write_nonptr":
        add(FDecl(to, R, [Param(["d"], tsel(imp, D))], None, body))
    elif k == "write_int":
        add(FDecl(to, R, [Param(["d"], rng.choice([tid("int"), tstar(tid("int")), tstar(tid(T))]))], None, body))
    elif k == "write_other":
        add(FDecl(to, R, [Param(["d"], tstar(tsel(imp, "Unknown" + D)))], None, body))
    elif k == "dup_write":
        add(FDecl("to" + key.lower(), R, [Param(["d"], tstar(tsel(imp, D)))], None, body))
        add(FDecl("write" + key.lower(), R, [Param(["d"], tstar(tsel(imp, D)))], None, body))
    elif k == "read_int":
        add(FDecl(fr, R, [Param(["d"], rng.choice([tid("int"), tid(T), tstar(tid("string"))]))], None, body))
    elif k == "read_other":
        add(FDecl(fr, R, [Param(["d"], tsel(imp, "Unknown" + D))], None, body))
    elif k == "dup_read":
        add(FDecl("from" + key.lower(), R, [Param(["d"], tsel(imp, D))], None, body))
        add(FDecl("read" + key.lower(), R, [Param(["d"], tstar(tsel(imp, D)))], None, body))
    elif k == "two_params":
        add(FDecl(to, R, [Param(["d"], tstar(tsel(imp, D))), Param(["n"], tid("int"))], None, body))
    elif k == "with_result":
        add(FDecl(to, R, [Param(["d"], tstar(tsel(imp, D)))], [Param([], tid("error"))], {"text": "\treturn nil\n"}))
    elif k == "no_params":
        add(FDecl(fr, R, [], None, body))
    elif k == "unnamed_param":
        add(FDecl(to, R, [Param([], tstar(tsel(imp, D)))], None, body))
    elif k == "unnamed_recv":
        add(FDecl(fr, [Param([], tstar(tid(T)))], [Param(["d"], rng.choice([tsel(imp, D), tstar(tsel(imp, D))]))], None, body))
    elif k == "unnamed_both":
        add(FDecl(to, [Param([], tstar(tid(T)))], [Param([], tstar(tsel(imp, D)))], None, body))
        add(FDecl(fr, [Param([], tstar(tid(T)))], [Param([], tsel(imp, D))], None, body))
    elif k == "no_body_write":
        add(FDecl(to, R, [Param(["d"], tstar(tsel(imp, D)))], None, None))
    elif k == "no_body_read":
        add(FDecl(fr, R, [Param(["d"], tsel(imp, D))], None, None))
    else:
        add(FDecl(to, R, [Param(["d", "e"], tstar(tsel(imp, D)))], None, body))
    c.labels.append("manual:" + k)
    return T


def d_map_shootnew(rng, c):
    """odd constructors and accessors of a shoot-new source type: unnamed constructor parameters, declarations without
    body, SetX with 0 or 2 parameters, getters with an empty or a double result list"""
    f, t = map_target(rng, c, plain=False)
    if t is None:
        return None
    T = t.name
    if T not in c.shootnew:
        if not any(not n[:1].isupper() for fl in t.body[1] for n in fl.names):
            t.body[1].append(Field(["name"], tid("string")))
        f.decls.append(("func", FDecl("ShootNew", [Param(["t"], tid(T))], [], None, {"text": ""})))
        c.shootnew.append(T)
    R = [Param(["t"], tstar(tid(T)))]
    f.decls[:] = [d for d in f.decls if not (d[0] == "func" and (d[1].name in ("New" + T, "SetName", "Name", "Id", "SetId") ))]
    for k in rng.sample(["ctor_unnamed", "ctor_nobody", "ctor_mixed", "set_noparam", "set_two", "get_empty", "get_two",
                         "get_nobody", "set_nobody", "ctor_noresult", "ctor_noresult", "ctor_tworesults", "ctor_noparams",
                         "ctor_method", "ctor_variadic", "ctor_valueresult"], rng.randint(1, 3)):
        if k.startswith("ctor") and any(d[0] == "func" and d[1].name == "New" + T for d in f.decls):
            continue
        if k == "ctor_unnamed":
            f.decls.append(("func", FDecl("New" + T, None, [Param([], tid("int")), Param([], tid("string"))],
                                          [Param([], tstar(tid(T)))], {"text": "\treturn &%s{}\n" % T})))
        elif k == "ctor_nobody":
            f.decls.append(("func", FDecl("New" + T, None, [Param(["id"], tid("int")), Param(["name"], tid("string"))],
                                          [Param([], tstar(tid(T)))], None)))
        elif k == "ctor_mixed":
            f.decls.append(("func", FDecl("New" + T, None, [Param(["a", "b"], tid("int"))],
                                          [Param([], tstar(tid(T)))], {"text": "\treturn &%s{}\n" % T})))
        elif k == "ctor_noresult":
            f.decls.append(("func", FDecl("New" + T, None, [Param(["id"], tid("int"))], rng.choice([None, []]), {"text": ""})))
        elif k == "ctor_tworesults":
            f.decls.append(("func", FDecl("New" + T, None, [Param(["id"], tid("int"))],
                                          [Param([], tstar(tid(T))), Param([], tid("error"))], {"text": "\treturn &%s{}, nil\n" % T})))
        elif k == "ctor_noparams":
            f.decls.append(("func", FDecl("New" + T, None, [], [Param([], tstar(tid(T)))], {"text": "\treturn &%s{}\n" % T})))
        elif k == "ctor_method":
            f.decls.append(("func", FDecl("New" + T, [Param(["t"], tstar(tid(T)))], [Param(["id"], tid("int"))], None, {"text": ""})))
        elif k == "ctor_variadic":
            f.decls.append(("func", FDecl("New" + T, None, [Param(["ids"], ("ell", tid("int")))],
                                          [Param([], tstar(tid(T)))], {"text": "\treturn &%s{}\n" % T})))
        elif k == "ctor_valueresult":
            f.decls.append(("func", FDecl("New" + T, None, [Param(["id"], tid("int"))], [Param([], tid(T))], {"text": "\treturn %s{}\n" % T})))
        elif k == "set_noparam":
            f.decls.append(("func", FDecl("SetName", R, [], None, {"text": ""})))
        elif k == "set_two":
            f.decls.append(("func", FDecl("SetId", R, [Param(["a"], tid("int")), Param(["b"], tid("int"))], None, {"text": ""})))
        elif k == "get_empty":
            f.decls.append(("func", FDecl("Name", R, [], [], {"text": ""})))
        elif k == "get_two":
            f.decls.append(("func", FDecl("Id", R, [], [Param([], tid("int")), Param([], tid("error"))], {"text": "\treturn 0, nil\n"})))
        elif k == "get_nobody":
            if not any(d[0] == "func" and d[1].name == "Name" for d in f.decls):
                f.decls.append(("func", FDecl("Name", R, [], [Param([], tid("string"))], None)))
        elif k == "set_nobody":
            if not any(d[0] == "func" and d[1].name == "SetName" for d in f.decls):
                f.decls.append(("func", FDecl("SetName", R, [Param(["v"], tid("string"))], None, None)))
        c.labels.append("shootnew:" + k)
    return T


def dest_files(c):
    for d in c.dests.values():
        if d[0] == "pkg":
            return d[2]
    return []


def d_map_dest_type(rng, c):
    f, t = map_target(rng, c, plain=False)
    if t is None:
        return None
    k = rng.choice(["missing", "nonstruct", "named"])
    for df in dest_files(c):
        for d in df.decls:
            if d[0] == "type":
                for i, x in enumerate(list(d[1])):
                    if x.name == t.name and x.body[0] == "struct":
                        if k == "missing":
                            d[1][i] = TSpec("Renamed" + t.name, x.body)
                        elif k == "nonstruct":
                            d[1][i] = TSpec(t.name, ("other", tid("string")))
                        else:
                            d[1][i] = TSpec("Real" + t.name, x.body)
                            d[1].append(TSpec(t.name, ("other", tid("Real" + t.name))))
    c.force_must = t.name
    return t.name


def d_map_src_kind(rng, c):
    f = rng.choice(c.files)
    t = rng.choice([TSpec("Wrongn", ("other", tid("int"))), TSpec("Wrongi", ("iface", []))])
    f.decls.append(("type", [t]))
    return t.name


def d_map_dest_pkg(rng, c):
    k = rng.choice(["multi", "empty"])
    for sp, d in list(c.dests.items()):
        if d[0] == "pkg":
            if k == "multi":
                g = GoFile("e.go", "other")
                g.decls.append(("type", [TSpec("Elsewhere", ("struct", []))]))
                d[2].append(g)
            else:
                c.dests[sp] = ("pkg", "", [], d[3])
    return None


PKG_DAMAGES = {
    "new": [d_exported_getset, d_exported_getset, d_embedded_universe, d_local_shadow, d_type_wrong_kind, d_type_wrong_kind,
            d_keyword_field, d_undefined_field, d_embed_named],
    "enum": [d_enum_alias, d_enum_nonint, d_enum_nonint, d_enum_struct_const, d_enum_bad_value, d_enum_bad_value,
             d_enum_undefined_type, d_enum_no_consts, d_enum_named_chain, d_type_wrong_kind],
    "rest": [d_rest_param, d_rest_param, d_rest_results, d_rest_results, d_rest_results, d_rest_bad_path, d_rest_ambiguous,
             d_rest_doc, d_rest_embed, d_rest_embed, d_rest_wrong_kind, d_rest_needs_body, d_rest_two_maps,
             d_rest_unnamed, d_rest_unnamed, d_rest_ptr_path, d_rest_alias, d_rest_alias, d_rest_alias],
    "map": [d_map_manual, d_map_manual, d_map_manual, d_map_dest_type, d_map_dest_type, d_map_src_kind, d_map_dest_pkg,
            d_embed_named, d_embedded_universe, d_map_shootnew, d_map_shootnew],
}


# ---- damages of the command line (applied to c.args)

def flag_index(c, prefix):
    for i, a in enumerate(c.args):
        if a.startswith(prefix) or a.startswith("-" + prefix):
            return i
    return None


def insert_flag(rng, c, *toks):
    """insert before the [dir] argument (flags after it are not parsed)"""
    end = len(c.args)
    if end > 1 and not c.args[-1].startswith("-") and (c.args[-1] in (".", getattr(c, "dirarg", None))):
        end -= 1
    pos = rng.randint(min(1, end), max(end, min(1, len(c.args))))
    # never split a `-flag value` pair
    while pos < end and pos > 1 and c.args[pos - 1] in ("-type", "-file"):
        pos += 1
    c.args[pos:pos] = list(toks)


def a_unknown_flag(rng, c):
    insert_flag(rng, c, rng.choice(["-zzz", "-nope=1", "--bogus", "-x", "-bit" if c.sub != "enum" else "-getset",
                                    "-path=x" if c.sub != "map" else "-tagcase=camel"]))


def a_bad_value(rng, c):
    pool = ["-sep=maybe", "-v=2", "-raw=yes", "-separate=", "-r=tru"]
    if c.sub == "new":
        pool += ["-tagcase=weird", "-tagcase=", "-tagcase=Camel", "-json=maybe", "-opt=x"]
    if c.sub == "enum":
        pool += ["-bit=x", "-sql=on", "-gorm=2"]
    if c.sub == "map":
        pool += ["-way=x", "-way=", "-way=to", "-i=no", "-way=<>"]
    insert_flag(rng, c, rng.choice(pool))


def a_missing_arg(rng, c):
    c.args.append(rng.choice(["-type", "-file", "-ver"] + (["-tagcase"] if c.sub == "new" else []) +
                             (["-way", "-to", "-path"] if c.sub == "map" else [])))


def a_bad_syntax(rng, c):
    insert_flag(rng, c, rng.choice(["---type=X", "-=x", "--=", "---"]))


def a_help(rng, c):
    insert_flag(rng, c, rng.choice(["-h", "-help", "--help", "--h", "-h=1"]))


def a_no_selection(rng, c):
    out, skip = [], False
    for a in c.args:
        if skip:
            skip = False
            continue
        if a in ("-type", "-file", "--type"):
            skip = True
            continue
        if re.match(r"^--?(type|file)=", a):
            continue
        out.append(a)
    if rng.random() < 0.3:
        out.insert(1, "-type=")
    c.args = out


def a_top_level(rng, c):
    k = rng.choice(["none", "unknown", "version", "topflag", "tophelp", "onlysub", "dashdash", "unknown2"])
    if k == "none":
        c.args = []
    elif k == "unknown" and c.args:
        c.args[0] = rng.choice(["bogus", "New", "news", "maps", "-", "help"])
    elif k == "unknown2":
        c.args = ["generate"] + c.args
    elif k == "version":
        c.args = ["version"] + (c.args[1:] if rng.random() < 0.5 else [])
    elif k == "topflag":
        c.args = [rng.choice(["-x", "-v", "--type=A", "-version"])] + c.args
    elif k == "tophelp":
        c.args = [rng.choice(["-h", "--help"])] + c.args
    elif k == "onlysub":
        c.args = c.args[:1]
    else:
        c.args = ["--"] + c.args


def a_dir_missing(rng, c):
    if c.args and c.args[-1] in (".", getattr(c, "dirarg", None)):
        c.args.pop()
    c.args.append(rng.choice(["nope", "./nope", "../missing", "./p2", "-json"]) if rng.random() < 0.8 else "--")
    if c.args[-1] == "--":
        c.args.append("-json")


def a_file_damage(rng, c):
    i = flag_index(c, "-file")
    v = rng.choice(["a.txt", "model", "zz.go.bak", "missing9.go", ".go", "nofile.go", "a.GO"])
    if i is None:
        insert_flag(rng, c, "-file=" + v)
    elif c.args[i] in ("-file", "--file"):
        if i + 1 < len(c.args):
            c.args[i + 1] = v
        else:
            c.args.append(v)
    else:
        c.args[i] = "-file=" + v


def a_type_missing(rng, c):
    i = flag_index(c, "-type")
    v = rng.choice(["Nope", "nope", "Missing", "Order9"])
    if i is None:
        insert_flag(rng, c, "-type=" + v)
        return
    if c.args[i] in ("-type", "--type"):
        if i + 1 >= len(c.args):
            c.args.append(v)
            return
        j = i + 1
        cur = c.args[j]
    else:
        j = i
        cur = c.args[i].split("=", 1)[1]
    names = [x for x in cur.split(",") if x != "*"]
    names.insert(rng.randint(0, len(names)), v)
    new = ",".join(names)
    c.args[j] = new if j == i + 1 else c.args[i].split("=", 1)[0] + "=" + new


def a_type_and_file(rng, c):
    """-file together with -type: membership is checked before anything is generated"""
    names = eligible(c) + ["Nope"]
    t = rng.choice(names)
    f = rng.choice(c.files).name if c.files else "a.go"
    a_no_selection(rng, c)
    c.args = [x for x in c.args if x != "-type="]
    insert_flag(rng, c, "-type=" + t)
    insert_flag(rng, c, "-file=" + f)


def a_trailing(rng, c):
    if c.args and c.args[-1] not in (".", getattr(c, "dirarg", None)):
        c.args.append("." if c.cwd_is_pkg else c.dirarg)
    c.args += rng.choice([["-json"], ["nope"], ["-zzz", "x"], ["-type=Nope"]])


def a_dup_flags(rng, c):
    pool = {"new": ["-json", "-json=false", "-getset=0", "-opt", "-tagcase=upper"], "enum": ["-json", "-bit=false", "-sql"],
            "rest": ["-sep", "-v=false"], "map": ["-i", "-i=false", "-way=both"]}[c.sub]
    for _ in range(rng.randint(1, 3)):
        insert_flag(rng, c, rng.choice(pool + ["-ver=v9.9.9", "-version=x1", "-sep=false", "-verbose=false"]))


HOSTILE_VALUES = ["m(", "*", "[x", "a)", "+", " ", "a b", "a/b", "../x", "\u00fc", "\\", '"', "$(x)", "%s", "{", "?", "-x", "1x", "type",
                  "^$", "a|b", "'", "`"]


def a_hostile_value(rng, c):
    """a hostile value for one of the string flags of the subcommand"""
    flags = {"new": ["ver", "version", "tagcase", "type", "file"], "enum": ["ver", "version", "type", "file"],
             "rest": ["ver", "type", "file"], "map": ["alias", "alias", "to", "path", "way", "ver", "type", "file"]}[c.sub]
    fl = rng.choice(flags)
    v = rng.choice(HOSTILE_VALUES)
    c.args = [a for k, a in enumerate(c.args) if not re.match(r"^--?%s(=|$)" % fl, a)
              and not (k > 0 and re.match(r"^--?%s$" % fl, c.args[k - 1]))]
    insert_flag(rng, c, *(["-%s=%s" % (fl, v)] if rng.random() < 0.7 else ["-" + fl, v]))
    if fl == "alias":
        c.uncertain += eligible(c)
    c.labels.append("hostile:-" + fl)


def a_enum_gorm(rng, c):
    insert_flag(rng, c, rng.choice(["-gorm", "-gorm=true"]))
    if rng.random() < 0.3:
        insert_flag(rng, c, rng.choice(["-sql", "-sql=false"]))


def a_map_to(rng, c):
    k = rng.choice(["no_type", "misaligned", "ok", "ok_missing"])
    i = flag_index(c, "-type")
    names = []
    if i is not None:
        cur = c.args[i + 1] if c.args[i] in ("-type", "--type") else c.args[i].split("=", 1)[1]
        names = cur.split(",")
    if k == "no_type" or not names:
        insert_flag(rng, c, "-to=" + rng.choice(["Order", "A,B"]))
    elif k == "misaligned":
        insert_flag(rng, c, "-to=" + ",".join(["X"] * (len(names) + rng.choice([1, 2]))))
    elif k == "ok":
        insert_flag(rng, c, "-to=" + ",".join(names))
    else:
        insert_flag(rng, c, "-to=" + ",".join(["Gone" + n for n in names]))


def a_map_path(rng, c):
    k = rng.choice(["missing", "absent", "dot", "file", "spell"])
    i = flag_index(c, "-path")
    if k == "missing":
        v = rng.choice(["../nodest", "nodest", "./x/y"])
    elif k == "dot":
        v = "."
    elif k == "file":
        n = rng.choice(["destfile", "dest.go"])
        v = "../" + n
        c.dests[v] = ("file", n)
    elif k == "spell":
        v = "../dest"
    else:
        v = None
    if i is not None:
        if v is None:
            del c.args[i]
        else:
            c.args[i] = "-path=" + v
    elif v is not None:
        insert_flag(rng, c, "-path=" + v)


ARG_DAMAGES = {
    "common": [a_hostile_value, a_hostile_value, a_unknown_flag, a_bad_value, a_missing_arg, a_bad_syntax, a_help, a_no_selection, a_top_level, a_dir_missing,
               a_file_damage, a_type_missing, a_type_missing, a_type_and_file, a_trailing, a_dup_flags],
    "new": [a_bad_value],
    "enum": [a_enum_gorm, a_enum_gorm],
    "rest": [],
    "map": [a_map_to, a_map_to, a_map_path, a_map_path, a_bad_value],
}


# ---- damages of the directory state

def s_outside_module(rng, c):
    c.inmodule = False


def s_multi_pkg(rng, c):
    if any(f.pkg == "" for f in c.files):
        return
    g = GoFile("other_pkg.go", "otherpkg")
    g.decls.append(("type", [TSpec("Stranger", ("struct", []))]))
    c.files.append(g)
    c.files.sort(key=lambda f: f.name)


def s_no_go_files(rng, c):
    c.files = []
    for n in getattr(c, "stale", []):
        c.extra.pop(n, None)
    c.extra["README.txt"] = ("file", "hello", "")


def s_extras(rng, c):
    """foreign entries, hand-written look-alikes, stale outputs, directories and dangling links with output-like names"""
    cmd = "shoot" + c.sub
    star = any("*" in a for a in c.args)
    for _ in range(rng.randint(1, 3)):
        k = rng.choice(["foreign", "lookalike", "stale_same", "stale_other", "stale_aio", "dir", "dangling", "prior", "prior"])
        if k == "prior":
            # the output of an earlier run sits at (what is likely to be) the name of an output of this run
            names = likely_outputs(c)
            if not names:
                continue
            name = rng.choice(names)
            line = '// Code generated by "shoot %s -type=%s"; DO NOT EDIT. (v0.0.1-stale)' % (c.sub, rng.choice(["Old", "*"]))
            if not any(f.name == name for f in c.files) and name not in c.extra:
                g = GoFile(name, c.files[0].pkg if c.files else c.pkgname)
                g.raw = line + "\n\npackage %s\n" % g.pkg
                c.extra[name] = ("file", line, "\npackage %s\n" % g.pkg)
                c.files.append(g)
                c.files.sort(key=lambda f: f.name)
                c.stale = getattr(c, "stale", []) + [name]
        elif k == "foreign":
            c.extra[rng.choice(["notes.txt", "Makefile", "data.json"])] = ("file", "x", "y\n")
        elif k == "lookalike":
            c.extra["q7.%sish.go" % cmd] = ("file", "//go:build ignore", "\npackage %s\n" % c.pkgname)
        elif k in ("stale_same", "stale_other", "stale_aio"):
            sub = c.sub if k != "stale_other" else rng.choice([x for x in ("new", "enum", "rest", "map") if x != c.sub])
            typ = "*" if k == "stale_aio" else "Old"
            name = "q7.%s.%s.go" % (cmd, rng.choice(["old", "gone", "x1"]))
            line = '// Code generated by "shoot %s -type=%s"; DO NOT EDIT. (v0.0.1-stale)' % (sub, typ)
            c.extra[name] = ("file", line, "\npackage %s\n" % c.pkgname)
            # a Go file of the package (header + package clause, no declarations): it is loaded like any other
            if not any(f.name == name for f in c.files):
                g = GoFile(name, c.files[0].pkg if c.files else c.pkgname)
                g.raw = line + "\n\npackage %s\n" % g.pkg
                c.extra[name] = ("file", line, "\npackage %s\n" % g.pkg)
                c.files.append(g)
                c.files.sort(key=lambda f: f.name)
            c.stale = getattr(c, "stale", []) + [name]
        elif not star:
            # a Clean() that meets these after the outputs were written is the open finding
            # K_clean_unreadable_after_write: only generated when the all-in-one cleanup cannot run
            c.extra["q7.%s.%s.go" % (cmd, "d" if k == "dir" else "l")] = ("dir",) if k == "dir" else ("dangling",)


def add_history(rng, c):
    """outputs left by EARLIER SUCCESSFUL runs of shoot in the package directory: per-type files, all-in-one files of
    both kinds (-type=* and -file), of this and of another subcommand.  They are Go files of the package (header,
    package clause, no declaration the analyses look at)."""
    if not c.files:
        return
    cmd = "shoot" + c.sub
    pkg = next((f.pkg for f in c.files if f.pkg), c.pkgname)
    srcs = [f for f in c.files if f.raw is None]
    if not srcs:
        return
    el = eligible(c) or ["Old"]
    def tname(t):
        return (t if t[:1].isupper() else "_" + t).lower()
    entries = []
    for _ in range(rng.randint(1, 4)):
        k = rng.choice(["per_type", "per_type", "per_type", "aio_star", "aio_file", "other_sub", "per_type_gone"])
        f = rng.choice(srcs)
        base = f.name[:-3]
        if k == "per_type":
            t = rng.choice(el)
            g = file_of(c, t)
            base = g.name[:-3] if g is not None and g.raw is None else base
            flags = rng.choice(["", "-getset ", "-json ", "-sep "]) if c.sub == "new" else ""
            entries.append(("%s.%s.%s.go" % (base, cmd, tname(t)), "shoot %s %s-type=%s" % (c.sub, flags, t)))
        elif k == "per_type_gone":
            entries.append(("%s.%s.%s.go" % (base, cmd, rng.choice(["removed", "oldname"])), "shoot %s -type=%s" % (c.sub, "Removed")))
        elif k == "aio_star":
            entries.append(("%s.%s.go" % (base, cmd), "shoot %s -type=*" % c.sub))
        elif k == "aio_file":
            entries.append(("%s.%s.go" % (base, cmd), "shoot %s -file=%s" % (c.sub, f.name)))
        else:
            o = rng.choice([x for x in ("new", "enum", "rest", "map") if x != c.sub])
            entries.append(("%s.shoot%s.%s.go" % (base, o, rng.choice(["user", "kind"])), "shoot %s -type=%s" % (o, "User")))
    for name, cmdline in entries:
        if any(f.name == name for f in c.files) or name in c.extra:
            continue
        line = '// Code generated by "%s"; DO NOT EDIT. (v0.6.9)' % cmdline
        g = GoFile(name, pkg)
        g.raw = line + "\n\npackage %s\n" % pkg
        c.extra[name] = ("file", line, "\npackage %s\n" % pkg)
        c.files.append(g)
        c.stale = getattr(c, "stale", []) + [name]
    c.files.sort(key=lambda f: f.name)
    c.labels.append("history")


# package damages after which generation fails whatever the selection mode (the type stays eligible for -file / -type=*)
FAILING = {}


def likely_outputs(c):
    cmd = "shoot" + c.sub
    sel = getattr(c, "sel", None)
    out = []
    if sel is None:
        return out
    def tname(t):
        return (t if t[:1].isupper() else "_" + t).lower()
    if sel[0] == "types":
        for t in sel[1]:
            f = file_of(c, t)
            if f is not None:
                out.append("%s.%s.%s.go" % (f.name[:-3], cmd, tname(t)))
    elif sel[0] == "file":
        out.append("%s.%s.go" % (sel[1][:-3], cmd))
        if c.sep:
            out += ["%s.%s.%s.go" % (sel[1][:-3], cmd, tname(t)) for t in eligible(c) if file_of(c, t) and file_of(c, t).name == sel[1]]
    else:
        for f in c.files:
            if f.raw is None:
                out.append("%s.%s.go" % (f.name[:-3], cmd))
    return out


def s_no_pkg_clause(rng, c):
    """a Go file without package clause (empty, or a comment only), also together with -file (repaired
    K_testfile_no_package_clause)"""
    if not c.files or "s_multi_pkg" in c.labels:
        return                    # (`go list` reports a directory that mixes packages differently when a file does not parse)
    g = GoFile(rng.choice(["empty9.go", "aa_blank.go", "zz_todo.go"]), "")
    g.raw = rng.choice(["", "\n", "// TODO: write this file\n"])
    if not any(f.name == g.name for f in c.files):
        c.files.append(g)
        c.files.sort(key=lambda f: f.name)


STATE_DAMAGES = [s_no_pkg_clause, s_outside_module, s_multi_pkg, s_no_go_files, s_extras, s_extras, s_extras]


def fix_param_names(c):
    """Go syntax: a parameter list is either all named or all unnamed"""
    def fix(ps):
        if any(not p.names for p in ps) and any(p.names for p in ps):
            for p in ps:
                p.names = []
    def walk(files):
        for f in files:
            for d in f.decls:
                if d[0] == "type":
                    for t in d[1]:
                        if t.body[0] == "iface":
                            for m in t.body[1]:
                                if isinstance(m, Method):
                                    fix(m.params)
                                    fix(m.results)
                elif d[0] == "func":
                    fix(d[1].params)
    walk(c.files)
    for d in c.dests.values():
        if d[0] == "pkg":
            walk(d[2])


BASES = {"new": base_new, "enum": base_enum, "rest": base_rest, "map": base_map}
FAILING.update({"new": [d_exported_getset, d_local_shadow], "enum": [d_enum_bad_value],
                "rest": [d_rest_param, d_rest_results, d_rest_bad_path, d_rest_ambiguous, d_rest_needs_body, d_rest_two_maps,
                         d_rest_unnamed, d_rest_ptr_path],
                "map": [d_map_manual]})


def _gen_case(rng, sub=None, ndamage=None):
    sub = sub or rng.choice(["new", "new", "enum", "rest", "map", "map"])
    c = BASES[sub](rng)
    c.flags = rng.sample(c.flagpool, min(len(c.flagpool), rng.choice([0, 0, 1, 1, 2, 3])))
    if sub == "new":
        # at most one -tagcase form; `-tagcase` without value is followed by its value
        tc = [f for f in c.flags if f.startswith("-tagcase")]
        c.flags = [f for f in c.flags if not f.startswith("-tagcase")] + tc[:1]
        c.flags = [("-tagcase", "upper") if f == "-tagcase" else f for f in c.flags]
    if sub == "enum" and rng.random() < 0.15:
        c.flags += ["-sql", "-gorm"]
    if rng.random() < 0.04:
        c.flags.append(rng.choice(["-v", "-verbose"]))
    if rng.random() < 0.06:
        c.flags.append(rng.choice(["-r", "-raw"]))       # the render oracle is then unknown to the harness (see below)
    if sub == "map":
        alias = rng.choice([None, None, "dm", "Dom"])
        if alias:
            c.flags.append("-alias=" + alias)
        c.mapkey = alias or c.destname
        add_manual(rng, c, c.mapkey)
    if sub in ("new", "map") and rng.random() < 0.3:
        decorate_embeds(rng, c)
    if rng.random() < 0.3:
        c.cwd_is_pkg = False
        c.dirarg = rng.choice(["p", "./p"])
        c.pkgdirs = ["./p"]
    nd = ndamage if ndamage is not None else rng.choice([0, 1, 1, 1, 2, 2])
    kinds = []
    for _ in range(nd):
        kinds.append(rng.choices(["pkg", "arg", "state"], [5, 4, 2])[0])
    must = None
    hist = rng.random() < 0.45
    if hist and rng.random() < 0.55 and eligible(c):
        # a run that starts from the outputs of earlier successful runs and fails during generation
        d = rng.choice(FAILING[sub])
        if not (sub == "new" and pick_struct(rng, c)[1] is None):
            r = d(rng, c)
            c.labels.append(d.__name__)
            if d is d_exported_getset and "-getset" not in c.flags:
                c.flags.append("-getset")
            if r is not None:
                must = r
    for k in kinds:
        if k == "pkg" and PKG_DAMAGES[sub] and eligible(c):
            d = rng.choice(PKG_DAMAGES[sub])
            if d.__name__ in c.labels and d is not d_map_manual:
                continue                      # twice the same damage would declare the same names twice
            if d in (d_exported_getset, d_embedded_universe, d_local_shadow, d_keyword_field, d_undefined_field, d_embed_named) \
               and pick_struct(rng, c)[1] is None:
                continue
            r = d(rng, c)
            c.labels.append(d.__name__)
            if r is not None:
                must = r
    choose_selection(rng, c, must)
    if getattr(c, "force_must", None) and c.sel[0] != "types" and rng.random() < 0.5:
        c.sel = ("types", [c.force_must])
    if hist and rng.random() < 0.5:
        c.sel = ("star", True)
        c.sep = False
    assemble(rng, c)
    if hist:
        add_history(rng, c)
    for k in kinds:
        if k == "arg":
            d = rng.choice(ARG_DAMAGES["common"] + ARG_DAMAGES[sub] * 2)
            d(rng, c)
            c.labels.append(d.__name__)
    add_generate_line(rng, c)
    for k in kinds:
        if k == "state":
            d = rng.choice(STATE_DAMAGES)
            d(rng, c)
            c.labels.append(d.__name__)
    if rng.random() < 0.25 and "s_extras" not in c.labels:
        s_extras(rng, c)
    if "s_multi_pkg" in c.labels:
        # `go list` reports a dangling *.go link differently when the directory also mixes packages
        c.extra = {n: e for n, e in c.extra.items() if e[0] != "dangling"}
    if any(a in ("-r", "-raw", "-r=true") for a in c.args):
        c.uncertain = list(dict.fromkeys(c.uncertain + eligible(c)))
    # an empty name in the -type list matches the first eligible type and is rendered with an empty type name
    for k, a in enumerate(c.args):
        v = None
        m = re.match(r"^--?type=(.*)$", a)
        if m:
            v = m.group(1)
        elif a in ("-type", "--type") and k + 1 < len(c.args):
            v = c.args[k + 1]
        if v and "" in v.split(","):
            c.uncertain.append("")
    # a struct that embeds an uncertain one inherits its fields, hence the uncertainty
    unc = set(c.uncertain)
    grew = True
    while grew:
        grew = False
        for _, t in c.all_tspecs():
            if t.body[0] == "struct" and t.name not in unc:
                for f in t.body[1]:
                    b = f.typ[1] if f.typ[0] == "star" else f.typ
                    if not f.names and b[0] == "id" and b[1] in unc:
                        unc.add(t.name)
                        grew = True
            if t.body[0] == "other" and t.name not in unc and t.body[1][0] == "id" and t.body[1][1] in unc:
                unc.add(t.name)
                grew = True
    c.uncertain = sorted(unc)
    if len(c.uncertain) > 4:
        return _gen_case(rng, sub, ndamage)
    fix_param_names(c)
    return c


def gen_case(rng, sub=None, ndamage=None):
    """a damage that does not apply to the shape at hand (IndexError, ValueError) restarts the case"""
    for _ in range(50):
        try:
            return _gen_case(rng, sub, ndamage)
        except (IndexError, ValueError, AttributeError, TypeError):
            continue
    raise RuntimeError("cannot generate a case")
