#!/usr/bin/env python3
"""Mutation self-test of the enum checks (C04, C12, C14), see CONTRIBUTING.md.

    harness/enum_mutate.py [C04|C12|C14|all] [mutation ids...]

Each mutation is applied to a scratch worktree of /repo (/tmp/wt-enum, created by
`git -C /repo worktree add --detach /tmp/wt-enum HEAD`), must still build and
pass `go test ./...` there (mutations of golden-covered template text carry the
matching golden edit), then the quick check is run with VERIF_REPO=/tmp/wt-enum
and must print a VIOLATION.  /repo itself is never touched."""
import os
import subprocess
import sys
from pathlib import Path

WT = Path("/tmp/wt-enum")
VERIF = Path(__file__).resolve().parent.parent
STR = "internal/enumer/str.go"
TMPL = "internal/enumer/enumer.tmpl"
GOLD_BIT = "cmd/testdata/enum_bit.shootenum.formatstyle.go.golden"
GOLD_JSON = "cmd/testdata/enum_json.shootenum.color.go.golden"

# (id, property, description, [(file, old, new)])
MUTATIONS = [
    ("sort_unsigned_always", "C04", "sort compares the uint64 bit pattern also for signed kinds",
     [(STR, "\t\tif values[i].signed {\n\t\t\treturn int64", "\t\tif false && values[i].signed {\n\t\t\treturn int64")]),
    ("sort_dropped", "C04", "the sort comparator always says 'not less' (declaration order is kept)",
     [(STR, "\t\treturn values[i].value < values[j].value\n\t})", "\t\treturn false && values[i].value < values[j].value\n\t})"),
      (STR, "\t\t\treturn int64(values[i].value) < int64(values[j].value)", "\t\t\treturn false && int64(values[i].value) < int64(values[j].value)")]),
    ("trim_case_insensitive", "C04", "the type-name prefix is trimmed case-insensitively",
     [(STR, "shortName := strings.TrimPrefix(v.name, typeName)",
       "shortName := v.name\n\t\tif len(v.name) >= len(typeName) && strings.EqualFold(v.name[:len(typeName)], typeName) {\n\t\t\tshortName = v.name[len(typeName):]\n\t\t}")]),
    ("trim_suffix_too", "C04", "the type name is also trimmed as a suffix",
     [(STR, "shortName := strings.TrimPrefix(v.name, typeName)",
       "shortName := strings.TrimSuffix(strings.TrimPrefix(v.name, typeName), typeName)")]),
    ("reset_dropped", "C04", "an untyped spec with a value no longer resets the carried type",
     [(STR, "\t\t\t\t\ttyp = \"\"\n\t\t\t\t\tcontinue", "\t\t\t\t\tcontinue")]),
    ("multi_name_first_only", "C04", "only the first name of a multi-name spec is collected",
     [(STR, "for _, n := range vspec.Names {", "for _, n := range vspec.Names[:1] {")]),
    ("guard_literal_unsigned_as_int64", "C04", "the guard literal of an unsigned constant is printed as int64",
     [(STR, "valueMap[v.name] = fmt.Sprintf(\"%d\", v.value)", "valueMap[v.name] = fmt.Sprintf(\"%d\", int64(v.value))")]),
    ("first_file_only", "C04", "constants are collected from the first file only",
     [(STR, "for _, f := range g.pkg.files {", "for _, f := range g.pkg.files[:1] {")]),
    ("strmap_last_wins_off_by_one", "C04", "Strings() is built from the previous constant's short name (index shift)",
     [(STR, "\t\tstrMap[v.name] = shortName\n", "\t\tif len(nameList) > 1 && len(shortName) == 1 {\n\t\t\tstrMap[nameList[len(nameList)-2]] = shortName\n\t\t}\n\t\tstrMap[v.name] = shortName\n")]),
    ("stale_guard_neutralised", "C04", "the guard index is multiplied away: x[(Name-v)&0] (goldens edited accordingly)",
     [(TMPL, "\t_ = x[{{.}}-{{valueof .}}] {{\"\\n\"}}", "\t_ = x[({{.}}-{{valueof .}})&0] {{\"\\n\"}}"),
      (GOLD_BIT, r"re:_ = x\[(\w+-\d+)\]", r"_ = x[(\1)&0]"),
      (GOLD_JSON, r"re:_ = x\[(\w+-\d+)\]", r"_ = x[(\1)&0]")]),
    # ---------------------------------------------------------------- C12
    ("scan_rejects_string", "C12", "Scan accepts []byte only again (K_sql_scan_string regression)",
     [(TMPL, "\tcase string:\n\t\t// what Value() produces, and what drivers that keep text columns as Go strings hand over\n\t\tdata = []byte(v_)\n", "")]),
    ("scan_accepts_int", "C12", "Scan also accepts an int64 (as its decimal text)",
     [(TMPL, "\tdefault:\n\t\treturn errors.New(\"bad enum type\")\n\t}\n\te_, err :=", "\tcase int64:\n\t\tdata = []byte(fmt.Sprintf(\"%d\", v_))\n\tdefault:\n\t\treturn errors.New(\"bad enum type\")\n\t}\n\te_, err :=")]),
    ("parse_zero_without_error", "C12", "ParseEnum returns the zero value and no error on a miss",
     [("enumer.go", "\t\treturn t, fmt.Errorf(\"requested value '%s' was not found\", str)", "\t\t_ = fmt.Sprint(str)\n\t\treturn t, nil")]),
    ("try_parse_writes_always", "C12", "TryParseEnum stores the result before looking at the error",
     [("enumer.go", "\tt, err := ParseEnum[T](str)\n\tif err != nil {", "\tt, err := ParseEnum[T](str)\n\t*v = t\n\tif err != nil {")]),
    ("is_enum_wraps_again", "C12", "IsEnum compares after the conversion only (K_is_enum_wrap regression)",
     [("enumer.go", "\tif TV(x) != value || (x < 0) != (value < 0) {", "\tif false && (TV(x) != value || (x < 0) != (value < 0)) {")]),
    ("is_enum_sign_check_dropped", "C12", "IsEnum checks the round trip of the conversion but not the sign",
     [("enumer.go", "\tif TV(x) != value || (x < 0) != (value < 0) {", "\tif TV(x) != value {")]),
    ("unmarshal_text_clobbers", "C12", "UnmarshalText assigns before checking the error",
     [(TMPL, "\tif v_, err = shoot.ParseEnum[{{.TypeName}}](string(text)); err != nil {\n\t\treturn err\n\t}",
       "\tif v_, err = shoot.ParseEnum[{{.TypeName}}](string(text)); err != nil {\n\t\t*{{$this}} = v_\n\t\treturn err\n\t}")]),
    ("marshal_text_decimal", "C12", "MarshalText of an undeclared value is empty instead of decimal",
     [(TMPL, "\treturn []byte({{$this}}.String()), nil", "\tif !{{$this}}.IsValid() {\n\t\treturn []byte{}, nil\n\t}\n\treturn []byte({{$this}}.String()), nil")]),
    ("parse_trims_space", "C12", "ParseEnum trims blanks before the lookup",
     [("enumer.go", "\tt, ok := m[str]", "\tt, ok := m[strings.TrimSpace(str)]"),
      ("enumer.go", "import (\n\t\"fmt\"\n", "import (\n\t\"fmt\"\n\t\"strings\"\n")]),
    ("constraints_int_exact", "C12", "constraints.Integer lists int without ~ (K_constraints_int regression)",
     [("constraints/constraints.go", "~int8 | ~int16 | ~int32 | ~int | ~int64", "~int8 | ~int16 | ~int32 | int | ~int64")]),
    ("sql_value_quoted", "C12", "Value() returns the number for the largest constant",
     [(TMPL, "\treturn {{$this}}.String(), nil\n}", "\tif {{$this}} == _{{camelCase .TypeName}}_max {\n\t\treturn fmt.Sprintf(\"%d\", {{$this}}), nil\n\t}\n\treturn {{$this}}.String(), nil\n}")]),
    # ---------------------------------------------------------------- C14
    ("remove_xor", "C14", "Remove uses ^ instead of &^ (golden edited accordingly)",
     [(TMPL, "\treturn {{$this}} &^ flag ", "\treturn {{$this}} ^ flag "),
      (GOLD_BIT, "\treturn f &^ flag", "\treturn f ^ flag")]),
    ("has_any_bit", "C14", "Has is true if any bit of the flag is set (golden edited accordingly)",
     [(TMPL, "\treturn {{$this}}&flag == flag", "\treturn {{$this}}&flag != 0 || flag == 0"),
      (GOLD_BIT, "\treturn f&flag == flag", "\treturn f&flag != 0 || flag == 0")]),
    ("max_upper_half", "C14", "_max is the OR of the upper half of the constants only (goldens edited accordingly)",
     [(STR, "g.data.Max = strings.Join(nameList, \" | \")", "g.data.Max = strings.Join(nameList[len(nameList)/2:], \" | \")"),
      (GOLD_BIT, "const _formatStyle_max = None | Bold | Italic | Underline | Strikethrough", "const _formatStyle_max = Italic | Underline | Strikethrough"),
      (GOLD_JSON, "const _color_max = ColorRed | ColorGreen | ColorBlue", "const _color_max = ColorGreen | ColorBlue")]),
    ("bit_sort_dropped", "C14", "the sort comparator always says 'not less' (flags in declaration order)",
     [(STR, "\t\treturn values[i].value < values[j].value\n\t})", "\t\treturn false && values[i].value < values[j].value\n\t})"),
      (STR, "\t\t\treturn int64(values[i].value) < int64(values[j].value)", "\t\t\treturn false && int64(values[i].value) < int64(values[j].value)")]),
    ("loop_break_early", "C14", "the String loop stops one element early (golden edited accordingly)",
     [(TMPL, "for i_ := 0; i_ < len(_{{camelCase .TypeName}}_values); i_++ {", "for i_ := 0; i_ < len(_{{camelCase .TypeName}}_values)-1 || i_ < 2 && i_ < len(_{{camelCase .TypeName}}_values); i_++ {"),
      (GOLD_BIT, "for i_ := 0; i_ < len(_formatStyle_values); i_++ {", "for i_ := 0; i_ < len(_formatStyle_values)-1 || i_ < 2 && i_ < len(_formatStyle_values); i_++ {")]),
    ("add_ignores_zero_receiver", "C14", "Add on the zero value returns the flag shifted by nothing but drops bit 0 of x (golden edited)",
     [(TMPL, "\treturn {{$this}} | flag", "\treturn ({{$this}} | flag) &^ ({{$this}} & 1 &^ flag & (flag >> 1))"),
      (GOLD_BIT, "\treturn f | flag", "\treturn (f | flag) &^ (f & 1 &^ flag & (flag >> 1))")]),
]


def sh(cmd, cwd=None, env=None, timeout=1800):
    p = subprocess.run(cmd, cwd=cwd, env=env, capture_output=True, text=True, timeout=timeout, shell=isinstance(cmd, str))
    return p.returncode, p.stdout, p.stderr


def goenv():
    env = dict(os.environ)
    env["GOFLAGS"] = "-mod=mod"
    env["GOPROXY"] = "off"
    env.pop("GOTOOLCHAIN", None)
    env.pop("GOSUMDB", None)
    return env


def main():
    which = sys.argv[1] if len(sys.argv) > 1 else "all"
    ids = set(sys.argv[2:])
    if not WT.exists():
        print("create the worktree first: git -C /repo worktree add --detach /tmp/wt-enum HEAD")
        return 2
    results = []
    for mid, prop, desc, edits in MUTATIONS:
        if which != "all" and prop != which:
            continue
        if ids and mid not in ids:
            continue
        sh(["git", "checkout", "--", "."], cwd=WT)
        ok = True
        for f, old, new in edits:
            p = WT / f
            txt = p.read_text()
            if old.startswith("re:"):
                import re
                new_txt, k = re.subn(old[3:], new, txt)
                if k == 0:
                    print("%-34s REGEX EDIT DOES NOT APPLY in %s" % (mid, f))
                    ok = False
                    break
                p.write_text(new_txt)
                continue
            if txt.count(old) != 1:
                print("%-34s EDIT DOES NOT APPLY (%d matches) in %s" % (mid, txt.count(old), f))
                ok = False
                break
            p.write_text(txt.replace(old, new))
        if not ok:
            results.append((mid, prop, "not-applied"))
            continue
        rc, out, err = sh(["go", "build", "./..."], cwd=WT, env=goenv())
        if rc != 0:
            print("%-34s DOES NOT BUILD: %s" % (mid, err[-400:]))
            results.append((mid, prop, "no-build"))
            continue
        rc, out, err = sh(["go", "test", "-vet=off", "-count=1", "./..."], cwd=WT, env=goenv())
        if rc != 0:
            print("%-34s go test FAILS (caught by the existing suite): %s" % (mid, (out + err)[-600:]))
            results.append((mid, prop, "go-test-fails"))
            continue
        env = dict(os.environ)
        env["VERIF_REPO"] = str(WT)
        rc, out, err = sh([sys.executable, str(VERIF / "harness" / "enum_dev.py"), prop, "quick"], cwd=VERIF, env=env)
        viol = [l for l in out.splitlines() if l.startswith("VIOLATION")]
        concrete = [l for l in viol if "no-failing-input-found" not in l]
        status = "CAUGHT (%d violations, %d with a concrete input)" % (len(viol), len(concrete)) if viol else \
            ("MISSED rc=%s %s" % (rc, err[-300:] if rc not in (0, 1) else ""))
        print("%-34s %s  -- %s" % (mid, status, desc))
        if viol:
            print("    " + viol[0])
        results.append((mid, prop, status))
    sh(["git", "checkout", "--", "."], cwd=WT)
    print("\nsummary:")
    for mid, prop, st in results:
        print("  %s %-34s %s" % (prop, mid, st))
    return 0


if __name__ == "__main__":
    sys.exit(main())
