"""src/dest pair specifications for `shoot map` (C05, C09, C15; reusable by C01/C07/C08).

API
    spec = gen_pair(rng, **opts)          a random pair specification (dict, JSON-able)
    files = render_go(spec, mod, sub)     {relative path: Go text} of the src/dest(/mapper) packages
    args = shoot_args(spec)               the `shoot map` command line (run in <sub>/src)
    coq = render_coq_pair(spec)           Coq term of type MapperCorr.pairspec
    gen_value / render_go_value / coq_val / parse_dump   values

A pair specification
    {"decls": {"src": [decl], "dst": [decl]},      named types per package ("common" is fixed, see COMMON)
     "jobs": [{"src": "T", "dst": "T", "manual_to": None|[(field, basic, k)], "manual_from": ...}],
     "funcs": [{"name","param","result","kind"}], "mapper": None|{"name": "Mapper", "pkg": "src"|"mapper"},
     "flags": {"ic": bool, "alias": None|str, "way": "both"|"toonly"|"fromonly"}}
    decl  = {"name","kind":"struct","fields":[{"name","emb","ty","tag","vc"}]} | {"name","kind":"basic","basic"}
    ty    = ["basic", k] | ["named", pkg, name] | ["ptr", ty] | ["slice", ty] | ["map", kty, vty]
"""
import random

INT_KINDS = ["int", "int8", "int16", "int32", "int64", "uint", "uint8", "uint16", "uint32", "uint64"]
FLOAT_KINDS = ["float32", "float64"]
FIXED = ["int8", "int16", "int32", "int64", "uint8", "uint16", "uint32", "uint64"]
COQ_BASIC = {"int": "BInt", "int8": "BInt8", "int16": "BInt16", "int32": "BInt32", "int64": "BInt64",
             "uint": "BUint", "uint8": "BUint8", "uint16": "BUint16", "uint32": "BUint32", "uint64": "BUint64",
             "float32": "BFloat32", "float64": "BFloat64", "string": "BString", "bool": "BBool"}
RANGE = {"int": (-2 ** 63, 2 ** 63 - 1), "int64": (-2 ** 63, 2 ** 63 - 1), "int8": (-128, 127),
         "int16": (-2 ** 15, 2 ** 15 - 1), "int32": (-2 ** 31, 2 ** 31 - 1),
         "uint": (0, 2 ** 64 - 1), "uint64": (0, 2 ** 64 - 1), "uint8": (0, 255), "uint16": (0, 65535),
         "uint32": (0, 2 ** 32 - 1)}

# the shared third package (imported by src and dest)
COMMON = [
    {"name": "Level", "kind": "basic", "basic": "int"},
    {"name": "Code", "kind": "basic", "basic": "string"},
    {"name": "Ratio", "kind": "basic", "basic": "float64"},
    {"name": "Flag", "kind": "basic", "basic": "bool"},
    {"name": "Tiny", "kind": "basic", "basic": "int8"},
    {"name": "Money", "kind": "struct", "fields": [
        {"name": "Units", "emb": False, "ty": ["basic", "int64"], "tag": "", "vc": "full"},
        {"name": "Cur", "emb": False, "ty": ["basic", "string"], "tag": "", "vc": "full"}]},
]
COMMON_GO = """package common

type Level int
type Code string
type Ratio float64
type Flag bool
type Tiny int8

type Money struct {
	Units int64
	Cur   string
}
"""


def B(k):
    return ["basic", k]


def N(p, n):
    return ["named", p, n]


def P(t):
    return ["ptr", t]


def S(t):
    return ["slice", t]


def M(k, v):
    return ["map", k, v]


# ------------------------------------------------------------ case transforms (mirror of internal/transfer)
def to_pascal(s):
    if s == "":
        return s
    return "".join(p[:1].upper() + p[1:] for p in s.split("_"))


def _split_camel(s):
    toks, start, n = [], 0, len(s)
    for i in range(1, n):
        if s[i].isupper() and s[i].isascii() and ((s[i - 1].islower() and s[i - 1].isascii())
                                                 or (i + 1 < n and s[i + 1].islower() and s[i + 1].isascii())):
            toks.append(s[start:i])
            start = i
    toks.append(s[start:])
    return toks


def to_camel(s):
    if s == "":
        return s
    toks = _split_camel(to_pascal(s))
    out = []
    for i, t in enumerate(toks):
        if i == 0:
            out.append(t.lower())
        else:
            out.append(t[:1].upper() + t[1:].lower())
    return "".join(out)


def to_camel_go(s):
    if s == "":
        return s
    if s == s.upper():
        return s.lower()
    s = to_pascal(s)
    i = 0
    while i < len(s) and s[i].isupper():
        i += 1
    if i <= 1:
        return s[:1].lower() + s[1:]
    return s[:i - 1].lower() + s[i - 1:]


def smart_match(a, b):
    if len(a) != len(b):
        return False
    if a == b:
        return True
    return to_camel(a) == to_camel(b)


def names_match(tagmap, ic, sname, dname):
    m1 = tagmap.get(sname, sname)
    if ic:
        return m1.lower() == dname.lower()
    return smart_match(m1, dname)


# ------------------------------------------------------------------------------ name pools
# (source-side name, destination-side variants by relation)
NAMES = [
    # base, acronym variant (smartMatch-equal, different spelling) or None, fold variant (EqualFold only) or None
    ("ID", "Id", None), ("UserID", "UserId", "Userid"), ("URL", "Url", None), ("HTTPPort", "HttpPort", "Httpport"),
    ("Name", None, "NAME"), ("Title", None, "TITLE"), ("Count", None, "COUNT"), ("Age", None, None),
    ("Total", None, None), ("Price", None, "PRICE"), ("Note", None, None), ("Memo", None, None),
    ("OrderNo", None, "Orderno"), ("APIKey", "ApiKey", "Apikey"), ("Score", None, None), ("Rank", None, None),
    ("Weight", None, None), ("Height", None, "HEIGHT"), ("Email", None, "EMail"), ("Phone", None, None),
    ("Zip", None, "ZIP"), ("Street", None, None), ("Region", None, None), ("Active", None, None),
    ("Ratio", None, None), ("Depth", None, None), ("Label", None, "LABEL"), ("Kind", None, None),
    ("Stamp", None, None), ("Seq", None, "SEQ"), ("Owner", None, None), ("Group", None, None),
    ("Quota", None, None), ("Limit", None, None), ("Offset", None, None), ("Cursor", None, None),
    ("XMLBody", "XmlBody", "Xmlbody"), ("JSONData", "JsonData", None), ("Ver", None, "VER"), ("Tag", None, None),
    # acronyms that end in a digit (splitCamelTokens: the digit belongs to the acronym)
    ("SHA1Sum", "Sha1Sum", None), ("UTF8Name", "Utf8Name", None), ("MD5", "Md5", None),
]
# names containing `_`: healthy as plain names on both sides and as the source of a snake/Pascal tag; as the TARGET of a
# tag, or tagged themselves, they are the class of K_map_tag_underscore (tag_guard decides)
UNDERSCORE_NAMES = [("User_name", None, "USER_NAME"), ("Zip_code", None, None), ("Sku_ID", None, "Sku_id")]
TAG_SRC_NAMES = ["Alpha", "Bravo", "Carol", "Delta", "Echo", "Fox", "Golf", "Hotel"]
INNER_NAMES = ["Addr", "Item", "Part", "Meta", "Unit"]
EMB_NAMES = ["Base", "Audit", "Extra", "Core", "Trace", "Deep", "Leaf"]


# ------------------------------------------------------------------------------ generation
def _basic_same(rng):
    return B(rng.choice(INT_KINDS + FLOAT_KINDS + ["string", "string", "bool", "int", "int64"]))


def _gen_leaf(rng, flags, funcs, mapper_pkg, allow_func=True):
    """types of one logical leaf field on the two sides: (sty, dty, vclass, kind)"""
    r = rng.random()
    alias = flags["alias"]
    if r < 0.28:
        t = _basic_same(rng)
        return t, t, ("small" if t[1] in FLOAT_KINDS else "full"), "same"
    if r < 0.48:
        a, b = rng.sample(INT_KINDS + FLOAT_KINDS, 2)
        vc = "small" if (a in FLOAT_KINDS or b in FLOAT_KINDS) else "full"
        return B(a), B(b), vc, "conv_num"
    if r < 0.58:
        # named scalars: dest-package or common-package named type against a basic or each other
        choices = [(B("int"), N("dst", "Status"), "full"), (B("int32"), N("dst", "Status"), "full"),
                   (B("string"), N("dst", "Text"), "full"),
                   (N("common", "Level"), N("common", "Level"), "full"), (N("common", "Code"), N("common", "Code"), "full"),
                   (N("common", "Flag"), N("common", "Flag"), "full")]
        if not alias:
            choices += [(N("common", "Level"), N("dst", "Status"), "full"),(N("common", "Level"), B("int"), "full"), (B("int64"), N("common", "Level"), "full"),
                        (N("common", "Code"), B("string"), "full"), (N("common", "Ratio"), B("float64"), "small"),
                        (N("common", "Tiny"), B("int16"), "full"), (N("common", "Code"), N("dst", "Text"), "full")]
        if flags.get("way") == "toonly":
            # a named scalar of the SOURCE package is healthy when only ToX is generated (FromX would have to write
            # `src.Rank(x)` inside package src: K_map_src_named_qualified); against a basic, a dest-named and a common type
            # (not against a dest-named scalar: two named non-structs are the class of K_map_submap_nonstruct)
            choices += [(N("src", "Rank"), B("int"), "full"), (N("src", "Rank"), B("int64"), "full")] * 2
            if not alias:
                choices += [(N("src", "Rank"), N("common", "Level"), "full")]
        s, d, vc = rng.choice(choices)
        return s, d, vc, "named"
    if r < 0.64:
        # int -> string is a legal Go conversion (not "fixed width"), string -> int is not
        if rng.random() < 0.5:
            return B(rng.choice(["int", "uint"])), B("string"), "rune", "int_to_string"
        return B("string"), B(rng.choice(["int", "uint"])), "rune", "string_from_int"
    if r < 0.74:
        # string <-> fixed-width int: convertible for go/types, refused by mayMisConv; maybe mapper methods
        k = rng.choice(FIXED)
        s, d = (B("string"), B(k)) if rng.random() < 0.5 else (B(k), B("string"))
        kind = "misconv"
        if allow_func and funcs is not None and rng.random() < 0.6:
            _add_funcs(rng, funcs, s, d, rng.choice(["both", "to", "from"]))
            kind = "misconv_func"
        return s, d, "rune", kind
    if r < 0.80:
        s, d = rng.choice([(B("string"), B("bool")), (S(B("int")), S(B("int64"))), (B("bool"), B("int")),
                           (M(B("string"), B("int")), M(B("string"), B("int64"))), (P(B("int")), P(B("int64"))),
                           (B("float64"), B("string")), (S(B("string")), B("string"))])
        return s, d, "full", "incompat"
    if r < 0.88:
        t = rng.choice([S(B("int")), S(B("string")), M(B("string"), B("int")), P(B("int")), P(B("string")),
                        N("common", "Money"), P(N("common", "Money")), S(N("common", "Money")), S(B("int64"))])
        return t, t, "full", "same_composite"
    # mapper method on otherwise convertible / identical types: the method must win
    if allow_func and funcs is not None:
        s, d = rng.choice([(B("int"), B("int64")), (B("string"), B("string")), (B("int32"), B("int32")),
                           (B("bool"), B("bool")), (B("float64"), B("int")), (B("uint8"), B("int"))])
        _add_funcs(rng, funcs, s, d, rng.choice(["both", "both", "to", "from"]))
        vc = "small" if (s[1] in FLOAT_KINDS or d[1] in FLOAT_KINDS) else "full"
        return s, d, vc, "func_over_conv"
    t = _basic_same(rng)
    return t, t, ("small" if t[1] in FLOAT_KINDS else "full"), "same"


def _func_kind(rng, p, r):
    pk, rk = p[1], r[1]
    if p[0] != "basic" or r[0] != "basic":
        return None
    if pk == "bool" and rk == "bool":
        return ["not"]
    if pk == "string" and rk == "string":
        return ["cat", "#" + rng.choice("abcxyz")]
    if pk == "string" and rk in INT_KINDS + FLOAT_KINDS:
        return ["len", rk, rng.randint(1, 9)]
    if pk in INT_KINDS and rk == "string":
        return ["parity", "#" + rng.choice("pqr")]
    if pk in INT_KINDS + FLOAT_KINDS and rk in INT_KINDS + FLOAT_KINDS:
        return ["add", rk, rng.randint(1, 9)]
    return None


def _add_funcs(rng, funcs, s, d, dirs):
    def add(p, r):
        k = _func_kind(rng, p, r)
        if k is None:
            return
        funcs.append({"name": "F%d" % len(funcs), "param": p, "result": r, "kind": k})
        if rng.random() < 0.2:   # a second method with the same signature: the first one wins
            k2 = _func_kind(rng, p, r)
            funcs.append({"name": "F%d" % len(funcs), "param": p, "result": r, "kind": k2})
    if dirs in ("both", "to"):
        add(s, d)
    if dirs in ("both", "from") and not (s == d and dirs == "both"):
        add(d, s)


def _add_struct_funcs(rng, funcs, src_decls, dst_decls, isn, idn, sty, dty, dirs):
    def intfields(decls, name):
        d = [x for x in decls if x["name"] == name][0]
        return [f for f in d["fields"] if not f["emb"] and f["ty"][0] == "basic" and f["ty"][1] in INT_KINDS]
    sf, df = intfields(src_decls, isn), intfields(dst_decls, idn)
    if not sf or not df:
        return False
    a, b = rng.choice(sf), rng.choice(df)
    if dirs in ("to", "both"):
        funcs.append({"name": "F%d" % len(funcs), "param": sty, "result": dty,
                      "kind": ["pick", "dst", idn, a["name"], b["name"], b["ty"][1], rng.randint(1, 9), dty[0] == "ptr"]})
    if dirs in ("from", "both"):
        funcs.append({"name": "F%d" % len(funcs), "param": dty, "result": sty,
                      "kind": ["pick", "src", isn, b["name"], a["name"], a["ty"][1], rng.randint(1, 9), sty[0] == "ptr"]})
    return True


def gen_pair(rng, quirks=False, force=None):
    """one random src/dest pair inside the guard of the C05/C09 theorems
    (quirks=True: may leave it through name fan-out, which the literal model reproduces)"""
    force = force or {}
    flags = {"ic": rng.random() < 0.25, "alias": rng.choice([None, None, None, None, "dm", "target"]),
             "way": rng.choice(["both"] * 6 + ["toonly", "fromonly"])}
    flags.update(force.get("flags", {}))
    use_mapper = rng.random() < 0.6
    mapper = {"name": "Mapper", "pkg": rng.choice(["src", "src", "mapper"])} if use_mapper else None
    if mapper:
        # the mapper may be embedded BY POINTER (loadTypeMapperPkg accepts *Mapper) and its methods may have pointer
        # receivers; pointer-embedded + value receivers is the class of K_map_mapper_ptr_embedded
        r = rng.random()
        mapper["ptr"] = r < 0.22
        mapper["recv"] = "ptr" if rng.random() < (0.45 if mapper["ptr"] else 0.2) else "value"
    funcs = [] if use_mapper else None
    names = list(NAMES) + ([] if force.get("no_underscore") else list(UNDERSCORE_NAMES))
    rng.shuffle(names)
    tagnames = list(TAG_SRC_NAMES)
    rng.shuffle(tagnames)
    src_decls, dst_decls = [], []
    dst_decls.append({"name": "Status", "kind": "basic", "basic": "int"})
    dst_decls.append({"name": "Text", "kind": "basic", "basic": "string"})
    if flags["way"] == "toonly":
        src_decls.append({"name": "Rank", "kind": "basic", "basic": "int"})
    jobs = []
    feats = set()

    def mk_field(name, ty, tag="", vc="full", emb=False):
        return {"name": name, "emb": emb, "ty": ty, "tag": tag, "vc": vc}

    def logical_fields(n, sslots, dslots, inner, top, allow_func):
        """distribute n logical leaf/sub fields over the slots (lists of field lists)"""
        for _ in range(n):
            if not names:
                break
            base, acro, fold = names.pop()
            r = rng.random()
            tag = ""
            sname = dname = base
            rel = "identical"
            if r < 0.15 and acro:
                sname, dname = (base, acro) if rng.random() < 0.5 else (acro, base)
                rel = "acronym"
            elif r < 0.30 and fold:
                sname, dname = (base, fold) if rng.random() < 0.5 else (fold, base)
                rel = "fold"
            elif r < 0.42 and tagnames and top:
                sname, dname, tag = tagnames.pop(), base, base
                if rng.random() < 0.3:
                    tag = to_camel_go(base)        # the tag is Pascal-cased by shoot
                rel = "tag"
            feats.add("name:" + rel)
            k = rng.random()
            if inner and k < 0.22:
                isn, idn = rng.choice(inner)
                sp, dp = rng.random() < 0.5, rng.random() < 0.5
                if rng.random() < 0.5:
                    sty, dty = N("src", isn), N("dst", idn)
                    sty, dty = (P(sty) if sp else sty), (P(dty) if dp else dty)
                    kind = "sub"
                    if allow_func and funcs is not None and mapper and mapper["pkg"] == "src" and rng.random() < 0.35:
                        # a user mapper method on the sub-struct types, often in ONE direction only: the other
                        # direction is then the generated ToX/FromX of the inner type
                        if _add_struct_funcs(rng, funcs, src_decls, dst_decls, isn, idn, sty, dty,
                                             rng.choice(["to", "to", "from", "both"])):
                            feats.add("kind:sub_func")
                else:
                    se, de = N("src", isn), N("dst", idn)
                    sty, dty = S(P(se) if sp else se), S(P(de) if dp else de)
                    kind = "each"
                vc = "full"
                feats.add("%s:%d%d" % (kind, sp, dp))
            else:
                sty, dty, vc, kind = _gen_leaf(rng, flags, funcs, mapper and mapper["pkg"], allow_func)
            feats.add("kind:" + kind)
            place = rng.random()
            if place < 0.08:
                feats.add("kind:src_only")
                (sslots[0] if (tag and top) else rng.choice(sslots)).append(mk_field(sname, sty, tag if top else "", vc))
                continue
            if place < 0.16:
                feats.add("kind:dst_only")
                rng.choice(dslots).append(mk_field(dname, dty, "", vc))
                continue
            ss = rng.choice(sslots)
            ds = rng.choice(dslots)
            stag = tag
            dtag = ""
            if place < 0.22 and top:
                feats.add("kind:skip")
                if rng.random() < 0.5:
                    ss, stag = sslots[0], "-"
                else:
                    ds, dtag = dslots[0], "-"
            if stag and stag != "-" and ss is not sslots[0]:
                ss = sslots[0]      # tags are honoured on the top level only
            ss.append(mk_field(sname, sty, stag, vc))
            ds.append(mk_field(dname, dty, dtag, vc))

    # inner struct pairs (sub-struct mapping), possibly nested one level
    inner = []
    for k in range(rng.choice([0, 1, 1, 2, 2])):
        base = INNER_NAMES[k]
        isn = base
        idn = base if rng.random() < 0.7 else base + "DTO"
        sf, df = [], []
        logical_fields(rng.randint(1, 3), [sf], [df], inner[:1] if (inner and rng.random() < 0.4) else [], False, False)
        if not sf:
            sf.append(mk_field("Pad", B("int")))
        if not df:
            df.append(mk_field("Pad", B("int")))
        src_decls.append({"name": isn, "kind": "struct", "fields": sf})
        dst_decls.append({"name": idn, "kind": "struct", "fields": df})
        jobs.append({"src": isn, "dst": idn, "manual_to": None, "manual_from": None})
        inner.append((isn, idn))

    # embedded structs of the root types: a forest of depth <= 2, by value or pointer
    def gen_embeds(side):
        embs = []      # (decl name, [field list], pointer?, children)
        pool = [n for n in EMB_NAMES]
        rng.shuffle(pool)
        pfx = "S" if side == "src" else "D"
        n_top = rng.choice([0, 1, 1, 2])
        for _ in range(n_top):
            nm = pfx + pool.pop()
            if side == "src" and rng.random() < 0.3:
                # an embedded struct whose TYPE NAME is unexported (`*sBase`): its exported fields are promoted all the same
                # (source side only: the generated code lives in package src and could not name dest.dBase)
                nm = nm[0].lower() + nm[1:]
                feats.add("embed1:src:unexported_type")
            fl = []
            node = {"name": nm, "fields": fl, "ptr": rng.random() < 0.5, "children": []}
            if rng.random() < 0.5:
                cn = pfx + pool.pop()
                child = {"name": cn, "fields": [], "ptr": rng.random() < 0.5, "children": []}
                node["children"].append(child)
            embs.append(node)
        return embs

    sroot, droot = [], []
    sembs, dembs = gen_embeds("src"), gen_embeds("dst")

    def slots(root, embs):
        res = [root]
        for n in embs:
            res.append(n["fields"])
            for c in n["children"]:
                res.append(c["fields"])
        return res
    sslots, dslots = slots(sroot, sembs), slots(droot, dembs)
    # weight the top level
    logical_fields(rng.randint(3, 9), sslots + [sroot, sroot], dslots + [droot, droot], inner, True, True)

    # shadowing: a deeper field with the name of a shallower one (different depth: legal Go)
    if rng.random() < 0.3 and (sembs or dembs):
        side_slots, root, embs, pkg = (sslots, sroot, sembs, "src") if (sembs and (not dembs or rng.random() < 0.5)) \
            else (dslots, droot, dembs, "dst")
        cands = [f for f in root if not f["emb"] and f["tag"] != "-"]
        if cands:
            f = rng.choice(cands)
            deep = rng.choice(side_slots[1:])
            if all(g["name"] != f["name"] for g in deep):
                deep.append(mk_field(f["name"], rng.choice([f["ty"], B("string"), B("int")]), "", "small"))
                feats.add("shadow:" + pkg)

    def emit_embeds(embs, pkg, decls, root):
        for n in embs:
            fl = list(n["fields"])
            for c in n["children"]:
                cfl = list(c["fields"])
                if not cfl:
                    cfl.append(mk_field("Z" + c["name"], B("int")))
                decls.append({"name": c["name"], "kind": "struct", "fields": cfl})
                t = N(pkg, c["name"])
                fl.insert(rng.randint(0, len(fl)), mk_field(c["name"], P(t) if c["ptr"] else t, emb=True))
                feats.add("embed2:%s:%s" % (pkg, "ptr" if c["ptr"] else "val"))
            if not [f for f in fl if not f["emb"]]:
                fl.append(mk_field("Z" + n["name"], B("int")))
            decls.append({"name": n["name"], "kind": "struct", "fields": fl})
            t = N(pkg, n["name"])
            root.insert(rng.randint(0, len(root)), mk_field(n["name"], P(t) if n["ptr"] else t, emb=True))
            feats.add("embed1:%s:%s" % (pkg, "ptr" if n["ptr"] else "val"))
    emit_embeds(sembs, "src", src_decls, sroot)
    emit_embeds(dembs, "dst", dst_decls, droot)

    # the tag map is PER TYPE: an earlier type's `X map:"Y"` must not rename the untagged field X of a later type of the
    # same invocation (-type=Inner,Order); both orders, the later/earlier destination sometimes also has a field Y
    if inner and len(names) >= 2 and rng.random() < 0.45:
        xn, yn = names.pop()[0], names.pop()[0]
        isn0, idn0 = inner[0]
        isf = [d for d in src_decls if d["name"] == isn0][0]["fields"]
        idf = [d for d in dst_decls if d["name"] == idn0][0]["fields"]
        tagged_first = rng.random() < 0.7
        (t_s, t_d), (u_s, u_d) = ((isf, idf), (sroot, droot)) if tagged_first else ((sroot, droot), (isf, idf))
        t_s.append(mk_field(xn, B("string"), yn))
        t_d.append(mk_field(yn, B("string")))
        u_s.append(mk_field(xn, B("int")))
        u_d.append(mk_field(xn, B("int")))
        if rng.random() < 0.6:
            u_d.append(mk_field(yn, B("int")))
        feats.add("name:shared_across_jobs:%s" % ("tag_first" if tagged_first else "tag_last"))

    # appendOrReplace: ONE field name at THREE embedding depths (1, 2, 3), the three chains in random order, every embedding
    # by value or by pointer at random: the shallowest declaration wins whatever the order, and the nil guards / allocations
    # are those of ITS path
    if len(names) >= 1 and rng.random() < 0.3:
        side = rng.choice(["src", "src", "dst"])
        pfx, decls, root, oroot = ("SK", src_decls, sroot, droot) if side == "src" else ("DK", dst_decls, droot, sroot)
        xn = names.pop()[0]
        chains = []
        for depth in (1, 2, 3):
            nm = ["%s%d%s" % (pfx, depth, "abc"[k]) for k in range(depth)]
            ptrs = [rng.random() < 0.5 for _ in range(depth)]
            # innermost struct holds the field
            for k in reversed(range(depth)):
                fl = [mk_field(xn, B("int"))] if k == depth - 1 else \
                     [mk_field(nm[k + 1], P(N(side, nm[k + 1])) if ptrs[k + 1] else N(side, nm[k + 1]), emb=True)]
                decls.append({"name": nm[k], "kind": "struct", "fields": fl})
            chains.append(mk_field(nm[0], P(N(side, nm[0])) if ptrs[0] else N(side, nm[0]), emb=True))
        rng.shuffle(chains)
        root.extend(chains)
        oroot.append(mk_field(xn, B("int")))
        feats.add("embed3:%s:same_name_at_depth_1_2_3" % side)

    rs = "Order"
    rd = rs if rng.random() < 0.7 else "OrderDTO"
    if mapper:
        if mapper["pkg"] == "src":
            src_decls.append({"name": "Mapper", "kind": "struct", "fields": []})
            mt = N("src", "Mapper")
        else:
            mt = N("mapper", "Mapper")
        sroot.insert(0, mk_field("Mapper", P(mt) if mapper.get("ptr") else mt, emb=True))
        if mapper.get("ptr"):
            feats.add("mapper:ptr:%s" % mapper.get("recv", "value"))
        # distractor methods that apply to nothing
        if rng.random() < 0.5:
            funcs.append({"name": "F%d" % len(funcs), "param": B("uint16"), "result": B("bool"), "kind": ["never"]})
    if not [f for f in droot if not f["emb"]]:
        droot.append(mk_field("Pad", B("int")))
    if not [f for f in sroot if not f["emb"]]:
        sroot.append(mk_field("Pad", B("int")))
    src_decls.append({"name": rs, "kind": "struct", "fields": sroot})
    dst_decls.append({"name": rd, "kind": "struct", "fields": droot})
    root_job = {"src": rs, "dst": rd, "manual_to": None, "manual_from": None}
    # manual toX / fromX on the root: `d.F += k` on plain top-level integer fields
    if rng.random() < 0.3:
        def ints(fl):
            return [f for f in fl if not f["emb"] and f["ty"][0] == "basic" and f["ty"][1] in INT_KINDS and f["tag"] != "-"]

        def structish(fl, pkg):
            # fields held as sub-struct (value, pointer, slice) of this package: the manual method resets them
            def named(t):
                return t[0] == "named" and t[1] == pkg
            return [f for f in fl if not f["emb"] and f["tag"] != "-" and
                    (named(f["ty"]) or (f["ty"][0] in ("ptr", "slice") and (named(f["ty"][1]) or
                     (f["ty"][1][0] == "ptr" and named(f["ty"][1][1])))))]

        def ops(fl, pkg):
            res = []
            cand = ints(fl)
            if cand and rng.random() < 0.7:
                res += [(f["name"], f["ty"][1], rng.randint(1, 50)) for f in rng.sample(cand, min(len(cand), rng.randint(1, 2)))]
            cand = structish(fl, pkg)
            if cand and rng.random() < 0.7:
                res += [(f["name"], None, f["ty"]) for f in rng.sample(cand, min(len(cand), rng.randint(1, 2)))]
                feats.add("manual:substruct")
            return res
        if flags["way"] != "fromonly":
            o = ops(droot, "dst")
            if o:
                root_job["manual_to"] = o
                feats.add("manual:to")
        if flags["way"] != "toonly":
            o = ops(sroot, "src")
            if o:
                root_job["manual_from"] = o
                feats.add("manual:from")
    # makeSubMap records IsPtr of BOTH fields in each of its two branches; when one direction of a nested pair is taken by a
    # manual method, only the other branch runs: a pointer (or slice of pointers) read side against a value written side then
    # needs the nil guard from that single branch.  ToX-guard side: *S -> D with fromX assigning the source field;
    # FromX-guard side: S <- *D with toX assigning the destination field.
    if flags["way"] == "both" and rng.random() < 0.5:
        def ptr_named(t, pkg):
            return (t[0] == "ptr" and t[1][0] == "named" and t[1][1] == pkg) or \
                   (t[0] == "slice" and t[1][0] == "ptr" and t[1][1][0] == "named" and t[1][1][1] == pkg)

        def val_named(t, pkg):
            return (t[0] == "named" and t[1] == pkg) or (t[0] == "slice" and t[1][0] == "named" and t[1][1] == pkg)
        taken = {(repr(f["param"]), repr(f["result"])) for f in (funcs or [])}
        dn = {f["name"]: f for f in droot if not f["emb"]}
        for f in [f for f in sroot if not f["emb"] and f["tag"] in ("",)]:
            g = dn.get(f["name"])
            if not g or (repr(f["ty"]), repr(g["ty"])) in taken or (repr(g["ty"]), repr(f["ty"])) in taken:
                continue
            if ptr_named(f["ty"], "src") and val_named(g["ty"], "dst") and (f["ty"][0] == g["ty"][0] or f["ty"][0] == "ptr"):
                cur = root_job["manual_from"] or []
                if f["name"] not in [o[0] for o in cur]:
                    root_job["manual_from"] = cur + [(f["name"], None, f["ty"])]
                    feats.add("manual:from_claims_ptr_sub")
            elif val_named(f["ty"], "src") and ptr_named(g["ty"], "dst") and (f["ty"][0] == g["ty"][0] or g["ty"][0] == "ptr"):
                cur = root_job["manual_to"] or []
                if g["name"] not in [o[0] for o in cur]:
                    root_job["manual_to"] = cur + [(g["name"], None, g["ty"])]
                    feats.add("manual:to_claims_ptr_sub")
    jobs.append(root_job)

    spec = {"decls": {"src": src_decls, "dst": dst_decls}, "jobs": jobs, "funcs": funcs or [], "mapper": mapper,
            "flags": flags, "root": rs, "features": sorted(feats)}
    if quirks:
        _add_fanout(rng, spec)
    return spec


def _add_fanout(rng, spec):
    """leave the guard: a second destination (or source) field that matches an existing counterpart"""
    root_s = struct_decl(spec, "src", spec["root"])
    rd = [j for j in spec["jobs"] if j["src"] == spec["root"]][0]["dst"]
    root_d = struct_decl(spec, "dst", rd)
    cands = [f for f in root_s["fields"] if not f["emb"] and f["tag"] == "" and f["ty"][0] == "basic"]
    if not cands:
        return
    f = rng.choice(cands)
    if rng.random() < 0.35:
        # ONE source field that name-matches TWO destination fields (acronym spellings), one of them promoted through an
        # embedded struct (pointer or value), in either order: readSrcMap[FanID] is overwritten by the later candidate, and
        # only the LIVE entry decides which embedded pointers ToX allocates
        ptr = rng.random() < 0.7
        spec["decls"]["dst"].insert(0, {"name": "DFan", "kind": "struct",
                                        "fields": [{"name": "FanID", "emb": False, "ty": B("int"), "tag": "", "vc": "full"},
                                                   {"name": "FanNote", "emb": False, "ty": B("string"), "tag": "", "vc": "full"}]})
        root_s["fields"].append({"name": "FanID", "emb": False, "ty": B("int"), "tag": "", "vc": "full"})
        emb = {"name": "DFan", "emb": True, "ty": P(N("dst", "DFan")) if ptr else N("dst", "DFan"), "tag": "", "vc": "full"}
        top = {"name": "FanId", "emb": False, "ty": B("int"), "tag": "", "vc": "full"}
        for x in rng.sample([emb, top], 2):
            root_d["fields"].insert(rng.randint(0, len(root_d["fields"])), x)
        spec["features"] = sorted(set(spec["features"]) | {"quirk:fanout", "quirk:fanout_one_src_two_dst_embedded"})
        return
    if rng.random() < 0.5:
        # a source field tagged onto an existing destination name
        root_s["fields"].append({"name": "Dup" + f["name"], "emb": False, "ty": f["ty"], "tag": f["name"], "vc": f["vc"]})
    else:
        root_d["fields"].append({"name": f["name"].upper() + "X", "emb": False, "ty": f["ty"], "tag": "", "vc": f["vc"]})
        root_s["fields"].append({"name": f["name"] + "Y", "emb": False, "ty": f["ty"], "tag": f["name"].upper() + "X", "vc": f["vc"]})
    spec["features"] = sorted(set(spec["features"]) | {"quirk:fanout"})


def struct_decl(spec, pkg, name):
    if pkg == "common":
        ds = COMMON
    elif pkg == "mapper":
        return {"name": name, "kind": "struct", "fields": []}
    else:
        ds = spec["decls"][pkg]
    for d in ds:
        if d["name"] == name:
            return d
    return None


# ------------------------------------------------------------------------------ Go rendering
def go_type(t, here, quals):
    """quals: {pkg: qualifier} ; here: the package the text lives in"""
    k = t[0]
    if k == "basic":
        return t[1]
    if k == "named":
        if t[1] == here:
            return t[2]
        return quals[t[1]] + "." + t[2]
    if k == "ptr":
        return "*" + go_type(t[1], here, quals)
    if k == "slice":
        return "[]" + go_type(t[1], here, quals)
    if k == "map":
        return "map[%s]%s" % (go_type(t[1], here, quals), go_type(t[2], here, quals))
    raise ValueError(t)


def types_used(t, acc):
    if t[0] == "named":
        acc.add(t[1])
    elif t[0] in ("ptr", "slice"):
        types_used(t[1], acc)
    elif t[0] == "map":
        types_used(t[1], acc)
        types_used(t[2], acc)


QUALS = {"src": "src", "dst": "dest", "common": "common", "mapper": "mapper"}


def _imports(pkgs, here, mod, sub):
    paths = {"src": "%s/%s/src" % (mod, sub), "dst": "%s/%s/dest" % (mod, sub), "common": "%s/common" % mod,
             "mapper": "%s/%s/mapper" % (mod, sub)}
    lines = ['\t"%s"' % paths[p] for p in sorted(pkgs) if p != here]
    if not lines:
        return ""
    return "import (\n" + "\n".join(lines) + "\n)\n\n"


def _render_decls(decls, here, mod, sub, extra=""):
    used = set()
    body = []
    for d in decls:
        if d["kind"] == "basic":
            body.append("type %s %s\n" % (d["name"], d["basic"]))
            continue
        lines = ["type %s struct {" % d["name"]]
        for f in d["fields"]:
            types_used(f["ty"], used)
            tag = (' `map:"%s"`' % f["tag"]) if f["tag"] else ""
            if f["emb"]:
                lines.append("\t%s%s" % (go_type(f["ty"], here, QUALS), tag))
            else:
                dc = directive_comment(f) if d.get("shootnew") else ""
                lines.append("%s\t%s %s%s" % (dc, f["name"], go_type(f["ty"], here, QUALS), tag))
        lines.append("}\n")
        body.append("\n".join(lines))
    return used, "\n".join(body) + extra


def func_go(fn, here, spec):
    """a mapper method of the grammar as Go text"""
    p = go_type(fn["param"], here, QUALS)
    r = go_type(fn["result"], here, QUALS)
    k = fn["kind"]
    if k[0] == "not":
        body = "return !x"
    elif k[0] == "cat":
        body = 'return x + %s(%s)' % (r, go_str(k[1].encode()))
    elif k[0] == "len":
        body = "return %s(len(x)) + %d" % (r, k[2])
    elif k[0] == "parity":
        body = 'if x%%2 == 0 {\n\t\treturn %s("e" + %s)\n\t}\n\treturn %s("o" + %s)' % (
            r, go_str(k[1].encode()), r, go_str(k[1].encode()))
    elif k[0] == "add":
        body = "return %s(x) + %d" % (r, k[2])
    elif k[0] == "never":
        body = "return x > 3"
    elif k[0] == "pick":
        # ["pick", wpkg, wname, fa, fb, basic, k, rptr]: struct (or pointer) of one side -> struct (or pointer) of the other
        wt = go_type(["named", k[1], k[2]], here, QUALS)
        guard = "x != nil" if fn["param"][0] == "ptr" else None
        asg = "r.%s = %s(x.%s) + %d" % (k[4], k[5], k[3], k[6])
        body = "var r %s\n\t%s\n\treturn %sr" % (
            wt, ("if %s {\n\t\t%s\n\t}" % (guard, asg)) if guard else asg, "&" if k[7] else "")
    else:
        raise ValueError(k)
    recv = "*Mapper" if (spec.get("mapper") or {}).get("recv") == "ptr" else "Mapper"
    return "func (%s) %s(x %s) %s {\n\t%s\n}\n" % (recv, fn["name"], p, r, body)


def go_zero(spec, t, here):
    """Go text of the zero value of t"""
    if t[0] in ("ptr", "slice", "map"):
        return "nil"
    if t[0] == "basic":
        return {"string": '""', "bool": "false"}.get(t[1], "0")
    d = struct_decl(spec, t[1], t[2])
    if d["kind"] == "basic":
        return go_zero(spec, ["basic", d["basic"]], here)
    return go_type(t, here, QUALS) + "{}"


def render_go(spec, mod="vmod", sub="p0"):
    files = {}
    used, body = _render_decls(spec["decls"]["dst"], "dst", mod, sub)
    files["%s/dest/dest.go" % sub] = "package dest\n\n" + _imports(used, "dst", mod, sub) + body
    extra = ""
    used_extra = set()
    mp = spec["mapper"]
    if mp and mp["pkg"] == "src":
        for fn in spec["funcs"]:
            types_used(fn["param"], used_extra)
            types_used(fn["result"], used_extra)
            extra += "\n" + func_go(fn, "src", spec)
    # manual methods
    alias = spec["flags"]["alias"]
    dq = alias or "dest"
    key = to_pascal(alias or "dest")
    for j in spec["jobs"]:
        recv = j["src"][:1].lower()
        if recv == "d":
            recv = "r"
        def mline(var, op, herepkg):
            f, b, k = op
            if b is not None:
                return "\t%s.%s += %d\n" % (var, f, k)
            types_used(k, used_extra)
            return "\t%s.%s = %s\n" % (var, f, go_zero(spec, k, herepkg))
        if j.get("manual_to"):
            extra += "\nfunc (%s *%s) to%s(d *dest.%s) {\n%s}\n" % (
                recv, j["src"], key, j["dst"], "".join(mline("d", op, "src") for op in j["manual_to"]))
            used_extra.add("dst")
        if j.get("manual_from"):
            extra += "\nfunc (%s *%s) from%s(d dest.%s) {\n%s}\n" % (
                recv, j["src"], key, j["dst"], "".join(mline(recv, op, "src") for op in j["manual_from"]))
            used_extra.add("dst")
    used, body = _render_decls(spec["decls"]["src"], "src", mod, sub, extra)
    files["%s/src/src.go" % sub] = "package src\n\n" + _imports(used | used_extra, "src", mod, sub) + body
    if mp and mp["pkg"] == "mapper":
        u = set()
        txt = "type Mapper struct{}\n"
        for fn in spec["funcs"]:
            types_used(fn["param"], u)
            types_used(fn["result"], u)
            txt += "\n" + func_go(fn, "mapper", spec)
        files["%s/mapper/mapper.go" % sub] = "package mapper\n\n" + _imports(u, "mapper", mod, sub) + txt
    return files


def shoot_args(spec):
    fl = spec["flags"]
    jobs = spec["jobs"]
    args = ["map", "-path=../dest", "-type=" + ",".join(j["src"] for j in jobs)]
    if any(j["src"] != j["dst"] for j in jobs):
        args.append("-to=" + ",".join(j["dst"] for j in jobs))
    if fl["alias"]:
        args.append("-alias=" + fl["alias"])
    if fl["ic"]:
        args.append("-i")
    if fl["way"] != "both":
        args.append("-way=" + fl["way"])
    return args


def method_names(spec):
    key = to_pascal(spec["flags"]["alias"] or "dest")
    return "To" + key, "From" + key


# ------------------------------------------------------------------------------ values
def go_str(bs):
    out = ['"']
    for c in bs:
        if c == 34:
            out.append('\\"')
        elif c == 92:
            out.append("\\\\")
        elif 32 <= c < 127:
            out.append(chr(c))
        else:
            out.append("\\x%02x" % c)
    out.append('"')
    return "".join(out)


BOUNDS = [0, 1, -1, 2, 7, 100, 127, 128, -128, -129, 255, 256, 32767, 32768, -32768, -32769, 65535, 65536,
          2 ** 31 - 1, 2 ** 31, -2 ** 31, -2 ** 31 - 1, 2 ** 32 - 1, 2 ** 32, 2 ** 32 + 5, 2 ** 40 + 3,
          2 ** 63 - 1, -2 ** 63, 2 ** 63, 2 ** 64 - 1]
RUNES = [65, 97, 48, 126, 32, 0, 127, 128, 233, 2047, 2048, 8364, 55295, 55296, 57343, 57344, 65533, 65535, 65536,
         128512, 1114111, 1114112, -1, 2 ** 31, 2 ** 40]


class Sentinels:
    """distinct, recognisable values"""

    def __init__(self, rng):
        self.rng = rng
        self.n = 0

    def int(self, kind, vc):
        lo, hi = RANGE[kind]
        self.n += 1
        if vc == "small":
            return (self.n * 7 + self.rng.randint(0, 6)) % 101
        if vc == "rune":
            v = self.rng.choice(RUNES) if self.rng.random() < 0.6 else self.rng.randint(33, 126)
        elif self.rng.random() < 0.45:
            v = self.rng.choice(BOUNDS)
        else:
            v = self.rng.randint(lo, hi) if self.rng.random() < 0.5 else self.rng.randint(max(lo, -300), min(hi, 300))
        if v < lo or v > hi:
            v = lo + (v - lo) % (hi - lo + 1)
        return v

    def str(self, vc):
        self.n += 1
        r = self.rng.random()
        if r < 0.1:
            return b""
        base = ("s%d" % self.n).encode()
        if r < 0.2:
            base += bytes([self.rng.choice([0, 9, 34, 92, 128, 233, 255])])
        return base


REC_LIMIT = 3   # a recursive type (Node{Next *Node}) is unfolded this many times, then its pointers/slices are nil


def gen_value(rng, spec, t, mode, sent, vc="full", depth=0, stack=()):
    """mode: probability of nil at each nil-able position (0.0 = everything allocated);
    slices get 1..3 elements"""
    k = t[0]
    if k == "basic":
        b = t[1]
        if b == "string":
            return ["str", list(sent.str(vc))]
        if b == "bool":
            return ["bool", rng.random() < 0.5]
        if b in FLOAT_KINDS:
            return ["int", sent.int("int8", "small")]
        return ["int", sent.int(b, vc)]
    if k == "named":
        d = struct_decl(spec, t[1], t[2])
        if d["kind"] == "basic":
            return gen_value(rng, spec, B(d["basic"]), mode, sent, vc, depth)
        st2 = stack + ((t[1], t[2]),)
        return ["struct", [[f["name"], gen_value(rng, spec, f["ty"], mode, sent, f.get("vc", "full"), depth + 1, st2)]
                           for f in d["fields"]]]
    if k in ("ptr", "slice") and _rec_cut(t, stack):
        return ["nil"]
    if k == "ptr":
        if rng.random() < mode:
            return ["nil"]
        return ["ptr", gen_value(rng, spec, t[1], mode, sent, vc, depth + 1, stack)]
    if k == "slice":
        if rng.random() < mode:
            return ["nil"]
        n = rng.choice([0, 1, 2, 3]) if depth < 3 else 1
        return ["list", [gen_value(rng, spec, t[1], mode, sent, vc, depth + 1, stack) for _ in range(n)]]
    if k == "map":
        if rng.random() < mode:
            return ["nil"]
        n = rng.choice([0, 1, 2])
        kv = {}
        for _ in range(n):
            kk = gen_value(rng, spec, t[1], 0, sent, vc, depth + 1)
            kv[repr(kk)] = (kk, gen_value(rng, spec, t[2], mode, sent, vc, depth + 1))
        return ["map", [[a, b] for a, b in sorted(kv.values(), key=lambda x: sort_key(x[0]))]]
    raise ValueError(t)


def sort_key(v):
    if v[0] == "int":
        return (0, v[1], b"")
    if v[0] == "str":
        return (1, 0, bytes(v[1]))
    return (2, 0, repr(v).encode())


def _rec_cut(t, stack):
    """t (a pointer or slice type) leads back into a struct type that is already unfolded REC_LIMIT times"""
    u = t
    while u[0] in ("ptr", "slice"):
        u = u[1]
    return u[0] == "named" and stack.count((u[1], u[2])) >= REC_LIMIT


def nil_positions(spec, t, path=(), stack=()):
    """nil-able positions of a value of type t (pointers, slices, maps); slices contribute their
    first two elements' positions; recursive types are unfolded REC_LIMIT times"""
    k = t[0]
    res = []
    if k == "named":
        d = struct_decl(spec, t[1], t[2])
        if d["kind"] == "struct":
            st2 = stack + ((t[1], t[2]),)
            for f in d["fields"]:
                res += nil_positions(spec, f["ty"], path + (f["name"],), st2)
    elif k in ("ptr", "slice") and _rec_cut(t, stack):
        pass        # always nil there
    elif k == "ptr":
        res.append(path)
        res += nil_positions(spec, t[1], path + ("*",), stack)
    elif k == "slice":
        res.append(path)
        if t[1][0] in ("ptr", "named"):
            for i in range(2):
                res += nil_positions(spec, t[1], path + (i,), stack)
    elif k == "map":
        res.append(path)
    return res


def gen_value_pattern(rng, spec, t, nils, sent, vc="full", path=(), stack=()):
    """a value whose nil-able positions in [nils] (a set of paths) are nil and all others allocated;
    slices of pointer/struct elements have exactly two elements"""
    k = t[0]
    if k in ("basic",):
        return gen_value(rng, spec, t, 0, sent, vc)
    if k == "named":
        d = struct_decl(spec, t[1], t[2])
        if d["kind"] == "basic":
            return gen_value(rng, spec, t, 0, sent, vc)
        st2 = stack + ((t[1], t[2]),)
        return ["struct", [[f["name"], gen_value_pattern(rng, spec, f["ty"], nils, sent, f.get("vc", "full"),
                                                          path + (f["name"],), st2)] for f in d["fields"]]]
    if path in nils or (k in ("ptr", "slice") and _rec_cut(t, stack)):
        return ["nil"]
    if k == "ptr":
        return ["ptr", gen_value_pattern(rng, spec, t[1], nils, sent, vc, path + ("*",), stack)]
    if k == "slice":
        if t[1][0] in ("ptr", "named"):
            return ["list", [gen_value_pattern(rng, spec, t[1], nils, sent, vc, path + (i,), stack) for i in range(2)]]
        return gen_value(rng, spec, t, 0, sent, vc, 0, stack)
    return gen_value(rng, spec, t, 0, sent, vc, 0, stack)


def render_go_value(spec, t, v, here, quals=QUALS):
    k = t[0]
    if k == "basic":
        b = t[1]
        if b == "string":
            return go_str(bytes(v[1]))
        if b == "bool":
            return "true" if v[1] else "false"
        return "%s(%d)" % (b, v[1])
    if k == "named":
        d = struct_decl(spec, t[1], t[2])
        tn = go_type(t, here, quals)
        if d["kind"] == "basic":
            if d["basic"] == "string":
                return "%s(%s)" % (tn, go_str(bytes(v[1])))
            if d["basic"] == "bool":
                return "%s(%s)" % (tn, "true" if v[1] else "false")
            return "%s(%d)" % (tn, v[1])
        parts = []
        for f, (n, fv) in zip(d["fields"], v[1]):
            parts.append("%s: %s" % (f["name"], render_go_value(spec, f["ty"], fv, here, quals)))
        return "%s{%s}" % (tn, ", ".join(parts))
    if v[0] == "nil":
        return "nil"
    if k == "ptr":
        inner = t[1]
        if inner[0] == "named" and struct_decl(spec, inner[1], inner[2])["kind"] == "struct":
            return "&" + render_go_value(spec, inner, v[1], here, quals)
        return "ptrOf[%s](%s)" % (go_type(inner, here, quals), render_go_value(spec, inner, v[1], here, quals))
    if k == "slice":
        return "%s{%s}" % (go_type(t, here, quals), ", ".join(render_go_value(spec, t[1], x, here, quals) for x in v[1]))
    if k == "map":
        return "%s{%s}" % (go_type(t, here, quals), ", ".join(
            "%s: %s" % (render_go_value(spec, t[1], a, here, quals), render_go_value(spec, t[2], b, here, quals))
            for a, b in v[1]))
    raise ValueError(t)


# ------------------------------------------------------------------------------ Coq rendering
def coq_str(bs):
    bs = bytes(bs)
    if all(32 <= c < 127 and c != 34 for c in bs):
        return '"' + bs.decode() + '"'
    return "(bs [%s])" % "; ".join(str(c) for c in bs)


def coq_pkg(p):
    return {"src": "PSrc", "dst": "PDst"}.get(p) or '(POth "%s")' % p


def coq_ty(t):
    k = t[0]
    if k == "basic":
        return "(TBasic %s)" % COQ_BASIC[t[1]]
    if k == "named":
        return '(TNamed %s "%s")' % (coq_pkg(t[1]), t[2])
    if k == "ptr":
        return "(TPtr %s)" % coq_ty(t[1])
    if k == "slice":
        return "(TSlice %s)" % coq_ty(t[1])
    if k == "map":
        return "(TMap %s %s)" % (coq_ty(t[1]), coq_ty(t[2]))
    raise ValueError(t)


def coq_decl(pkg, d):
    if d["kind"] == "basic":
        return '((%s, "%s"), DBasic %s)' % (coq_pkg(pkg), d["name"], COQ_BASIC[d["basic"]])
    fs = "; ".join('{| sf_name := "%s"; sf_emb := %s; sf_ty := %s; sf_tag := %s |}' % (
        f["name"], "true" if f["emb"] else "false", coq_ty(f["ty"]), coq_str(f["tag"].encode())) for f in d["fields"])
    return '((%s, "%s"), DStruct [%s])' % (coq_pkg(pkg), d["name"], fs)


def coq_val(v):
    k = v[0]
    if k == "int":
        return "(VInt (%d)%%Z)" % v[1]
    if k == "str":
        return "(VStr %s)" % coq_str(v[1])
    if k == "bool":
        return "(VBool %s)" % ("true" if v[1] else "false")
    if k == "nil":
        return "VNil"
    if k == "ptr":
        return "(VPtr %s)" % coq_val(v[1])
    if k == "struct":
        return "(VStruct [%s])" % "; ".join('("%s", %s)' % (n, coq_val(x)) for n, x in v[1])
    if k == "list":
        return "(VList [%s])" % "; ".join(coq_val(x) for x in v[1])
    if k == "map":
        return "(VMap [%s])" % "; ".join("(%s, %s)" % (coq_val(a), coq_val(b)) for a, b in v[1])
    raise ValueError(v)


def coq_fkind(k):
    if k[0] == "not":
        return "FNot"
    if k[0] == "cat":
        return "(FCat %s)" % coq_str(k[1].encode())
    if k[0] == "len":
        return "(FLen %s (%d)%%Z)" % (COQ_BASIC[k[1]], k[2])
    if k[0] == "parity":
        return "(FParity %s)" % coq_str(k[1].encode())
    if k[0] == "add":
        return "(FAdd %s (%d)%%Z)" % (COQ_BASIC[k[1]], k[2])
    if k[0] == "never":
        return "FNot"
    if k[0] == "pick":
        return '(FPick %s "%s" "%s" "%s" %s (%d)%%Z %s)' % (coq_pkg(k[1]), k[2], k[3], k[4], COQ_BASIC[k[5]], k[6],
                                                             "true" if k[7] else "false")
    raise ValueError(k)


def coq_opt_names(l):
    if l is None:
        return "None"
    return "(Some [%s])" % "; ".join('"%s"' % x[0] for x in l)


def _is_mapper_field(f):
    t = f["ty"][1] if f["ty"][0] == "ptr" else f["ty"]
    return f["emb"] and t[0] == "named" and t[2] == "Mapper"


def embeds_mapper(spec, tname):
    d = struct_decl(spec, "src", tname)
    return any(_is_mapper_field(f) for f in d["fields"])


def mapper_hop(spec, tname):
    """Coq term for job.j_mapper_hop: Some ["Mapper"] iff the mapper is embedded by pointer in tname and its methods have
    value receivers (then `t.F(x)` dereferences t.Mapper)"""
    d = struct_decl(spec, "src", tname)
    for f in d["fields"]:
        if _is_mapper_field(f) and f["ty"][0] == "ptr" and (spec.get("mapper") or {}).get("recv", "value") == "value":
            return '(Some ["Mapper"])'
    return "None"


def coq_accessor(a):
    return '{| ac_name := "%s"; ac_ty := %s; ac_set := %s; ac_path := [%s] |}' % (
        a["name"], coq_ty(a["ty"]), "true" if a["set"] else "false", "; ".join('"%s"' % x for x in a["path"]))


def coq_cparam(c):
    return '{| cp_field := "%s"; cp_path := [%s]; cp_ty := %s |}' % (
        c["field"], "; ".join('"%s"' % x for x in c["path"]), coq_ty(c["ty"]))


def render_coq_pair(spec):
    decls = [coq_decl("src", d) for d in spec["decls"]["src"]] + [coq_decl("dst", d) for d in spec["decls"]["dst"]] \
        + [coq_decl("common", d) for d in COMMON]
    if spec["mapper"] and spec["mapper"]["pkg"] == "mapper":
        decls.append('((POth "mapper", "Mapper"), DStruct [])')
    fuel = len(decls) + 2
    funcs = "[%s]" % "; ".join('{| mf_name := "%s"; mf_param := %s; mf_result := %s |}' % (
        f["name"], coq_ty(f["param"]), coq_ty(f["result"])) for f in spec["funcs"])
    jobs = []
    for j in spec["jobs"]:
        jobs.append(
            '{| j_env := E; j_fuel := %d; j_src := "%s"; j_dst := "%s"; j_funcs := %s; j_ic := %s; '
            'j_src_acc := [%s]; j_dst_acc := [%s]; j_src_ctor := [%s]; j_dst_ctor := [%s]; j_src_shootnew := %s; '
            'j_manual_to := %s; j_manual_from := %s; j_mapper_hop := %s |}' % (
                fuel, j["src"], j["dst"], "FN" if embeds_mapper(spec, j["src"]) else "[]",
                "true" if spec["flags"]["ic"] else "false",
                "; ".join(coq_accessor(a) for a in j.get("src_acc", [])),
                "; ".join(coq_accessor(a) for a in j.get("dst_acc", [])),
                "; ".join(coq_cparam(c) for c in j.get("src_ctor", [])),
                "; ".join(coq_cparam(c) for c in j.get("dst_ctor", [])),
                "true" if j.get("src_shootnew") else "false",
                coq_opt_names(j.get("manual_to")), coq_opt_names(j.get("manual_from")), mapper_hop(spec, j["src"])))

    def mop(op):
        f, b, k = op
        if b is not None:
            return '(MAdd "%s" %s (%d)%%Z)' % (f, COQ_BASIC[b], k)
        return '(MZero "%s" %s)' % (f, coq_ty(k))

    def manual(key):
        return "[%s]" % "; ".join('("%s", [%s])' % (j["src"], "; ".join(mop(op) for op in j[key]))
                                  for j in spec["jobs"] if j.get(key))
    return ("(let E : env := [%s] in let FN : list mfunc := %s in {| ps_env := E; ps_fuel := %d; ps_jobs := [%s]; "
            "ps_funcs := [%s]; ps_manual_to := %s; ps_manual_from := %s; ps_way := %s |})" % (
                ";\n  ".join(decls), funcs, fuel, ";\n  ".join(jobs),
                "; ".join('("%s", %s)' % (f["name"], coq_fkind(f["kind"])) for f in spec["funcs"]),
                manual("manual_to"), manual("manual_from"),
                {"both": "WBoth", "toonly": "WToOnly", "fromonly": "WFromOnly"}[spec["flags"]["way"]]))


# ------------------------------------------------------------------------------ oracle dump parsing
def parse_dump(s):
    """inverse of the reflect dumper of the oracle program (see mapharness.ORACLE_LIB)"""
    pos = [0]

    def val():
        c = s[pos[0]]
        pos[0] += 1
        if c == "i":
            j = pos[0]
            while pos[0] < len(s) and (s[pos[0]].isdigit() or s[pos[0]] == "-"):
                pos[0] += 1
            return ["int", int(s[j:pos[0]])]
        if c == "s":
            j = pos[0]
            while pos[0] < len(s) and s[pos[0]] in "0123456789abcdef":
                pos[0] += 1
            return ["str", list(bytes.fromhex(s[j:pos[0]]))]
        if c == "b":
            pos[0] += 1
            return ["bool", s[pos[0] - 1] == "1"]
        if c == "n":
            return ["nil"]
        if c == "p":
            expect("(")
            v = val()
            expect(")")
            return ["ptr", v]
        if c == "t":
            expect("(")
            fs = []
            while s[pos[0]] != ")":
                j = pos[0]
                while s[pos[0]] != "=":
                    pos[0] += 1
                name = s[j:pos[0]]
                pos[0] += 1
                fs.append([name, val()])
                if s[pos[0]] == ",":
                    pos[0] += 1
            expect(")")
            return ["struct", fs]
        if c == "l":
            expect("(")
            xs = []
            while s[pos[0]] != ")":
                xs.append(val())
                if s[pos[0]] == ",":
                    pos[0] += 1
            expect(")")
            return ["list", xs]
        if c == "m":
            expect("(")
            kvs = []
            while s[pos[0]] != ")":
                k = val()
                expect(":")
                v = val()
                kvs.append([k, v])
                if s[pos[0]] == ",":
                    pos[0] += 1
            expect(")")
            return ["map", sorted(kvs, key=lambda x: sort_key(x[0]))]
        raise ValueError("bad dump at %d: %r" % (pos[0], s[:200]))

    def expect(ch):
        if s[pos[0]] != ch:
            raise ValueError("expected %r at %d in %r" % (ch, pos[0], s[:200]))
        pos[0] += 1
    v = val()
    if pos[0] != len(s):
        raise ValueError("trailing dump text: %r" % s[pos[0]:pos[0] + 50])
    return v


if __name__ == "__main__":
    import sys
    rng = random.Random(int(sys.argv[1]) if len(sys.argv) > 1 else 1)
    sp = gen_pair(rng)
    for p, t in render_go(sp).items():
        print("//", p)
        print(t)
    print(shoot_args(sp))
    print(render_coq_pair(sp))


# ------------------------------------------------------------------------------ fixed corpus
def _f(name, ty, tag="", emb=False, vc="full"):
    return {"name": name, "emb": emb, "ty": ty, "tag": tag, "vc": vc}


def _job(s, d):
    return {"src": s, "dst": d, "manual_to": None, "manual_from": None}


def _spec(src, dst, jobs, funcs=None, mapper=None, root="T", **flags):
    fl = {"ic": False, "alias": None, "way": "both"}
    fl.update(flags)
    return {"decls": {"src": src, "dst": dst}, "jobs": jobs, "funcs": funcs or [], "mapper": mapper,
            "flags": fl, "root": root, "features": ["corpus"]}


def corpus():
    """hand-written pairs that put every rule of the property into every run (values stay random)"""
    st = lambda n, fs: {"name": n, "kind": "struct", "fields": fs}
    res = []
    inner_s = st("Inner", [_f("A", B("int")), _f("B", B("string"))])
    inner_d = st("Inner", [_f("A", B("int64")), _f("B", B("string"))])
    # 1. the comprehensive example (also Proofs/MapperExamples.v ex1)
    res.append(_spec(
        [inner_s, st("Deep", [_f("DP", B("string"))]),
         st("EmbP", [_f("EP", B("int32")), _f("Deep", P(N("src", "Deep")), emb=True)]),
         st("Mapper", []),
         st("T", [_f("Mapper", N("src", "Mapper"), emb=True), _f("EmbP", P(N("src", "EmbP")), emb=True),
                  _f("ID", B("int")), _f("UserID", B("int64")), _f("N8", B("int8"), vc="rune"), _f("S2", B("string"), "Str"),
                  _f("Skip", B("int"), "-"), _f("Amount", B("string")), _f("In", N("src", "Inner")),
                  _f("InP", P(N("src", "Inner"))), _f("Ins", S(N("src", "Inner"))), _f("InPs", S(P(N("src", "Inner")))),
                  _f("Lv", N("common", "Level"))])],
        [{"name": "Status", "kind": "basic", "basic": "int"}, inner_d, st("Deep", [_f("DP", B("string"))]),
         st("EmbV", [_f("EP", B("int64")), _f("Deep", P(N("dst", "Deep")), emb=True)]),
         st("T", [_f("EmbV", N("dst", "EmbV"), emb=True), _f("ID", B("int")), _f("UserId", B("int")), _f("N8", B("string")),
                  _f("Str", B("string")), _f("Skip", B("int")), _f("Amount", B("int64")), _f("In", P(N("dst", "Inner"))),
                  _f("InP", N("dst", "Inner")), _f("Ins", S(P(N("dst", "Inner")))), _f("InPs", S(N("dst", "Inner"))),
                  _f("Lv", N("dst", "Status")), _f("Extra", B("bool"))])],
        [_job("Inner", "Inner"), _job("T", "T")],
        [{"name": "StrToI64", "param": B("string"), "result": B("int64"), "kind": ["len", "int64", 3]},
         {"name": "I64ToStr", "param": B("int64"), "result": B("string"), "kind": ["parity", "#p"]}],
        {"name": "Mapper", "pkg": "src"}))
    # 2. map:"-" on either side, same types: must stay zero in the direction that would write it
    res.append(_spec(
        [st("T", [_f("A", B("int"), "-"), _f("B", B("int")), _f("C", B("string")), _f("D", B("string"), "-")])],
        [st("T", [_f("A", B("int")), _f("B", B("int"), "-"), _f("C", B("string"), "-"), _f("D", B("string"))])],
        [_job("T", "T")]))
    # 3./4. names equal only case-insensitively: mapped with -i, left alone without
    for ic in (True, False):
        res.append(_spec(
            [st("T", [_f("Username", B("string")), _f("Orderno", B("int")), _f("URL", B("string")), _f("Zip", B("int"))])],
            [st("T", [_f("UserName", B("string")), _f("OrderNo", B("int")), _f("Url", B("string")), _f("ZIP", B("int"))])],
            [_job("T", "T")], ic=ic))
    # 5. priority: mapper method > conversion / assignment; the remaining same-typed field is assigned;
    #    string <-> fixed-width int is mapped only through a method; second method of a signature never used
    res.append(_spec(
        [st("Mapper", []),
         st("T", [_f("Mapper", N("src", "Mapper"), emb=True), _f("A", B("int")), _f("Bs", B("string")), _f("C", B("int")),
                  _f("D", B("string")), _f("E", B("string")), _f("G", B("int"), vc="rune"), _f("H", B("uint8"))])],
        [st("T", [_f("A", B("int64")), _f("Bs", B("string")), _f("C", B("int")), _f("D", B("int32"), vc="rune"),
                  _f("E", B("int16"), vc="rune"), _f("G", B("string")), _f("H", B("string"))])],
        [_job("T", "T")],
        [{"name": "F0", "param": B("int"), "result": B("int64"), "kind": ["add", "int64", 5]},
         {"name": "F1", "param": B("string"), "result": B("string"), "kind": ["cat", "#a"]},
         {"name": "F2", "param": B("string"), "result": B("string"), "kind": ["cat", "#never"]},
         {"name": "F3", "param": B("string"), "result": B("int32"), "kind": ["len", "int32", 2]},
         {"name": "F4", "param": B("int32"), "result": B("string"), "kind": ["parity", "#q"]}],
        {"name": "Mapper", "pkg": "src"}))
    # 6. sub-structs: every pointer combination, by value and as slice elements, renamed destination type (-to)
    res.append(_spec(
        [inner_s,
         st("T", [_f("V2V", N("src", "Inner")), _f("V2P", N("src", "Inner")), _f("P2V", P(N("src", "Inner"))),
                  _f("P2P", P(N("src", "Inner"))), _f("SV2V", S(N("src", "Inner"))), _f("SV2P", S(N("src", "Inner"))),
                  _f("SP2V", S(P(N("src", "Inner")))), _f("SP2P", S(P(N("src", "Inner"))))])],
        [st("InnerDTO", [_f("A", B("int64")), _f("B", B("string"))]),
         st("TDTO", [_f("V2V", N("dst", "InnerDTO")), _f("V2P", P(N("dst", "InnerDTO"))), _f("P2V", N("dst", "InnerDTO")),
                     _f("P2P", P(N("dst", "InnerDTO"))), _f("SV2V", S(N("dst", "InnerDTO"))),
                     _f("SV2P", S(P(N("dst", "InnerDTO")))), _f("SP2V", S(N("dst", "InnerDTO"))),
                     _f("SP2P", S(P(N("dst", "InnerDTO"))))])],
        [_job("Inner", "InnerDTO"), _job("T", "TDTO")]))
    # 7. embedded structs to depth 2, pointer/value on both sides, shadowing at different depths, alias
    res.append(_spec(
        [st("L2a", [_f("X", B("int")), _f("ID", B("string"))]), st("L2b", [_f("Y", B("int"))]),
         st("L1a", [_f("L2a", P(N("src", "L2a")), emb=True), _f("P", B("int"))]),
         st("L1b", [_f("L2b", N("src", "L2b"), emb=True), _f("Q", B("string"))]),
         st("T", [_f("L1a", P(N("src", "L1a")), emb=True), _f("L1b", N("src", "L1b"), emb=True), _f("ID", B("int")),
                  _f("Z", B("int"))])],
        [st("M2", [_f("Y", B("int64")), _f("Z", B("int"))]),
         st("M1", [_f("M2", P(N("dst", "M2")), emb=True), _f("X", B("int")), _f("Q", B("string"))]),
         st("N1", [_f("P", B("int32")), _f("ID", B("int"))]),
         st("T", [_f("M1", N("dst", "M1"), emb=True), _f("N1", P(N("dst", "N1")), emb=True)])],
        [_job("T", "T")], alias="dm"))
    # 8./9. -way
    for way in ("toonly", "fromonly"):
        # (with an embedded pointer on both sides: the read guards / allocations of the ONE generated direction)
        res.append(_spec([st("SE", [_f("A", B("int")), _f("C", B("string"))]),
                          st("T", [_f("SE", P(N("src", "SE")), emb=True), _f("B", B("string"))])],
                         [st("DE", [_f("A", B("int64")), _f("C", B("string"))]),
                          st("T", [_f("DE", P(N("dst", "DE")), emb=True), _f("B", B("string"))])], [_job("T", "T")], way=way))
    # 10. tags: Pascal-casing of the tag, tag on one of two candidates; named scalars of dest/common
    res.append(_spec(
        [st("T", [_f("Alpha", B("string"), "user_name"), _f("Beta", B("int"), "code"), _f("Lv", N("common", "Level")),
                  _f("St", B("int")), _f("Tx", N("common", "Code"))])],
        [{"name": "Status", "kind": "basic", "basic": "int"}, {"name": "Text", "kind": "basic", "basic": "string"},
         st("T", [_f("UserName", B("string")), _f("Code", B("int32")), _f("Lv", B("int16")), _f("St", N("dst", "Status")),
                  _f("Tx", N("dst", "Text")), _f("Alpha", B("string"))])],
        [_job("T", "T")]))
    # 11. sub-struct fields whose ToX (resp. FromX) side is taken by a ONE-WAY mapper method or by a manual method:
    #     only the other branch of makeSubMap runs for the pair (pointer and value on either side)
    res.append(_spec(
        [inner_s, st("Mapper", []),
         st("T", [_f("Mapper", N("src", "Mapper"), emb=True), _f("Address", P(N("src", "Inner"))), _f("Addr2", N("src", "Inner")),
                  _f("Home", P(N("src", "Inner"))), _f("Work", N("src", "Inner")), _f("Flat", P(N("src", "Inner"))),
                  _f("Cnt", B("int"))])],
        [inner_d,
         st("T", [_f("Address", N("dst", "Inner")), _f("Addr2", P(N("dst", "Inner"))), _f("Home", P(N("dst", "Inner"))),
                  _f("Work", N("dst", "Inner")), _f("Flat", N("dst", "Inner")), _f("Cnt", B("int"))])],
        [_job("Inner", "Inner"),
         {"src": "T", "dst": "T", "manual_to": [("Home", None, P(N("dst", "Inner"))), ("Cnt", "int", 7)],
          "manual_from": [("Work", None, N("src", "Inner")), ("Flat", None, P(N("src", "Inner")))]}],
        [{"name": "AddrToDest", "param": P(N("src", "Inner")), "result": N("dst", "Inner"),
          "kind": ["pick", "dst", "Inner", "A", "A", "int64", 3, False]},
         {"name": "Addr2FromDest", "param": P(N("dst", "Inner")), "result": N("src", "Inner"),
          "kind": ["pick", "src", "Inner", "A", "A", "int", 4, False]}],
        {"name": "Mapper", "pkg": "src"}))
    # 12. K_map_mapper_ptr_embedded: the mapper embedded BY POINTER with value-receiver methods (FromX panics after its
    #     own reset, ToX when the Mapper pointer is nil); 13. the healthy twin with pointer receivers
    for recv in ("value", "ptr"):
        res.append(_spec(
            [st("Mapper", []),
             st("T", [_f("Mapper", P(N("src", "Mapper")), emb=True), _f("ID", B("int")), _f("Amt", B("string")), _f("Nm", B("string"))])],
            [st("T", [_f("ID", B("int")), _f("Amt", B("int8")), _f("Nm", B("string"))])],
            [_job("T", "T")],
            [{"name": "StrToI8", "param": B("string"), "result": B("int8"), "kind": ["len", "int8", 1]},
             {"name": "I8ToStr", "param": B("int8"), "result": B("string"), "kind": ["parity", "#x"]}],
            {"name": "Mapper", "pkg": "src", "ptr": True, "recv": recv}))
    # 14. K_map_tag_underscore: a tag on a field whose name contains `_` (the tag map is keyed by the Pascal form of the
    #     name and looked up with the raw name) and a tag naming a destination field that contains `_` (only the Pascal
    #     form of the tag is compared); Beta shows the healthy snake_case tag next to them
    res.append(_spec(
        [st("T", [_f("User_Name", B("string"), "Title"), _f("Alpha", B("string"), "Nick_name"), _f("Beta", B("int"), "zip_code"),
                  _f("ID", B("int"))])],
        [st("T", [_f("Title", B("string")), _f("Nick_name", B("string")), _f("ZipCode", B("int")), _f("ID", B("int"))])],
        [_job("T", "T")]))
    # 15./16. K_map_embedded_nonstruct: an embedded named NON-struct type is a field like any other (named after its type);
    #     shoot drops it.  15: against a plain destination field, 16: embedded on both sides
    res.append(_spec(
        [st("T", [_f("Level", N("common", "Level"), emb=True), _f("ID", B("int"))])],
        [st("T", [_f("Level", B("int16")), _f("ID", B("int"))])],
        [_job("T", "T")]))
    res.append(_spec(
        [st("T", [_f("Code", N("common", "Code"), emb=True), _f("ID", B("int"))])],
        [st("T", [_f("Code", N("common", "Code"), emb=True), _f("ID", B("int64"))])],
        [_job("T", "T")]))
    # 17. a RECURSIVE type: the generated ToX/FromX call themselves through a pointer and through a slice of pointers
    #     (the recursion of eval_to/eval_from through the SAME plan); values are unfolded three levels deep
    node_s = st("T", [_f("Val", B("int")), _f("Next", P(N("src", "T"))), _f("Kids", ["slice", P(N("src", "T"))])])
    node_d = st("T", [_f("Val", B("int64")), _f("Next", P(N("dst", "T"))), _f("Kids", ["slice", P(N("dst", "T"))])])
    res.append(_spec([node_s], [node_d], [_job("T", "T")]))
    # 18. per-type state: ONE invocation over two types; the earlier type renames Title by a tag, the later type has an
    #     untagged Title (and its destination also a Headline): the later Title must be copied to Title
    res.append(_spec(
        [st("Article", [_f("Title", B("string"), "Headline"), _f("ID", B("int"))]),
         st("T", [_f("Title", B("string")), _f("ID", B("int")), _f("Body", B("string"))])],
        [st("Article", [_f("Headline", B("string")), _f("ID", B("int"))]),
         st("T", [_f("Title", B("string")), _f("Headline", B("string")), _f("ID", B("int")), _f("Body", B("string"))])],
        [_job("Article", "Article"), _job("T", "T")]))
    # 19. nested pairs whose OTHER direction is taken by a manual method: P1 *Inner -> Inner and Ps []*Inner -> []Inner with a
    #     manual fromX assigning them (only the ToX branch of makeSubMap runs: its IsPtr decides the nil guards of ToX), and the
    #     mirror image Q1 Inner <- *Inner with a manual toX
    res.append(_spec(
        [inner_s, st("T", [_f("P1", P(N("src", "Inner"))), _f("Ps", ["slice", P(N("src", "Inner"))]), _f("Q1", N("src", "Inner")),
                           _f("ID", B("int"))])],
        [inner_d, st("T", [_f("P1", N("dst", "Inner")), _f("Ps", ["slice", N("dst", "Inner")]), _f("Q1", P(N("dst", "Inner"))),
                           _f("ID", B("int"))])],
        [_job("Inner", "Inner"),
         {"src": "T", "dst": "T", "manual_to": [("Q1", None, P(N("dst", "Inner")))],
          "manual_from": [("P1", None, P(N("src", "Inner"))), ("Ps", None, ["slice", P(N("src", "Inner"))])]}]))
    # 20. one field name at three embedding depths, declared deepest, shallowest (behind an embedded POINTER), middle (behind
    #     value embeddings only): Go promotes the shallowest, whose path needs the nil guard
    res.append(_spec(
        [st("E3", [_f("X", B("int"))]), st("E2", [_f("E3", N("src", "E3"), emb=True)]), st("E1", [_f("E2", N("src", "E2"), emb=True)]),
         st("P1", [_f("X", B("int")), _f("Y", B("string"))]),
         st("M2", [_f("X", B("int"))]), st("M1", [_f("M2", N("src", "M2"), emb=True)]),
         st("T", [_f("E1", N("src", "E1"), emb=True), _f("P1", P(N("src", "P1")), emb=True), _f("M1", N("src", "M1"), emb=True),
                  _f("ID", B("int"))])],
        [st("T", [_f("X", B("int64")), _f("Y", B("string")), _f("ID", B("int"))])],
        [_job("T", "T")]))
    # 21./22. a pair mapped ONLY in the FromX direction whose destination field is promoted through an embedded POINTER: the read
    #     guard of FromX (nilCheckRead's destination half) must not depend on the ToX direction.  21: ToX is taken by a manual
    #     toX assigning the field (`d.Count += 0`: assigned, value unchanged); 22: only a dest->src mapper method exists
    head = st("Head", [_f("Count", B("int")), _f("Lang", B("string"))])
    res.append(_spec(
        [st("T", [_f("ID", B("int")), _f("Count", B("int")), _f("Lang", B("string"))])],
        [head, st("T", [_f("ID", B("int")), _f("Head", P(N("dst", "Head")), emb=True)])],
        [{"src": "T", "dst": "T", "manual_to": [("Count", "int", 0)], "manual_from": None}]))
    # 23. an embedded POINTER to a struct whose type name is unexported (`*meta`): guards and allocation as for exported ones
    res.append(_spec(
        [st("meta", [_f("Title", B("string")), _f("N", B("int"))]),
         st("T", [_f("meta", P(N("src", "meta")), emb=True), _f("ID", B("int"))])],
        [st("T", [_f("Title", B("string")), _f("N", B("int64")), _f("ID", B("int"))])],
        [_job("T", "T")]))
    # 24./25. found by the translation tie: ONE source field name-matching TWO destination fields, one of them behind an embedded
    #     pointer (outside no_fanout; K_map_fanout_target is the FromX side of this shape).  readSrcMap[UserID] keeps only the
    #     later candidate: 24: the top-level UserId comes last -> ToX allocates nothing; 25: the embedded one comes last
    for order in (0, 1):
        dflds = [_f("Inner", P(N("dst", "Inner")), emb=True), _f("UserId", B("int"))]
        res.append(_spec(
            [st("T", [_f("UserID", B("int")), _f("Name", B("string"))])],
            [st("Inner", [_f("UserID", B("int")), _f("Note", B("string"))]),
             st("T", (dflds if order == 0 else dflds[::-1]) + [_f("Name", B("string"))])],
            [_job("T", "T")]))
    # 26. a written field promoted through THREE embedded pointers whose middle structs declare no field of their own: the
    #     allocation list must contain every hop (A, A.B, A.B.C), parents first -- on the destination (ToX) and source (FromX) side
    res.append(_spec(
        [st("SC", [_f("W", B("int"))]), st("SB", [_f("SC", P(N("src", "SC")), emb=True)]), st("SA", [_f("SB", P(N("src", "SB")), emb=True)]),
         st("T", [_f("SA", P(N("src", "SA")), emb=True), _f("Z", B("int")), _f("ID", B("int"))])],
        [st("C", [_f("Z", B("int"))]), st("B", [_f("C", P(N("dst", "C")), emb=True)]), st("A", [_f("B", P(N("dst", "B")), emb=True)]),
         st("T", [_f("A", P(N("dst", "A")), emb=True), _f("W", B("int")), _f("ID", B("int"))])],
        [_job("T", "T")]))
    # 27./28. diamond embedding: the same struct embedded by pointer at two depths (T{*A; *Common}, A{*Common}), mapped field in
    #     Common; Go resolves Z to the SHALLOWER T.Common.Z whatever the declaration order; both orders, on both sides
    for order in (0, 1):
        se = [_f("SA", P(N("src", "SA")), emb=True), _f("SCommon", P(N("src", "SCommon")), emb=True)]
        de = [_f("DA", P(N("dst", "DA")), emb=True), _f("DCommon", P(N("dst", "DCommon")), emb=True)]
        res.append(_spec(
            [st("SCommon", [_f("Z", B("int")), _f("Y", B("string"))]), st("SA", [_f("SCommon", P(N("src", "SCommon")), emb=True)]),
             st("T", (se if order == 0 else se[::-1]) + [_f("ID", B("int"))])],
            [st("DCommon", [_f("Z", B("int64")), _f("Y", B("string"))]), st("DA", [_f("DCommon", P(N("dst", "DCommon")), emb=True)]),
             st("T", (de if order == 0 else de[::-1]) + [_f("ID", B("int"))])],
            [_job("T", "T")]))
    res.append(_spec(
        [st("Mapper", []), st("T", [_f("Mapper", N("src", "Mapper"), emb=True), _f("ID", B("int")), _f("Amt", B("string")),
                                    _f("Lang", B("string"))])],
        [st("Head", [_f("Amt", B("int8")), _f("Lang", B("string"))]),
         st("T", [_f("ID", B("int")), _f("Head", P(N("dst", "Head")), emb=True)])],
        [_job("T", "T")],
        [{"name": "I8ToStr", "param": B("int8"), "result": B("string"), "kind": ["parity", "#y"]}],
        {"name": "Mapper", "pkg": "src"}))
    return res


# ------------------------------------------------------------------------------ C15: shoot-new rendering
def unexport(name):
    """the unexported spelling of a field name whose accessor name smart-matches the original"""
    return to_camel_go(name)


def to_shootnew(rng, spec, side, tname, p_unexport=0.75, allow_setonly=False, embed=True):
    """render struct <tname> of package <side> ('src'|'dst') as a `shoot new -getset` type: most plain fields
    become unexported with a //shoot: directive (none = get+set, get, set), optionally a `new`-restricted
    constructor.  Embedded fields are removed (C15 covers flat shoot-new types)."""
    d = struct_decl(spec, side, tname)
    flat = []
    for f in d["fields"]:
        if f["emb"] and not (f["ty"][0] == "named" and f["ty"][2] == "Mapper"):
            continue
        flat.append(f)
    d["fields"] = flat
    feats = set(spec.get("features", []))
    # an embedded shoot-new base type (one level, by value or by pointer): its accessors reach the outer type
    # through the embedded <Base>Getter/<Base>Setter interfaces, its fields through the nested constructor literal
    base = None
    plain = [f for f in flat if not f["emb"] and f["tag"] == ""]
    if embed and len(plain) >= 2 and rng.random() < 0.5:
        moved = rng.sample(plain, rng.randint(1, min(3, len(plain) - 1)))
        bname = ("S" if side == "src" else "D") + "Base" + tname
        ptr = rng.random() < 0.4
        base = {"name": bname, "kind": "struct", "fields": moved}
        for f in moved:
            flat.remove(f)
        pos = 1 if (flat and flat[0]["emb"]) else 0
        bt = ["named", side, bname]
        flat.insert(pos, {"name": bname, "emb": True, "ty": ["ptr", bt] if ptr else bt, "tag": "", "vc": "full"})
        decls = spec["decls"][side]
        decls.insert(decls.index(d), base)
        feats.add("shootnew-embed:%s:%s" % (side, "ptr" if ptr else "val"))
    for dd in ([base] if base else []) + [d]:
        _shootnew_fields(rng, spec, dd, side, p_unexport, allow_setonly, feats)
    spec["features"] = sorted(feats)
    # manual methods refer to fields by name: drop them on a converted type
    for j in spec["jobs"]:
        if (side == "src" and j["src"] == tname) or (side == "dst" and j["dst"] == tname):
            j["manual_to"] = None
            j["manual_from"] = None


def _shootnew_fields(rng, spec, d, side, p_unexport, allow_setonly, feats):
    flat = d["fields"]
    restrict = rng.random() < 0.4
    any_new = False
    for f in flat:
        if f["emb"]:
            continue
        if f["tag"] == "-":
            f["tag"] = ""          # map:"-" on a shoot-new type is the open finding K_map_dash_accessor
        f["orig"] = f["name"]
        if rng.random() < p_unexport:
            f["name"] = unexport(f["name"])
            r = rng.random()
            structish = f["ty"][0] in ("ptr", "slice") or (f["ty"][0] == "named" and f["ty"][1] in ("src", "dst"))
            # (keeps most pairs inside the guard of C15: a field that is only settable through the constructor must
            #  not need a tag in FromX [K_map_ctor_from_tag] nor a sub-struct mapping [K_map_ctor_no_submap])
            if r < 0.55 or ((f["tag"] or structish) and rng.random() < 0.9):
                f["acc"] = "both"
            elif r < 0.8 or not allow_setonly:
                f["acc"] = "get"
            else:
                f["acc"] = "set"
        else:
            f["acc"] = None           # stays exported
        f["new"] = restrict and rng.random() < 0.5
        any_new = any_new or f["new"]
    d["shootnew"] = {"restrict": restrict and any_new}
    feats.add("shootnew:" + side)
    if d["shootnew"]["restrict"]:
        feats.add("ctor:restricted")
    for f in flat:
        if f.get("acc"):
            feats.add("acc:" + f["acc"])


def directive_comment(f):
    words = []
    if f.get("new"):
        words.append("new")
    if f.get("acc") == "get":
        words.append("get")
    elif f.get("acc") == "set":
        words.append("set")
    return ("\t//shoot: " + ";".join(words) + "\n") if words else ""
