"""C07, fixed block (fifth bank follow-up): histories and repeated executions that run on EVERY seed,
judged by direct byte comparison (the conclusion of C07_run_independent_of_schedule_and_history /
C07_twice_is_fixpoint on the observation itself; no model prediction is needed for the verdict, so
input shapes outside the grammar of Model/Gen.v -- hand-written accessors -- can be used).

 (A) stale-output histories: run; edit the sources (an accessor directive appears/disappears, a
     constant is added, a map tag is toggled) leaving the old output in place; run; run again;
     delete the output and run; each result must equal the same command on a fresh copy of the
     edited sources.
 (B) repeated-execution determinism: the same command N times (alternating repeat / after
     deleting the output / a fresh copy of the module) must write the same bytes; inputs that
     reach code walking a Go map (mapper parseGetSetMethods fallback: ShootNew marker +
     hand-written accessors and no <T>Getter/<T>Setter interface; constructors with many
     accessors; enum -type=*).

No draw from run.rng is made here."""
import shutil
from pathlib import Path

import l2
import histgen
from histlib import Site

NEXEC_QUICK, NEXEC_THOROUGH = 16, 48


class _P:
    def __init__(self, name):
        self.name = name


def _gen(pkgdir, sub):
    """the output files of subcommand [sub] (files of OTHER subcommands, e.g. the shoot-new side of a map input, are inputs)"""
    return {p.name: p.read_bytes() for p in Path(pkgdir).iterdir() if p.is_file() and (".shoot" + sub) in p.name}


def _write_sources(site, files):
    for d in {Path(k).parent for k in files}:
        dd = site.root / d
        dd.mkdir(parents=True, exist_ok=True)
        for p in dd.iterdir():
            if p.is_file() and p.suffix == ".go" and ".shoot" not in p.name:
                p.unlink()
    l2.write_files(site.root, files)


def _sh(shoot, cwd, args):
    r = l2.run_shoot(shoot, cwd, args, timeout=60)
    if r["timed_out"]:
        r = l2.run_shoot(shoot, cwd, args, timeout=180)
    return r


def _diff(a, b):
    """first differing lines of two {name: bytes}"""
    if sorted(a) != sorted(b):
        return {"files_a": sorted(a), "files_b": sorted(b)}
    for n in sorted(a):
        if a[n] != b[n]:
            la, lb = a[n].decode("utf8", "replace").splitlines(), b[n].decode("utf8", "replace").splitlines()
            for i in range(max(len(la), len(lb))):
                x, y = (la[i] if i < len(la) else None), (lb[i] if i < len(lb) else None)
                if x != y:
                    return {"file": n, "line": i + 1, "a": x, "b": y}
    return None


# ------------------------------------------------------------------ (A) stale-output histories
def stale_cases():
    S, F, H = histgen.Struct, histgen.SField, histgen.HFile
    res = []

    def user(direct):
        """direct: directive words of field `name` ('' = none)"""
        kw = {"dget": "get" in direct, "dset": "set" in direct}
        return {"p/user.go": H("user.go", [S("User", [F("name", "string", **kw), F("age", "int", jsontag="jage"),
                                                      F("mail", "string", dget=True, dset=True), F("Open", "bool")])]).go("p")}
    edits = [("", "set", "field name gets `//shoot: set` (loses its getter)"),
             ("", "get", "field name gets `//shoot: get` (loses its setter)"),
             ("get", "", "field name loses `//shoot: get` (gains a setter)"),
             ("set", "get;set", "field name: `//shoot: set` becomes `//shoot: get;set` (gains a getter)")]
    for flags in (["-getset"], ["-getset", "-json"], ["-getset", "-opt"], ["-getset", "-json", "-opt"], ["-json"], ["-json", "-opt"]):
        for a, b, desc in edits:
            res.append({"name": "new %s: %s" % (" ".join(flags), desc), "pkg": "p",
                        "args": ["new"] + flags + ["-type=User"], "v0": user(a), "v1": user(b), "edit": desc})
    # enum: a constant is added
    def enum(n):
        cs = [("ColorRed", 1), ("ColorBlue", 2), ("ColorGray", 5)][:n]
        return {"p/color.go": H("color.go", [histgen.IntType("Color"), histgen.Consts("Color", cs)]).go("p")}
    res.append({"name": "enum: a constant is added", "pkg": "p", "args": ["enum", "-type=Color"], "v0": enum(2), "v1": enum(3),
                "edit": "add constant ColorGray"})
    res.append({"name": "enum -json: a constant is removed", "pkg": "p", "args": ["enum", "-json", "-type=Color"], "v0": enum(3),
                "v1": enum(2), "edit": "remove constant ColorGray"})
    # map: map:"-" toggled on a field
    def mp(tag):
        return {"src/model.go": H("model.go", [S("Acct", [F("Name", "string"), F("Age", "int", maptag=tag), F("City", "string")])]).go("src"),
                "dest/dest.go": H("dest.go", [S("Acct", [F("Name", "string"), F("Age", "int"), F("City", "string")])]).go("dest")}
    res.append({"name": "map: map:\"-\" appears on a field", "pkg": "src", "args": ["map", "-path=../dest", "-type=Acct"],
                "v0": mp(""), "v1": mp("-"), "edit": "tag Age with map:\"-\""})
    res.append({"name": "map: map:\"-\" disappears", "pkg": "src", "args": ["map", "-path=../dest", "-type=Acct"],
                "v0": mp("-"), "v1": mp(""), "edit": "remove map:\"-\" from Age"})
    return res


def run_stale(run, shoot, k, c):
    root = run.scratch / "c07fx" / ("s%03d" % k)
    a = Site(root / "main", _P(c["pkg"]), c["v0"])
    steps, fail = [], None
    r0 = _sh(shoot, a.pkgdir, c["args"])
    steps.append({"step": "fresh run on version 0", "rc": r0["rc"]})
    if r0["rc"] != 0:
        shutil.rmtree(root, ignore_errors=True)
        return {"case": c, "broken": "the fresh run on version 0 failed: " + r0["err"][-300:], "steps": steps}
    _write_sources(a, c["v1"])
    ref = Site(root / "ref", _P(c["pkg"]), c["v1"])
    rr = _sh(shoot, ref.pkgdir, c["args"])
    want = _gen(ref.pkgdir, c["args"][0])
    runs = 0
    for label, delete in (("run on the edited sources, stale output in place", False), ("repeat", False),
                          ("delete the output and run", True)):
        if delete:
            for n in _gen(a.pkgdir, c["args"][0]):
                (a.pkgdir / n).unlink()
        r = _sh(shoot, a.pkgdir, c["args"])
        runs += 1
        got = _gen(a.pkgdir, c["args"][0])
        d = None if (r["rc"] == 0) == (rr["rc"] == 0) else {"rc": r["rc"], "rc_fresh": rr["rc"], "err": r["err"][-300:]}
        if d is None and rr["rc"] == 0:
            d = _diff(got, want)
        steps.append({"step": label, "rc": r["rc"], "differs_from_fresh_reference": d})
        if d is not None and fail is None:
            fail = {"step": label, "difference (a = history, b = fresh copy of the edited sources)": d}
    shutil.rmtree(root, ignore_errors=True)
    return {"case": c, "fail": fail, "steps": steps, "runs": runs + 2}


# ------------------------------------------------------------------ (B) repeated executions
def _acct(fields, ptr_recv=True, getters=None, setters=None, marker=True):
    """a struct with unexported fields and hand-written accessors, no Getter/Setter interfaces"""
    up = lambda s: s[:1].upper() + s[1:]
    t = "package p\n\ntype Acct struct {\n" + "".join("\t%s %s\n" % f for f in fields) + "}\n\n"
    if marker:
        t += "func (a Acct) ShootNew() {}\n\n"
    star = "*" if ptr_recv else ""
    for n, ty in fields:
        if getters is None or n in getters:
            t += "func (a %sAcct) %s() %s { return a.%s }\n" % (star, up(n), ty, n)
        if setters is None or n in setters:
            t += "func (a *Acct) Set%s(v %s) { a.%s = v }\n" % (up(n), ty, n)
    dto = "package dest\n\ntype Acct struct {\n" + "".join("\t%s %s\n" % (up(n), ty) for n, ty in fields) + "}\n"
    return {"p/acct.go": t, "dest/dto.go": dto}


def det_cases():
    S, F, H = histgen.Struct, histgen.SField, histgen.HFile
    f4 = [("name", "string"), ("age", "int"), ("city", "string"), ("zip", "string")]
    f6 = f4 + [("rate", "float64"), ("flag", "bool")]
    res = [
        {"name": "map: ShootNew marker + hand-written accessors (4 fields), no Getter/Setter interface", "pkg": "p",
         "args": ["map", "-path=../dest", "-type=Acct"], "files": _acct(f4)},
        {"name": "map: the same with 6 fields, value-receiver getters", "pkg": "p",
         "args": ["map", "-path=../dest", "-type=Acct"], "files": _acct(f6, ptr_recv=False)},
        {"name": "map: hand-written accessors, some get-only / set-only", "pkg": "p",
         "args": ["map", "-path=../dest", "-type=Acct"], "files": _acct(f6, getters={"name", "age", "city", "rate"},
                                                                         setters={"name", "zip", "city", "flag"})},
        {"name": "map -way=toonly: hand-written accessors", "pkg": "p",
         "args": ["map", "-path=../dest", "-way=toonly", "-type=Acct"], "files": _acct(f4)},
    ]
    # the accessor-less marker type on the DESTINATION side
    d = _acct(f4)
    src = "package src\n\ntype Acct struct {\n" + "".join("\t%s %s\n" % (n[:1].upper() + n[1:], ty) for n, ty in f4) + "}\n"
    res.append({"name": "map: destination type with ShootNew marker + hand-written accessors", "pkg": "src",
                "args": ["map", "-path=../dest", "-type=Acct"],
                "files": {"src/model.go": src, "dest/acct.go": d["p/acct.go"].replace("package p", "package dest")}})
    wide = H("wide.go", [S("Wide", [F(n, ty) for n, ty in f6] + [F("note", "string", dget=True), F("code", "int", dset=True)]),
                         ])
    res.append({"name": "new -getset -json -opt: eight unexported fields", "pkg": "p",
                "args": ["new", "-getset", "-json", "-opt", "-type=Wide"], "files": {"p/wide.go": wide.go("p")}})
    en = H("e.go", [x for t in ("Color", "Shape", "Mode", "Rank") for x in
                    (histgen.IntType(t), histgen.Consts(t, [(t + "A", 1), (t + "B", 2), (t + "C", 4)]))])
    res.append({"name": "enum -json -type=*: four types in one file", "pkg": "p", "args": ["enum", "-json", "-type=*"],
                "files": {"p/e.go": en.go("p")}})
    # packages of the shared generators drawn from PRIVATE fixed seeds (never run.rng): map with embedded pointer structs
    # (check.go ranges over the pointer-path maps) and rest (cook.go ranges over the alias / header maps)
    import random
    import c08
    import histlib
    for sub, seeds in (("map", (101, 102, 103)), ("rest", (201, 202))):
        for sd in seeds:
            spec = histgen.gen_pkg(random.Random(sd), sub)
            sel = c08.generating(spec, spec.eligible())
            if not sel:
                continue
            res.append({"name": "%s: generator package of private seed %d, all generating types" % (sub, sd), "pkg": spec.name,
                        "args": spec.cmd_types(sel).argv(), "spec": spec, "may_fail": True})
    return res


def run_det(run, shoot, k, c, nexec):
    root = run.scratch / "c07fx" / ("d%03d" % k)
    if "files" not in c:
        import histlib
        c["files"] = histlib.base_files(run, shoot, c.pop("spec"), "fx%03d" % k)
    a = Site(root / "main", _P(c["pkg"]), c["files"])
    first, fail, hist, rc0 = None, None, [], None
    for i in range(nexec):
        kind = "fresh" if i == 0 else ("repeat", "delete the output and run", "fresh copy of the module at another path")[i % 3 - 1]
        site = a
        if i and i % 3 == 0:
            site = Site(root / ("copy%d" % i) / "x", _P(c["pkg"]), c["files"])
        elif i and i % 3 == 2:
            for n in _gen(a.pkgdir, c["args"][0]):
                (a.pkgdir / n).unlink()
        r = _sh(shoot, site.pkgdir, c["args"])
        got = _gen(site.pkgdir, c["args"][0])
        hist.append(kind)
        if i == 0:
            first, rc0 = got, r["rc"]
            if r["rc"] != 0 and not c.get("may_fail"):
                shutil.rmtree(root, ignore_errors=True)
                return {"case": c, "broken": "the first run failed: " + r["err"][-300:]}
        else:
            d = {"rc": r["rc"], "err": r["err"][-300:]} if r["rc"] != rc0 else _diff(first, got)
            if d is not None:
                fail = {"execution": i + 1, "kind": kind, "difference (a = first execution, b = this one)": d, "history": hist}
                break
        if site is not a:
            shutil.rmtree(site.root, ignore_errors=True)
    shutil.rmtree(root, ignore_errors=True)
    return {"case": c, "fail": fail, "runs": len(hist)}


# ------------------------------------------------------------------ entry
def run_fixed(run, shoot, pmap):
    """returns (results of A, results of B); a result has 'fail' (None = held) or 'broken'"""
    nexec = NEXEC_THOROUGH if run.thorough() else NEXEC_QUICK
    sc, dc = stale_cases(), det_cases()
    jobs = [("s", k, c) for k, c in enumerate(sc)] + [("d", k, c) for k, c in enumerate(dc)]
    out = pmap(lambda j: run_stale(run, shoot, j[1], j[2]) if j[0] == "s" else run_det(run, shoot, j[1], j[2], nexec), jobs)
    return out[:len(sc)], out[len(sc):]
