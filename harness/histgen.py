"""Compact multi-type package generator for C08 / C07 (all four subcommands).

    spec = gen_pkg(rng, sub)            # sub in new|enum|rest|map  ->  Pkg
    spec.files()                         # {relative path: Go source}, relative to the module root
    spec.coq()                           # Coq term of type Gen.pkg0 (see coq/Corr/GenCorr.v)
    cmd = spec.command(mode, types=[...])  -> Cmd   (argv for the binary, Coq term of type Gen.cmd)

The grammar mirrors coq/Model/Gen.v (sfield / sitem / sstruct / rmethod / riface /
hdecl / hfile).  Identifiers have no underscore and at most their first letter
is upper case, so that transfer.ToPascalCase / ToCamelCase / ToCamelCaseGO are
"first letter up / down" (the model's pascal / camel).
Everything random comes from the rng passed in."""
import copy

MODROOT = "vmod"

TYPE_NAMES = ["Base", "Son", "Conf", "User", "Zed", "Node", "Item", "Acct", "Kid", "Leaf", "Root", "Wire",
              "Alpha", "Beta", "Gamma", "Delta", "Query", "Plan", "Vat", "Yard"]
# no field name may give an accessor named like a type of TYPE_NAMES: a struct that embeds Zed and reaches a field `zed`
# has the embedded FIELD Zed shadowing the promoted method Zed(), so it does not satisfy the accessor interface shoot
# generated for it (name-collision class of the constructor findings, K_ctor_method_name_collision; found by seed 10)
FIELD_NAMES = ["id", "name", "age", "k", "z", "b", "zeal", "count", "flag", "tags", "w", "q", "memo", "rate",
               "total", "level", "code", "slot", "x1", "y2", "note", "unit", "side", "rank"]
BASIC_TYPES = ["int", "string", "bool", "int64", "float64", "[]string", "map[string]int", "uint8"]


def cs(s):
    return '"' + s.replace('"', '""') + '"'


def cb(b):
    return "true" if b else "false"


def clist(items):
    return "[" + "; ".join(items) + "]"


def cpair(a, b):
    return "(%s, %s)" % (a, b)


def cz(z):
    return "(%d)%%Z" % z


def up(s):
    return s[:1].upper() + s[1:]


# ------------------------------------------------------------------ grammar
class SField:
    def __init__(self, name, ty, ptr=False, doc=None, dget=False, dset=False, dnew=False, deflt="",
                 newskip=False, jsontag="", maptag="", alias=""):
        self.name, self.ty, self.ptr = name, ty, ptr
        self.hasdoc = doc if doc is not None else (dget or dset or dnew or bool(deflt))
        self.dget, self.dset, self.dnew, self.deflt = dget, dset, dnew, deflt
        self.newskip, self.jsontag, self.maptag = newskip, jsontag, maptag
        self.alias = alias      # rest parameter structs: shoot:"alias=..." (held in sf_jsontag in the model)
        self.goty = None        # the type as written in the Go source when the import is renamed (tm.Duration); the model keeps ty

    def coq(self):
        return ("IField {| sf_name := %s; sf_ty := %s; sf_ptr := %s; sf_hasdoc := %s; sf_dget := %s; sf_dset := %s; "
                "sf_dnew := %s; sf_def := %s; sf_newskip := %s; sf_jsontag := %s; sf_maptag := %s |}"
                % (cs(self.name), cs(self.ty), cb(self.ptr), cb(self.hasdoc), cb(self.dget), cb(self.dset),
                   cb(self.dnew), cs(self.deflt), cb(self.newskip), cs(self.alias or self.jsontag), cs(self.maptag)))

    def go(self):
        lines = []
        if self.hasdoc:
            words = []
            if self.dget:
                words.append("get")
            if self.dset:
                words.append("set")
            if self.dnew:
                words.append("new")
            if self.deflt:
                words.append("def=" + self.deflt)
            if words:
                lines.append("\t//shoot: " + ";".join(words))
            else:
                lines.append("\t// " + self.name + " is documented")
        tags = []
        if self.newskip:
            tags.append('new:"-"')
        if self.jsontag:
            tags.append('json:"%s"' % self.jsontag)
        if self.maptag:
            tags.append('map:"%s"' % self.maptag)
        if self.alias:
            tags.append('shoot:"alias=%s"' % self.alias)
        lines.append("\t%s %s%s%s" % (self.name, "*" if self.ptr else "", self.goty or self.ty,
                                      (" `" + " ".join(tags) + "`") if tags else ""))
        return "\n".join(lines)


class Embed:
    def __init__(self, tname, ptr=False, dnew=False):
        self.tname, self.ptr, self.dnew = tname, ptr, dnew

    def coq(self):
        return "IEmbed %s %s %s" % (cs(self.tname), cb(self.ptr), cb(self.dnew))

    def go(self):
        return ("\t//shoot: new\n" if self.dnew else "") + "\t" + ("*" if self.ptr else "") + self.tname


class Struct:
    def __init__(self, name, items, tparams=(), hasdoc=False, dgetter=False, dsetter=False):
        self.name, self.items, self.tparams = name, list(items), list(tparams)
        self.hasdoc, self.dgetter, self.dsetter = hasdoc, dgetter, dsetter

    def coq(self):
        return ("HStruct {| ss_name := %s; ss_tparams := %s; ss_hasdoc := %s; ss_dgetter := %s; ss_dsetter := %s; ss_items := %s |}"
                % (cs(self.name), clist(cpair(cs(a), cs(b)) for a, b in self.tparams), cb(self.hasdoc),
                   cb(self.dgetter), cb(self.dsetter), clist(i.coq() for i in self.items)))

    def go(self):
        doc = ""
        if self.hasdoc:
            w = [x for x, on in (("getter", self.dgetter), ("setter", self.dsetter)) if on]
            doc = ("//shoot: " + ";".join(w) + "\n") if w else ("// %s is documented\n" % self.name)
        tp = ("[" + ", ".join("%s %s" % (a, b) for a, b in self.tparams) + "]") if self.tparams else ""
        return doc + "type %s%s struct {\n%s}\n" % (self.name, tp, "".join(i.go() + "\n" for i in self.items))

    def type_names(self):
        return [self.name]


class IntType:
    def __init__(self, name):
        self.name = name

    def coq(self):
        return "HInt %s" % cs(self.name)

    def go(self):
        return "type %s int\n" % self.name

    def type_names(self):
        return [self.name]


class Consts:
    def __init__(self, ty, cs_):
        self.ty, self.cs = ty, list(cs_)

    def coq(self):
        return "HConsts %s %s" % (cs(self.ty), clist(cpair(cs(n), cz(v)) for n, v in self.cs))

    def go(self):
        return "const (\n%s)\n" % "".join("\t%s %s = %d\n" % (n, self.ty, v) for n, v in self.cs)

    def type_names(self):
        return []


class RParam:
    def __init__(self, name, ty, kind, ptr=False, tname=""):
        self.name, self.ty, self.kind, self.ptr, self.tname = name, ty, kind, ptr, tname

    def coq(self):
        k = {"ctx": "RCtx", "scalar": "RScalar", "map": "RMap"}.get(self.kind) or ("RStruct %s" % cs(self.tname))
        return ("{| rp_name := %s; rp_ty := %s; rp_kind := %s; rp_ptr := %s |}"
                % (cs(self.name), cs(("*" if self.ptr else "") + self.ty), k, cb(self.ptr)))


class RMethod:
    def __init__(self, name, verb, path, pparams, alias, params, result="", result_ptr=False, hasdoc=True):
        self.name, self.verb, self.path, self.pparams = name, verb, path, list(pparams)
        self.alias, self.params, self.result, self.result_ptr, self.hasdoc = list(alias), list(params), result, result_ptr, hasdoc

    def coq(self):
        return ("{| rm_name := %s; rm_hasdoc := %s; rm_verb := %s; rm_path := %s; rm_pparams := %s; rm_alias := %s; "
                "rm_params := %s; rm_result := %s; rm_result_ptr := %s |}"
                % (cs(self.name), cb(self.hasdoc), cs(self.verb.upper()), cs(self.path), clist(cs(x) for x in self.pparams),
                   clist(cpair(cs(a), cs(b)) for a, b in self.alias), clist(p.coq() for p in self.params),
                   cs(self.result), cb(self.result_ptr)))

    def go(self):
        lines = []
        if self.hasdoc:
            lines.append('\t//shoot: %s("%s")' % (self.verb.capitalize(), self.path))
            if self.alias:
                lines.append("\t//shoot: alias=" + ",".join("{%s:%s}" % (a, b) for a, b in self.alias))
        ps = ", ".join("%s %s%s" % (p.name, "*" if p.ptr else "", p.ty) for p in self.params)
        res = ((("*" if self.result_ptr else "") + self.result + ", ") if self.result else "") + "*http.Response, error"
        lines.append("\t%s(%s) (%s)" % (self.name, ps, res))
        return "\n".join(lines) + "\n"


class RIface:
    def __init__(self, name, headers, methods):
        self.name, self.headers, self.methods = name, list(headers), list(methods)

    def coq(self):
        return ("HIface {| ri_name := %s; ri_headers := %s; ri_methods := %s |}"
                % (cs(self.name), clist(cpair(cs(a), cs(b)) for a, b in self.headers), clist(m.coq() for m in self.methods)))

    def go(self):
        hd = ("\t//shoot: headers=" + ",".join("{%s:%s}" % (a, b) for a, b in self.headers) + "\n") if self.headers else ""
        return "type %s interface {\n%s\tshoot.RestClient[%s]\n\n%s}\n" % (
            self.name, hd, self.name, "\n".join(m.go() for m in self.methods))

    def type_names(self):
        return [self.name]


class Funcs:
    """methods of an (empty) mapper struct: (name, param type, result type)"""
    def __init__(self, recv, fs):
        self.recv, self.fs = recv, list(fs)

    def coq(self):
        return "HFuncs %s %s" % (cs(self.recv), clist("(%s, %s, %s)" % (cs(a), cs(b), cs(c)) for a, b, c in self.fs))

    def go(self):
        zero = {"string": '""', "bool": "false"}
        return "".join("func (%s) %s(v %s) %s {\n\tvar r %s\n\t_ = v\n\treturn r\n}\n\n" % (self.recv, a, b, c, c)
                       for a, b, c in self.fs)

    def type_names(self):
        return []


class Other:
    def __init__(self, name, text):
        self.name, self.text = name, text

    def coq(self):
        return "HOther %s" % cs(self.name)

    def go(self):
        return self.text

    def type_names(self):
        return []


class HFile:
    def __init__(self, name, decls, imports=(), gen=()):
        self.name, self.decls, self.imports, self.gen = name, list(decls), list(imports), list(gen)

    def coq(self):
        return ("{| h_name := %s; h_imports := %s; h_gen := %s; h_decls := %s |}"
                % (cs(self.name), clist(cs("%s %s" % i if isinstance(i, tuple) else i) for i in self.imports), clist(cs(g) for g in self.gen),
                   clist(d.coq() for d in self.decls)))

    def go(self, pkgname):
        out = ["package %s\n" % pkgname]
        if self.imports:
            out.append("import (\n%s)\n" % "".join(('\t%s "%s"\n' % i) if isinstance(i, tuple) else ('\t"%s"\n' % i)
                                                    for i in self.imports))
        for g in self.gen:
            out.append(g + "\n")
        for d in self.decls:
            out.append(d.go())
        return "\n".join(out)


class Cmd:
    def __init__(self, sub, flags, types=(), star=False, file="", sep=False, extra=(), tail=()):
        self.sub, self.flags, self.types, self.star, self.file, self.sep = sub, list(flags), list(types), star, file, sep
        self.extra = list(extra)          # e.g. -path=../dest
        self.tail = list(tail)            # the [dir] argument when shoot is started from the module root

    def argv(self):
        a = [self.sub] + self.flags + self.extra
        if self.types:
            a.append("-type=" + ",".join(self.types))
        elif self.star:
            a.append("-type=*")
        if self.file:
            a.append("-file=" + self.file)
        if self.sep:
            a.append("-sep")
        return a + self.tail

    def line(self):
        return "shoot " + " ".join(self.argv())

    def coq(self):
        f = set(self.flags)
        way = [x for x in self.flags if x.startswith("-way=")]
        return ("{| c_sub := %s; c_line := %s; c_types := %s; c_star := %s; c_file := %s; c_sepflag := %s; "
                "c_getset := %s; c_json := %s; c_opt := %s; c_short := %s; c_ejson := %s; c_etext := %s; c_toonly := %s; c_fromonly := %s |}"
                % ({"new": "CNew", "enum": "CEnum", "rest": "CRest", "map": "CMap"}[self.sub], cs(self.line()),
                   clist(cs(t) for t in self.types), cb(self.star), cs(self.file), cb(self.sep),
                   cb("-getset" in f), cb(self.sub == "new" and "-json" in f), cb("-opt" in f), cb("-short" in f),
                   cb(self.sub == "enum" and "-json" in f), cb("-text" in f),
                   cb("-way=toonly" in way), cb("-way=fromonly" in way)))

    def with_types(self, types):
        c = copy.copy(self)
        c.types, c.star, c.file, c.sep = list(types), False, "", False
        return c


class Pkg:
    """a package directory `dir` of module vmod (+ a destination package for map)"""
    def __init__(self, sub, name, files, flags, dest=None, destname="dest", auxcmd=None, destauxcmd=None):
        self.sub, self.name, self.hfiles, self.flags = sub, name, list(files), list(flags)
        self.dest = list(dest) if dest else []
        self.destname = destname
        self.auxcmd, self.destauxcmd = auxcmd, destauxcmd       # `shoot new -getset -type=...` run beforehand (inputs of map)
        self.dirarg = False                # every command is started from the module root with ./<name> as [dir]

    # ---- rendering
    def files(self):
        res = {}
        for f in self.hfiles:
            res["%s/%s" % (self.name, f.name)] = f.go(self.name)
        for f in self.dest:
            res["%s/%s" % (self.destname, f.name)] = f.go(self.destname)
        return res

    def coq(self):
        return ("{| q_hw := %s; q_auxcmd := %s; q_destname := %s; q_dest := %s; q_destauxcmd := %s |}"
                % (clist(f.coq() for f in self.hfiles), "Some " + self.auxcmd.coq() if self.auxcmd else "None",
                   cs(self.destname), clist(f.coq() for f in self.dest),
                   "Some " + self.destauxcmd.coq() if self.destauxcmd else "None"))

    # ---- selection
    def eligible(self, f=None):
        """type names ListTypes would produce, in order (file name order, declaration order)"""
        res = []
        for hf in sorted(self.hfiles, key=lambda x: x.name.encode()):
            if f and hf.name != f:
                continue
            for d in hf.decls:
                if self.sub == "new" and isinstance(d, Struct) and not d.name.startswith("_"):
                    res.append(d.name)
                elif self.sub == "map" and isinstance(d, Struct) and d.name[:1].isupper():
                    res.append(d.name)
                elif self.sub == "enum" and isinstance(d, IntType):
                    res.append(d.name)
                elif self.sub == "rest" and isinstance(d, RIface):
                    res.append(d.name)
        return res

    def skipped(self, f=None):
        """types in the scope of a listing run (-file=f / -type=*) that it skips silently while an explicit -type=T refuses them"""
        res = []
        have = {d.ty for hf in self.hfiles for d in hf.decls if isinstance(d, Consts) and d.cs}
        for hf in sorted(self.hfiles, key=lambda x: x.name.encode()):
            if f and hf.name != f:
                continue
            for d in hf.decls:
                if self.sub == "new" and isinstance(d, Struct) and d.name.startswith("_"):
                    res.append(d.name)
                elif self.sub == "enum" and isinstance(d, IntType) and d.name not in have:
                    res.append(d.name)
        return res

    def decl_file(self, T):
        for hf in self.hfiles:
            for d in hf.decls:
                if T in d.type_names():
                    return hf.name
        return ""

    def tail(self):
        if self.dirarg == "abs":
            return ["@ROOT/" + self.name]      # the ABSOLUTE package directory: @ROOT is replaced by the module root of the copy
        return ["./" + self.name] if self.dirarg else []

    def extra(self):
        return ["-path=../" + self.destname] if self.sub == "map" else []

    def cmd_file(self, f, sep=False):
        return Cmd(self.sub, self.flags, file=f, sep=sep, extra=self.extra(), tail=self.tail())

    def cmd_star(self, sep=False):
        return Cmd(self.sub, self.flags, star=True, sep=sep, extra=self.extra(), tail=self.tail())

    def cmd_types(self, types):
        return Cmd(self.sub, self.flags, types=types, extra=self.extra(), tail=self.tail())

    def structs(self):
        return [d for hf in self.hfiles for d in hf.decls if isinstance(d, Struct)]

    def find_struct(self, n):
        for s in self.structs():
            if s.name == n:
                return s
        return None

    def embeds_of(self, T, seen=None):
        """transitively embedded package-local struct names of T"""
        seen = seen if seen is not None else set()
        s = self.find_struct(T)
        if not s:
            return seen
        for it in s.items:
            if isinstance(it, Embed) and it.tname not in seen and self.find_struct(it.tname):
                seen.add(it.tname)
                self.embeds_of(it.tname, seen)
        return seen


# ------------------------------------------------------------------ generators
def _fields(rng, names, allow_dirs=True, exported_rate=0.2, time_ok=False):
    res = []
    for n in names:
        exported = rng.random() < exported_rate
        nm = up(n) if exported else n
        ty = rng.choice(BASIC_TYPES + (["time.Duration"] if time_ok else []))
        ptr = rng.random() < 0.15 and ty not in ("[]string", "map[string]int")
        f = SField(nm, ty, ptr)
        if allow_dirs and not exported:
            r = rng.random()
            if r < 0.12:
                f.dget, f.hasdoc = True, True
            elif r < 0.24:
                f.dset, f.hasdoc = True, True
            elif r < 0.30:
                f.dget, f.dset, f.hasdoc = True, True, True
            elif r < 0.36:
                f.hasdoc = True                      # a doc comment without directive
        if allow_dirs and rng.random() < 0.12 and ty in ("int", "int64", "string", "bool") and not ptr:
            f.deflt = {"int": "7", "int64": "9", "string": '"dflt"', "bool": "true"}[ty]
            f.hasdoc = True
        if allow_dirs and rng.random() < 0.08:
            f.newskip = True
        if allow_dirs and rng.random() < 0.15:
            f.jsontag = rng.choice(["j" + n, n + "Key", "omit" + n + ",omitempty"])
        res.append(f)
    return res


def _reached(structs, st):
    """(name, depth) of everything the field walk of fields.go reaches from st (embedded type names included)"""
    by = {x.name: x for x in structs}
    out = []

    def walk(s, depth, top):
        for it in s.items:
            if isinstance(it, Embed):
                out.append((it.tname, depth))
                if it.tname in by:
                    walk(by[it.tname], depth + 1, False)
            else:
                out.append((it.name, depth))
    walk(st, 0, True)
    return out


def _ambiguous(structs, st):
    seen = set()
    for nd in _reached(structs, st):
        key = (nd[0].lower(), nd[1])          # Q and q give one option function / accessor name
        if key in seen:
            return True
        seen.add(key)
    return False


def _drop_ambiguous(structs):
    changed = True
    while changed:
        changed = False
        for st in structs:
            while _ambiguous(structs, st):
                embs = [it for it in st.items if isinstance(it, Embed)]
                if not embs:
                    break
                st.items.remove(embs[-1])
                changed = True


def gen_new(rng, name="p"):
    ntypes = rng.randint(2, 6)
    tnames = rng.sample(TYPE_NAMES, ntypes)
    pool = list(FIELD_NAMES)
    rng.shuffle(pool)
    use_time = rng.random() < 0.4
    structs = []
    use_new_dir = rng.random() < 0.45
    for i, tn in enumerate(tnames):
        k = rng.randint(1, 4)
        own = [pool.pop() for _ in range(min(k, len(pool)))] if len(pool) >= k else ["f%d%d" % (i, j) for j in range(k)]
        items = _fields(rng, own, time_ok=use_time)
        st = Struct(tn, items)
        structs.append(st)
    # an embedding CHAIN of depth 3..4 whose middle types have no accessor-producing field of their own (only the
    # embedded struct and exported fields): their generated interfaces consist of embedded interfaces only
    chain = []
    if ntypes >= 3 and rng.random() < 0.45:
        chain = rng.sample(range(ntypes), min(ntypes, rng.choice([3, 3, 4])))
        for a, b in zip(chain, chain[1:]):
            mid = b != chain[-1]
            if mid and rng.random() < 0.75:
                structs[b].items = [SField(up(f.name), f.ty) for f in structs[b].items
                                    if isinstance(f, SField) and f.ty in ("int", "string", "bool")][:rng.randint(0, 1)]
            structs[b].items.insert(0, Embed(structs[a].name, ptr=rng.random() < 0.3))
        # the base of the chain keeps at least one unexported field
        base = structs[chain[0]]
        if not any(isinstance(f, SField) and not f.name[:1].isupper() and not f.newskip for f in base.items):
            base.items.append(SField("core" + base.name.lower(), "int"))
    # embedding: a DAG over a random order (independent of the declaration order, so that an embedding type may
    # be declared before or after the embedded one)
    order = chain + [i for i in rng.sample(range(ntypes), ntypes) if i not in chain]
    for pos, i in enumerate(order):
        if pos == 0 or i in chain or rng.random() < 0.45:
            continue
        for j in rng.sample(order[:pos], rng.randint(1, min(2, pos))):
            if structs[j].tparams:
                continue
            e = Embed(structs[j].name, ptr=rng.random() < 0.3)
            structs[i].items.insert(rng.randint(0, len(structs[i].items)), e)
    # occasional shadowing: an outer field named like a field of an embedded struct
    for st in structs:
        embs = [it for it in st.items if isinstance(it, Embed)]
        if embs and rng.random() < 0.3:
            inner = [f for f in next(s for s in structs if s.name == embs[0].tname).items if isinstance(f, SField)]
            if inner and not any(isinstance(x, SField) and x.name == inner[0].name for x in st.items):
                st.items.append(SField(inner[0].name, "string"))
    # no name may be reached twice at the same depth (two embedded structs sharing a descendant, an outer field named
    # like a field another embedded struct promotes to the same depth): such selectors are ambiguous in Go and
    # `shoot new` prints the option function / parameter twice (open findings of the constructor owner:
    # K_ctor_ambiguous_promoted, K_ctor_camel_collision).  The random stream stays out of that class (one corpus
    # case of c08.py keeps the shape under comparison); strict shadowing (different depths) stays in.
    _drop_ambiguous(structs)
    # shoot: new marks
    if use_new_dir:
        for st in structs:
            if rng.random() < 0.5:
                cands = [it for it in st.items if (isinstance(it, SField) and not it.newskip) or isinstance(it, Embed)]
                for it in rng.sample(cands, rng.randint(1, max(1, len(cands) // 2))) if cands else []:
                    it.dnew = True
                    if isinstance(it, SField):
                        it.hasdoc = True
    # generics (never embedded, never with -opt)
    flags = [f for f in ("-getset", "-json", "-opt") if rng.random() < {"-getset": 0.75, "-json": 0.45, "-opt": 0.3}[f]]
    if "-opt" in flags and rng.random() < 0.4:
        flags.append("-short")          # option functions named after the field only: shared names across the types of a run
    if "-opt" not in flags:
        for st in structs:
            if rng.random() < 0.15 and not any(isinstance(it, Embed) for it in st.items) and \
                    not any(st.name == it.tname for s2 in structs for it in s2.items if isinstance(it, Embed)):
                st.tparams = [("T", "any")] if rng.random() < 0.6 else [("K", "comparable"), ("V", "any")]
                st.items.append(SField("gen" + st.name.lower(), st.tparams[0][0]))
    # type-level directives
    for st in structs:
        r = rng.random()
        if r < 0.1:
            st.hasdoc, st.dgetter = True, True
        elif r < 0.18:
            st.hasdoc, st.dsetter = True, True
        elif r < 0.24:
            st.hasdoc = True
    # files
    nfiles = 1 if rng.random() < 0.55 else 2
    fnames = rng.sample(["a.go", "model.go", "types.go", "zz.go"], nfiles)
    renamed = use_time and rng.random() < 0.7           # import tm "time": goimports cannot guess it back
    files = [HFile(fn, [], imports=([("tm", "time")] if renamed else ["time"]) if use_time else []) for fn in fnames]
    tq = "tm" if renamed else "time"
    if renamed:
        for st in structs:
            for it in st.items:
                if isinstance(it, SField) and it.ty == "time.Duration":
                    it.goty = "tm.Duration"
    chain_structs = [structs[i] for i in chain]
    if chain_structs:
        # the chain lives in one file, embedded types first (most of the time), so that a -file / -type=* run
        # processes it in dependency order
        cf = rng.choice(files)
        for st in (chain_structs if rng.random() < 0.8 else list(reversed(chain_structs))):
            cf.decls.append(st)
    for st in structs:
        if st not in chain_structs:
            rng.choice(files).decls.append(st)
    files = [f for f in files if f.decls]
    if rng.random() < 0.3:
        # a struct the listing modes skip silently and an explicit -type refuses
        rng.choice(files).decls.append(Struct("_hidden", [SField("h", "int")]))
    for f in files:
        if rng.random() < 0.3:
            f.decls.insert(rng.randint(0, len(f.decls)), Other("helper" + f.name[:1], "func helper%s() int { return 1 }\n" % f.name[:1]))
        if use_time and not any(isinstance(it, SField) and it.ty == "time.Duration" for d in f.decls if isinstance(d, Struct) for it in d.items):
            f.decls.append(Other("tick" + f.name[:1], "var tick%s %s.Duration\n" % (f.name[:1], tq)))
    return Pkg("new", name, files, flags)


def gen_enum(rng, name="p"):
    ntypes = rng.randint(2, 5)
    tnames = rng.sample(TYPE_NAMES, ntypes)
    nfiles = 1 if rng.random() < 0.6 else 2
    fnames = rng.sample(["color.go", "kinds.go", "z.go"], nfiles)
    files = [HFile(fn, []) for fn in fnames]
    used = set()
    for tn in tnames:
        f = rng.choice(files)
        f.decls.append(IntType(tn))
        if rng.random() < 0.12:
            continue                              # a type without constants: skipped silently
        nblocks = 1 if rng.random() < 0.75 else 2
        vals = rng.sample(range(-3, 40), rng.randint(1, 6))
        k = 0
        for b in range(nblocks):
            part = vals[b::nblocks]
            cs_ = []
            for v in part:
                base = rng.choice(["Red", "Green", "Blue", "Low", "Mid", "High", "On", "Off", "Up", "Down", "North", "South"])
                nm = (tn if rng.random() < 0.6 else "") + base + (str(k) if (tn + base) in used or base in used else "")
                while nm in used:
                    k += 1
                    nm = tn + base + str(k)
                used.add(nm)
                used.add(base)
                cs_.append((nm, v))
            if cs_:
                rng.choice(files).decls.append(Consts(tn, cs_))
    files = [f for f in files if f.decls]
    flags = [f for f in ("-json", "-text") if rng.random() < 0.4]
    return Pkg("enum", name, files, flags)


def gen_rest(rng, name="p"):
    nif = rng.randint(2, 3)
    inames = rng.sample(["Alpha", "Beta", "Gamma", "Delta", "Users", "Orders", "Api"], nif)
    nfiles = 1 if rng.random() < 0.7 else 2
    fnames = rng.sample(["api.go", "client.go"], nfiles)
    files = [HFile(fn, [], imports=["context", "net/http", "github.com/lopolopen/shoot"]) for fn in fnames]
    for f in files:
        # parameter / result structs of this file
        f.decls.append(Struct("Req" + f.name[:1].upper(), [
            SField("Name", "string"),
            SField("Age", "int", ptr=True, alias="years" if rng.random() < 0.6 else ""),
            SField("Tag", "string", alias="t" if rng.random() < 0.3 else "")][:rng.randint(1, 3)]))
        f.decls.append(Struct("Res" + f.name[:1].upper(), [SField("Id", "int")]))
    mnames = ["Get", "List", "Find", "Put", "Drop", "Ping", "Make", "Edit"]
    for iname in inames:
        f = rng.choice(files)
        req, res = "Req" + f.name[:1].upper(), "Res" + f.name[:1].upper()
        methods = []
        for mn in rng.sample(mnames, rng.randint(1, 3)):
            verb = rng.choice(["get", "get", "post", "put", "patch", "delete"])
            npp = rng.choice([0, 1, 1, 2])
            pps = rng.sample(["id", "kind", "zone"], npp)
            path = "/" + mn.lower() + "".join("/{%s}" % p for p in pps)
            params = []
            if rng.random() < 0.7:
                params.append(RParam("ctx", "context.Context", "ctx"))
            alias = []
            for p in pps:
                if rng.random() < 0.35:
                    real = "the" + up(p)
                    alias.append((real, p))
                    params.append(RParam(real, rng.choice(["int", "string"]), "scalar"))
                else:
                    params.append(RParam(p, rng.choice(["int", "string"]), "scalar"))
            for q in rng.sample(["page", "size", "sort"], rng.choice([0, 0, 1, 2])):
                params.append(RParam(q, rng.choice(["int", "string"]), "scalar", ptr=rng.random() < 0.3))
            if rng.random() < 0.2 and verb in ("get", "delete"):
                alias.append(("page", "p")) if any(p.name == "page" for p in params) else None
            body = verb in ("post", "put", "patch")
            if body or rng.random() < 0.35:
                params.append(RParam("req", req, "struct", ptr=rng.random() < 0.4, tname=req))
            elif rng.random() < 0.25:
                params.append(RParam("dict", "map[string]string", "map"))
            r = rng.random()
            result, rptr = ("", False) if r < 0.4 else ((res, True) if r < 0.75 else (("[]" + res, False) if r < 0.9 else ("map[string]int", False)))
            methods.append(RMethod(mn, verb, path, pps, alias, params, result, rptr, hasdoc=rng.random() > 0.06))
        headers = []
        if rng.random() < 0.5:
            headers = rng.sample([("X-Api", "k1"), ("X-Zone", "eu"), ("Accept", "text/plain"), ("A-First", "1")], rng.randint(1, 3))
        f.decls.append(RIface(iname, headers, methods))
    return Pkg("rest", name, files, [])


MAP_TYPES = ["int", "int64", "string", "bool", "float64", "int32"]


def gen_map(rng, name="src"):
    npairs = rng.randint(2, 4)
    tnames = rng.sample(["Order", "Addr", "Line", "Cust", "Bill", "Ship"], npairs)
    pool = ["Id", "Name", "Amount", "Count", "Flag", "Rate", "Note", "Code", "Unit", "Level", "Zone", "Kind"]
    srcf = HFile("model.go", [])
    src2 = HFile("extra.go", []) if rng.random() < 0.4 else None
    destf = HFile("dest.go", [])
    use_mapper = rng.random() < 0.5
    funcs = []
    if use_mapper:
        srcf.decls.append(Struct("Mapper", []))
        funcs = rng.sample([("IntToStr", "int64", "string"), ("StrToInt", "string", "int64"),
                            ("BoolToInt", "bool", "int"), ("IntToBool", "int", "bool")], rng.randint(1, 3))
        srcf.decls.append(Funcs("Mapper", funcs))
    # embedded pointer structs on both sides (pointer paths: nil checks, allocation lists sorted after a map iteration)
    emb = None
    nested = False
    if rng.random() < 0.7:
        emb = Struct("Inner", [SField("Deep", "string"), SField("Zip", "int")])
        if rng.random() < 0.5:
            # a pointer struct embedded in a pointer struct: one field is covered by two pointer paths
            nested = True
            srcf.decls.append(Struct("Core", [SField("Nub", "string")]))
            emb.items.insert(0, Embed("Core", ptr=True))
        srcf.decls.append(emb)
    emb2 = None
    if rng.random() < 0.6:
        emb2 = Struct("Extra", [SField("Tail", "string"), SField("Wing", "int")])
        srcf.decls.append(emb2)
    demb = None
    if rng.random() < 0.6:
        demb = Struct("Dinner", [SField("Deep", "string"), SField("Far", "int64")])
        destf.decls.append(demb)
    demb2 = None
    if rng.random() < 0.5:
        demb2 = Struct("Dextra", [SField("Pole", "string"), SField("Wing", "int")])
        destf.decls.append(demb2)
    shootnew_dest, shootnew_src = [], []
    for tn in tnames:
        k = rng.randint(2, 5)
        names = rng.sample(pool, k)
        sitems, ditems = [], []
        dnew = rng.random() < 0.35
        snew = (not dnew) and rng.random() < 0.2
        if use_mapper and rng.random() < 0.7 and not snew:
            sitems.append(Embed("Mapper"))
        if emb and rng.random() < 0.7 and not snew:
            sitems.append(Embed("Inner", ptr=rng.random() < 0.8))
            if nested and not dnew and rng.random() < 0.8:
                ditems.append(SField("Nub", "string"))
        if emb2 and rng.random() < 0.7 and not snew:
            sitems.append(Embed("Extra", ptr=rng.random() < 0.8))
            if not dnew and not demb2 and rng.random() < 0.8:
                ditems.append(SField("Tail", "string"))
        if demb and rng.random() < 0.7 and not dnew:
            ditems.append(Embed("Dinner", ptr=rng.random() < 0.8))
        if demb2 and rng.random() < 0.7 and not dnew:
            ditems.append(Embed("Dextra", ptr=rng.random() < 0.8))
            if not snew and rng.random() < 0.8:
                sitems.append(SField("Pole", "string"))
        for n in names:
            sty = rng.choice(MAP_TYPES)
            r = rng.random()
            if r < 0.55:
                dty = sty
            elif r < 0.8:
                dty = rng.choice(MAP_TYPES)
            elif funcs:
                fn = rng.choice(funcs)
                sty, dty = fn[1], fn[2]
            else:
                dty = sty
            sname = n.lower() if snew else n
            dname = n
            maptag = ""
            r2 = rng.random()
            if r2 < 0.15 and not snew:
                dname = n + "x"
                maptag = dname
            elif r2 < 0.22:
                dname = None                      # unmatched
            elif r2 < 0.27 and not snew:
                maptag = "-"
            sitems.append(SField(sname, sty, ptr=False, maptag=maptag))
            if dname:
                ditems.append(SField(dname.lower() if dnew else dname, dty))
        if not dnew and rng.random() < 0.3:
            ditems.append(SField("Only" + tn, "string"))
        (src2 if src2 and rng.random() < 0.5 else srcf).decls.append(Struct(tn, sitems))
        destf.decls.append(Struct(tn, ditems))
        if dnew:
            shootnew_dest.append(tn)
        if snew:
            shootnew_src.append(tn)
    # a field of a nested struct type on both sides (makeSubMap: dest.F = src.F.ToDest()): the holder and the nested type
    # are declared in DIFFERENT source files, so that `map -file=<holder's file>` does not list the nested type while
    # -type=* and explicit lists may: what is emitted for the holder must not depend on that
    plain = [tn for tn in tnames if tn not in shootnew_dest and tn not in shootnew_src]
    if len(plain) >= 2 and rng.random() < 0.5:
        a, b = rng.sample(plain, 2)
        where = {d.name: hf for hf in [srcf] + ([src2] if src2 else []) for d in hf.decls if isinstance(d, Struct)}
        if where[a] is where[b]:
            if src2 is None:
                src2 = HFile("extra.go", [])
            other = src2 if where[b] is srcf else srcf
            stb = next(d for d in where[b].decls if isinstance(d, Struct) and d.name == b)
            where[b].decls.remove(stb)
            other.decls.append(stb)
        sa = next(d for hf in [srcf, src2] if hf for d in hf.decls if isinstance(d, Struct) and d.name == a)
        da = next(d for d in destf.decls if isinstance(d, Struct) and d.name == a)
        sa.items.append(SField("Part" + b, b, ptr=rng.random() < 0.3))
        da.items.append(SField("Part" + b, b, ptr=rng.random() < 0.3))
    files = [srcf] + ([src2] if src2 and src2.decls else [])
    flags = []
    r = rng.random()
    if r < 0.12:
        flags.append("-way=toonly")
    elif r < 0.24:
        flags.append("-way=fromonly")
    p = Pkg("map", name, files, flags, dest=[destf], destname="dest")
    if shootnew_dest:
        p.destauxcmd = Cmd("new", ["-getset"], types=shootnew_dest)
    if shootnew_src:
        p.auxcmd = Cmd("new", ["-getset"], types=shootnew_src)
    return p


def gen_pkg(rng, sub, name=None):
    if sub == "new":
        return gen_new(rng, name or "p")
    if sub == "enum":
        return gen_enum(rng, name or "p")
    if sub == "rest":
        return gen_rest(rng, name or "p")
    return gen_map(rng, name or "src")
