"""C08: a type's output is independent of the other types in the same run.

Theorems: coq/Properties/C08.v (model coq/Model/Gen.v).  Correspondence
(coq/Corr/GenCorr.v): multi-type packages of the four subcommands
(harness/histgen.py) are run through the freshly built shoot binary
all-in-one (-file= / -type=*), with -sep, one type at a time in one copy,
one type at a time in fresh copies, and with permuted -type lists; what was
written is read back with cmd/astsig (declaration names, hash of the printed
declaration, doc comments, import set, free-floating comments, bytes after
the header line) and compared inside Coq with the model's prediction and with
the property itself."""
import json
import shutil
from pathlib import Path

import lib
import l2
import histgen
import histlib
from histlib import Site, run_cmd, observe_file


# ------------------------------------------------------------------ cases
class Case:
    def __init__(self, idx, spec, aio, sep, sel, perms, skipped=()):
        self.idx, self.spec, self.aio, self.sep, self.sel, self.perms = idx, spec, aio, sep, sel, perms
        self.skipped = list(skipped)       # in the scope of the listing run, skipped by it, refused by -type=T
        self.obs = {}

    def single_types(self):
        return self.sel + self.skipped

    def describe(self):
        return {"subcommand": self.spec.sub, "flags": self.spec.flags, "all_in_one": self.aio.argv(),
                "selection": self.sel, "permutations": [p.argv() for p in self.perms]}


def generating(spec, types):
    """the types of the selection for which an explicit -type=T is not an error"""
    if spec.sub == "map":
        dest = {d.name for f in spec.dest for d in f.decls if isinstance(d, histgen.Struct)}
        return [t for t in types if t in dest]
    if spec.sub == "enum":
        # an explicitly named enum type without typed constants is an error (a -file / -type=* run skips it silently)
        have = {d.ty for f in spec.hfiles for d in f.decls if isinstance(d, histgen.Consts) and d.cs}
        return [t for t in types if t in have]
    return list(types)


def make_case(rng, idx, sub):
    for _ in range(50):
        spec = histgen.gen_pkg(rng, sub)
        files = sorted({f.name for f in spec.hfiles})
        if sub == "map":
            spec.name, spec.destname = "src", "dest"
        # one package in five is driven from OUTSIDE the package directory: every invocation of the case is started in the
        # module root with ./<pkg> as [dir] (there goimports does not see the sibling source files)
        spec.dirarg = rng.random() < 0.2
        mode = "file" if rng.random() < 0.65 else "star"
        if mode == "file":
            cands = [f for f in files if len(generating(spec, spec.eligible(f))) >= 2]
            if not cands:
                mode = "star"
            else:
                f = rng.choice(cands)
                aio, sep = spec.cmd_file(f), spec.cmd_file(f, sep=True)
                sel = generating(spec, spec.eligible(f))
                skipped = spec.skipped(f)
        if mode == "star":
            sel = generating(spec, spec.eligible())
            skipped = spec.skipped()
            if len(sel) < 2:
                continue
            aio, sep = spec.cmd_star(), spec.cmd_star(sep=True)
            # -type=* names its output after the file holding the //go:generate line
            hf = rng.choice(spec.hfiles)
            hf.gen.append("//go:generate go run github.com/lopolopen/shoot/cmd/shoot " + " ".join(aio.argv()))
            hf.gen.append("//go:generate go run github.com/lopolopen/shoot/cmd/shoot " + " ".join(sep.argv()))
        if len(sel) > 8:
            continue
        perms = [spec.cmd_types(sel)]
        seen = {tuple(sel)}
        for _ in range(6):
            p = list(sel)
            rng.shuffle(p)
            if tuple(p) not in seen and len(perms) < 3:
                seen.add(tuple(p))
                perms.append(spec.cmd_types(p))
        perms.append(spec.cmd_types(list(reversed(sel)))) if tuple(reversed(sel)) not in seen else None
        return Case(idx, spec, aio, sep, sel, perms, skipped)
    raise lib.CheckBroken("could not generate a %s package with two generating types" % sub)


def corpus_cases(start):
    """fixed cases that exercise features the random stream reaches only sometimes"""
    res = []
    # a renamed import that only the second source needs: MergeSources must carry it over (goimports cannot guess it)
    fa = histgen.HFile("a.go", [histgen.Struct("Abc", [histgen.SField("x", "int")])])
    d = histgen.SField("d", "time.Duration")
    d.goty = "tm.Duration"
    fb = histgen.HFile("b.go", [histgen.Struct("Bcd", [d, histgen.SField("n", "string")])], imports=[("tm", "time")])
    spec = histgen.Pkg("new", "p", [fa, fb], ["-getset"])
    aio, sep = spec.cmd_star(), spec.cmd_star(sep=True)
    for c in (aio, sep):
        fa.gen.append("//go:generate go run github.com/lopolopen/shoot/cmd/shoot " + " ".join(c.argv()))
    sel = ["Abc", "Bcd"]
    res.append(Case(start, spec, aio, sep, sel, [spec.cmd_types(sel), spec.cmd_types(list(reversed(sel)))]))
    # two pointer-embedded structs on each side of a mapper pair: the allocation lists are sorted after a map iteration
    S, E = histgen.Struct, histgen.Embed
    F = histgen.SField
    src = histgen.HFile("model.go", [
        S("Core", [F("Nub", "string")]), S("Inner", [E("Core", ptr=True), F("Deep", "string")]),
        S("Extra", [F("Tail", "string")]), S("Third", [F("Yonder", "int")]),
        S("Order", [E("Inner", ptr=True), E("Extra", ptr=True), E("Third", ptr=True), F("Id", "int"), F("Pole", "string"), F("Mast", "string")]),
        S("Bill", [E("Extra", ptr=True), E("Inner", ptr=True), F("Id", "int")])])
    dest = histgen.HFile("dest.go", [
        S("Dinner", [F("Pole", "string")]), S("Dextra", [F("Mast", "string")]),
        S("Order", [E("Dinner", ptr=True), E("Dextra", ptr=True), F("Id", "int"), F("Deep", "string"), F("Tail", "string"), F("Yonder", "int"),
                    F("Nub", "string")]),
        S("Bill", [F("Id", "int"), F("Deep", "string"), F("Tail", "string")])])
    ms = histgen.Pkg("map", "src", [src], [], dest=[dest], destname="dest")
    sel = ["Order", "Bill"]
    aio, sep = ms.cmd_file("model.go"), ms.cmd_file("model.go", sep=True)
    res.append(Case(start + 1, ms, aio, sep, sel, [ms.cmd_types(sel), ms.cmd_types(list(reversed(sel)))]))
    # an embedding chain of depth 3 (4) whose middle types have no accessor-producing field of their own: their
    # accessor interfaces consist of embedded interfaces only and must still be fed back (overlay) for the next type
    for k, (ptr, extra) in enumerate(((False, False), (True, True))):
        items_mid = [E("Base", ptr=ptr)] + ([F("Note", "string")] if extra else [])
        structs = [S("Base", [F("z", "string"), F("b", "int")]), S("Mid", items_mid),
                   S("Top", [E("Mid", ptr=ptr), F("k", "string")])]
        if extra:
            structs.append(S("Leaf", [E("Top"), F("Open", "bool")]))
        cf = histgen.HFile("chain.go", structs)
        cs_ = histgen.Pkg("new", "p", [cf], ["-getset"] + (["-json"] if extra else []))
        # the first chain is driven with the ABSOLUTE package directory as [dir] (the overlay of a freshly generated file must
        # still be found by the reload), the second from inside the package directory
        cs_.dirarg = "abs" if not extra else False
        sel = [s.name for s in structs]
        res.append(Case(start + 2 + k, cs_, cs_.cmd_file("chain.go"), cs_.cmd_file("chain.go", sep=True), sel,
                        [cs_.cmd_types(sel), cs_.cmd_types(list(reversed(sel)))]))
    # (the same case: Order renames Code by a map tag, Bill has an untagged Code: the tag map is per type)
    # a field of a nested struct type (makeSubMap): the nested type Line is declared in another file than the holders, so
    # `-file=model.go` does not list it while `-type=Order` ... must emit the same ToDest()/FromDest() calls for the holder
    srcn = histgen.HFile("model.go", [
        S("Order", [F("Id", "int"), F("Name", "string"), F("Code", "string", maptag="OrderNo"), F("PartLine", "Line"),
                    F("PtrLine", "Line", ptr=True)]),
        S("Bill", [F("Id", "int"), F("Code", "string"), F("PartLine", "Line", ptr=True)])])
    srcx = histgen.HFile("extra.go", [S("Line", [F("Qty", "int"), F("Sku", "string")])])
    destn = histgen.HFile("dest.go", [
        S("Order", [F("Id", "int"), F("Name", "string"), F("OrderNo", "string"), F("PartLine", "Line"), F("PtrLine", "Line")]),
        S("Bill", [F("Id", "int"), F("Code", "string"), F("PartLine", "Line", ptr=True)]),
        S("Line", [F("Qty", "int"), F("Sku", "string")])])
    mn = histgen.Pkg("map", "src", [srcn, srcx], [], dest=[destn], destname="dest")
    sel = ["Order", "Bill"]
    res.append(Case(start + 4, mn, mn.cmd_file("model.go"), mn.cmd_file("model.go", sep=True), sel,
                    [mn.cmd_types(sel), mn.cmd_types(list(reversed(sel)))]))
    # rest: the first client sets default headers on its embedded RestClient, the second does not (the header table is per client)
    import random as _random
    rs = histgen.gen_pkg(_random.Random(20260926), "rest")
    ifs = [d for hf in rs.hfiles for d in hf.decls if isinstance(d, histgen.RIface)]
    ifs[0].headers = [("X-Tenant", "t1"), ("Accept", "text/plain")]
    for other in ifs[1:]:
        other.headers = []
    sel = generating(rs, rs.eligible())
    aio, sep = rs.cmd_star(), rs.cmd_star(sep=True)
    for c in (aio, sep):
        rs.hfiles[0].gen.append("//go:generate go run github.com/lopolopen/shoot/cmd/shoot " + " ".join(c.argv()))
    res.append(Case(start + 9, rs, aio, sep, sel, [rs.cmd_types(sel), rs.cmd_types(list(reversed(sel)))]))
    # the same package imported under different names by the files of two types, the names used in text shoot copies
    # verbatim (field types, def= values); driven from the module root with [dir] (inside the package directory goimports
    # would restore a lost renamed import from the sibling files): the all-in-one import block = union of the per-type ones
    ttl = F("ttl", "time.Duration", deflt="time.Minute")
    delay = F("delay", "time.Duration", deflt="2*stdtime.Second")
    delay.goty = "stdtime.Duration"
    fa2 = histgen.HFile("a.go", [S("Audit", [ttl, F("note", "string")])], imports=["time"])
    fb2 = histgen.HFile("b.go", [S("Backoff", [delay, F("tries", "int")])], imports=[("stdtime", "time")])
    al = histgen.Pkg("new", "p", [fa2, fb2], ["-opt"])
    al.dirarg = True
    aio, sep = al.cmd_star(), al.cmd_star(sep=True)
    for c in (aio, sep):
        fa2.gen.append("//go:generate go run github.com/lopolopen/shoot/cmd/shoot " + " ".join(c.argv()))
    sel = ["Audit", "Backoff"]
    res.append(Case(start + 5, al, aio, sep, sel, [al.cmd_types(sel), al.cmd_types(list(reversed(sel)))]))
    # -opt -short: the option functions are named after the field only; two types of one run share a field name (the
    # package then redeclares the function: open finding K_opt_short_collision, a matter of C01).  What is generated for a
    # type must still not depend on the other types of the run nor on the -type order
    fs2 = histgen.HFile("types.go", [S("Server", [F("host", "string"), F("port", "int")]),
                                     S("Client", [F("host", "string"), F("timeout", "int")])])
    sh = histgen.Pkg("new", "p", [fs2], ["-opt", "-short"])
    sel = ["Server", "Client"]
    res.append(Case(start + 6, sh, sh.cmd_file("types.go"), sh.cmd_file("types.go", sep=True), sel,
                    [sh.cmd_types(sel), sh.cmd_types(list(reversed(sel)))]))
    # one name reached twice at the same depth (Wire.q and Base.q from Beta; Conf.q and Wire.q from Delta): the class of
    # the constructor findings K_ctor_ambiguous_promoted (the option function / parameter is printed twice, the file
    # does not compile).  The random stream avoids the class; this case keeps the model's reading of it (every
    # parameter with its own type, TypeMap = last writer) under comparison: found by seed 1 as a wrong import set
    q1 = F("q", "time.Duration")
    q1.goty = "tm.Duration"
    q1.newskip = True
    fm = histgen.HFile("model.go", [
        S("Delta", [E("Conf"), F("Memo", "string"), E("Wire")]),
        S("Wire", [q1], hasdoc=True),
        S("Conf", [E("Wire"), F("level", "int"), F("q", "string")])], imports=[("tm", "time")])
    ft = histgen.HFile("types.go", [
        S("Beta", [E("Wire"), E("Base"), F("x1", "int64"), F("id", "uint8")]),
        S("Base", [E("Wire"), F("code", "bool"), F("q", "string")])], imports=[("tm", "time")])
    for k, flags in enumerate((["-opt"], ["-getset", "-opt"])):
        am = histgen.Pkg("new", "p", [fm, ft], flags)
        sel = ["Delta", "Wire", "Conf", "Beta", "Base"]
        aio, sep = am.cmd_star(), am.cmd_star(sep=True)
        for c in (aio, sep):
            ft.gen.append("//go:generate go run github.com/lopolopen/shoot/cmd/shoot " + " ".join(c.argv()))
        res.append(Case(start + 7 + k, am, aio, sep, sel, [am.cmd_types(sel), am.cmd_types(list(reversed(sel)))]))
    return res


def execute_case(run, shoot, case):
    """all invocations of a case; fills case.obs with {mode: [run dicts]}"""
    spec = case.spec
    root = run.scratch / "c08" / ("k%04d" % case.idx)
    files = histlib.base_files(run, shoot, spec, "k%04d" % case.idx)
    case.files = files
    k = [0]

    def fresh():
        k[0] += 1
        return Site(root / ("s%02d" % k[0]), spec, files)

    def one(cmd, site):
        args = [a.replace("@ROOT", str(site.root)) for a in cmd.argv()] if spec.dirarg == "abs" else None
        r = run_cmd(shoot, site, cmd, cwd=site.root if spec.dirarg else None, args=args)
        r["root"] = str(site.root)
        r["paths"] = [str(site.pkgdir / n) for n in r["written"]]
        return r
    obs = {}
    obs["aio"] = [one(case.aio, fresh())]
    obs["sep"] = [one(case.sep, fresh())]
    site = fresh()
    obs["singles"] = []
    for t in case.single_types():
        r = one(spec.cmd_types([t]), site)
        # the files are overwritten by later invocations only under another name: keep a copy of what this one wrote
        keep = root / ("keep%02d" % len(obs["singles"]))
        keep.mkdir(parents=True, exist_ok=True)
        np = []
        for p in r["paths"]:
            shutil.copy(p, keep / Path(p).name)
            np.append(str(keep / Path(p).name))
        r["paths"] = np
        obs["singles"].append(r)
    obs["fresh"] = [one(spec.cmd_types([t]), fresh()) for t in case.single_types()]
    obs["perms"] = [one(c, fresh()) for c in case.perms]
    case.obs = obs
    return case


def attach_sigs(cases, astsig):
    paths = [p for c in cases for rs in c.obs.values() for r in rs for p in r["paths"]]
    sigs = histlib.astsig_many(astsig, paths)
    for c in cases:
        for rs in c.obs.values():
            for r in rs:
                r["files"] = sorted((observe_file(p, sigs[p]) for p in r["paths"]), key=lambda f: f["name"].encode())
                for f in r["files"]:
                    # the header quotes the command line: an absolute [dir] is compared up to the module root of the copy
                    f["cmd"] = f["cmd"].replace(r.get("root", "\0"), "@ROOT")


def coq_case(case):
    spec = case.spec

    def pairs(cmds, rs):
        return histgen.clist("(%s, %s)" % (c.coq(), histlib.coq_orun(r)) for c, r in zip(cmds, rs))
    o = case.obs
    return ("{| k_pkg := %s; k_destpath := %s; k_aio := %s; k_aio_obs := %s; k_sep := %s; k_sep_obs := %s; "
            "k_singles := %s; k_fresh := %s; k_perms := %s |}"
            % (spec.coq(), histgen.cs(histgen.MODROOT + "/" + spec.destname), case.aio.coq(), histlib.coq_orun(o["aio"][0]),
               case.sep.coq(), histlib.coq_orun(o["sep"][0]),
               pairs([spec.cmd_types([t]) for t in case.single_types()], o["singles"]),
               pairs([spec.cmd_types([t]) for t in case.single_types()], o["fresh"]),
               pairs(case.perms, o["perms"])))


def strip(o):
    return {m: [{k: v for k, v in r.items() if k not in ("paths",)} for r in rs] for m, rs in o.items()}


# ------------------------------------------------------------------ known findings
def _site(run, tag, spec_files, pkg="p"):
    class S:
        pass
    s = S()
    s.name = pkg
    return Site(run.scratch / "kf" / tag, s, spec_files)


def grep_decl(path, start):
    txt = Path(path).read_text() if Path(path).exists() else ""
    i = txt.find(start)
    return txt[i:txt.find("\n}", i)] if i >= 0 else ""


def handlers(run, shoot):
    def sh(site, args):
        return l2.run_shoot(shoot, site.pkgdir, args, timeout=60)

    def embed_order(entry):
        w = entry["witness"]
        a = _site(run, "eo_a", w["files"])
        b = _site(run, "eo_b", w["files"])
        ra, rb = sh(a, w["args_a"]), sh(b, w["args_b"])
        if ra["rc"] != 0 or rb["rc"] != 0:
            return "other: exit %s / %s: %s %s" % (ra["rc"], rb["rc"], ra["err"][-300:], rb["err"][-300:])
        ga = grep_decl(a.pkgdir / w["file"], "type SonGetter interface")
        gb = grep_decl(b.pkgdir / w["file"], "type SonGetter interface")
        if not ga or not gb:
            return "other: SonGetter missing"
        if ga == gb:
            return "correct"
        if "BaseGetter" in gb and "BaseGetter" not in ga:
            return "buggy"
        return "other: SonGetter differs unexpectedly: %r vs %r" % (ga, gb)

    def leak_pair(tag, files, pkg, prep, both, alone, fname):
        a = _site(run, tag + "_a", files, pkg)
        b = _site(run, tag + "_b", files, pkg)
        for s in (a, b):
            for d, args in prep:
                r = l2.run_shoot(shoot, s.root / d, args, timeout=60)
                if r["rc"] != 0:
                    return "other: preparation %s failed: %s" % (args, r["err"][-300:])
        ra, rb = sh(a, both), sh(b, alone)
        if ra["rc"] != 0 or rb["rc"] != 0:
            return "other: exit %s / %s: %s %s" % (ra["rc"], rb["rc"], ra["err"][-300:], rb["err"][-300:])
        fa, fb = a.pkgdir / fname, b.pkgdir / fname
        if not fa.exists() or not fb.exists():
            return "other: %s not written" % fname
        return "correct" if fa.read_text().split("\n", 1)[1] == fb.read_text().split("\n", 1)[1] else "buggy"

    def hasnew(entry):
        """fixed: -type=A,B must give B the file that -type=B gives it"""
        return leak_pair("hasnew", {"p/a.go": HASNEW_SRC}, "p", [], ["new", "-type=A,B"], ["new", "-type=B"], "a.shootnew.b.go")

    def gsm(entry):
        return leak_pair("gsm", {"p/a.go": GSM_SRC}, "p", [("p", ["new", "-getset", "-json", "-type=Base"])],
                         ["new", "-getset", "-json", "-type=Son,Other"], ["new", "-getset", "-json", "-type=Other"],
                         "a.shootnew.other.go")

    def mapleak(entry):
        return leak_pair("mapleak", {"src/model.go": MAP_SRC, "dest/dest.go": MAP_DEST}, "src",
                         [("dest", ["new", "-getset", "-type=Order2"])],
                         ["map", "-path=../dest", "-type=Order2,Order"], ["map", "-path=../dest", "-type=Order"],
                         "model.shootmap.order.go")

    def stray(entry):
        w = entry["witness"]
        a = _site(run, "stray", w["files"])
        r = sh(a, w["args"])
        if r["rc"] != 0:
            return "other: exit %s: %s" % (r["rc"], r["err"][-300:])
        txt = (a.pkgdir / w["file"]).read_text()
        n = txt.count("/*noop*/\n\nfunc init()")
        return "buggy" if n > 0 else "correct"
    def case_clash(entry):
        w = entry["witness"]
        a, b = _site(run, "cc_a", w["files"]), _site(run, "cc_b", w["files"])
        ra, rb = sh(a, w["args_a"]), sh(b, w["args_b"])
        if ra["rc"] != 0 and rb["rc"] != 0:
            return "correct"            # rejected with a diagnostic
        if ra["rc"] != 0 or rb["rc"] != 0:
            return "other: exit %s / %s" % (ra["rc"], rb["rc"])
        fa = sorted(p.name for p in a.pkgdir.iterdir() if ".shootnew" in p.name)
        fb = sorted(p.name for p in b.pkgdir.iterdir() if ".shootnew" in p.name)
        ta = {n: (a.pkgdir / n).read_text().split("\n", 1)[1] for n in fa}
        tb = {n: (b.pkgdir / n).read_text().split("\n", 1)[1] for n in fb}
        if ta == tb and len(fa) == 2:
            return "correct"
        return "buggy" if fa == fb == [w["file"]] and ta != tb else "other: files %s / %s" % (fa, fb)

    return {"K_filename_case_clash": case_clash, "K_embed_order": embed_order, "K_hasnew_leak": hasnew, "K_getsetmethods_leak": gsm,
            "K_map_state_leak": mapleak, "K_merge_stray_comment": stray}


HASNEW_SRC = "package p\n\ntype A struct {\n\t//shoot: new\n\tx int\n\ty int\n}\n\ntype B struct {\n\tu int\n\tv string\n}\n"
GSM_SRC = ("package p\n\ntype Base struct {\n\tz string\n}\n\ntype Son struct {\n\tBase\n\tk int\n}\n\n"
           "type Other struct {\n\t//shoot: set\n\tz string\n}\n")
MAP_SRC = ("package src\n\ntype Order2 struct {\n\tId string\n\tAmount int\n}\n\ntype Order struct {\n\tId string\n\tAmount int\n}\n")
MAP_DEST = ("package dest\n\ntype Order2 struct {\n\tid string\n\tamount int\n}\n\ntype Order struct {\n\tId string\n\tAmount int\n}\n")


# ------------------------------------------------------------------ main
PLAN_QUICK = {"new": 10, "enum": 5, "rest": 4, "map": 5}
PLAN_THOROUGH = {"new": 120, "enum": 40, "rest": 40, "map": 60}


def nontrivial(case):
    """distinct packages in which at least one feature that could make types interfere is present"""
    s = case.spec
    if s.sub == "new":
        return any(isinstance(it, histgen.Embed) or (isinstance(it, histgen.SField) and it.dnew)
                   for st in s.structs() for it in st.items)
    if s.sub == "map":
        return bool(s.auxcmd or s.destauxcmd) or any(isinstance(it, histgen.Embed) for st in s.structs() for it in st.items)
    return len(case.sel) >= 2


def main(run):
    proof_ok = run.prove("Properties/C08.v", ["Corr/GenCorr.v"])
    shoot = run.build_shoot()
    astsig = run.build_helper("astsig")
    outcome = run.replay_findings(handlers(run, shoot))
    plan = PLAN_THOROUGH if run.thorough() else PLAN_QUICK
    cases = []
    for sub in ("new", "enum", "rest", "map"):
        for _ in range(plan[sub]):
            cases.append(make_case(run.rng, len(cases), sub))
    cases += corpus_cases(len(cases))
    run.log("cases:", len(cases))
    histlib.pmap(lambda c: execute_case(run, shoot, c), cases)
    run.log("shoot runs done:", sum(len(rs) for c in cases for rs in c.obs.values()))
    attach_sigs(cases, astsig)
    rendered = [coq_case(c) for c in cases]
    mism, exempt = histlib.coq_shards(run, "c08", rendered, "mismatches_c08", "c08case", shard=8, count_fn="exempt_c08")
    run.log("coq done, mismatches:", mism)
    for idx, v in mism[:5]:
        c = cases[idx]
        run.violation({"kind": "property-fails-on-implementation" if v == 2 else "correspondence-broken",
                       "theorem": "C08_state_noninterference_* / C08_all_in_one_is_concatenation / C08_permutation",
                       "correspondence": "L2:C08:shoot+astsig vs Model/Gen.v (Corr/GenCorr.v corr_c08 / Pb_c08)",
                       "case": c.describe(), "sources": c.files, "observed": strip(c.obs), "coq_case": rendered[idx],
                       "how": "write the sources into a module (go.mod: replace shoot => /repo), run each command "
                              "in a fresh copy of the package directory (the one-at-a-time list in one copy), compare "
                              "with harness/go/cmd/astsig"}, no_input=(v != 2))
    if not proof_ok and not mism:
        run.proof_failure_violation()
    nruns = sum(len(rs) for c in cases for rs in c.obs.values())
    feats = {"embedding": 0, "embedding_in_K_embed_order_class": 0, "shoot_new_marks": 0, "generic": 0,
             "opt_short": 0, "driven_with_dir_argument": 0, "map_shootnew_side": 0, "map_mapper_funcs": 0, "map_pointer_embed": 0, "map_nested_struct_field": 0, "star_mode": 0, "file_mode": 0,
             "two_files": 0, "failed_runs": 0}
    for c in cases:
        s = c.spec
        if c.aio.star:
            feats["star_mode"] += 1
        else:
            feats["file_mode"] += 1
        feats["two_files"] += len(s.hfiles) > 1
        feats["driven_with_dir_argument"] += bool(s.dirarg)
        feats["opt_short"] += "-short" in s.flags
        feats["failed_runs"] += sum(1 for rs in c.obs.values() for r in rs if r["rc"] != 0)
        if s.sub == "new":
            feats["embedding"] += any(isinstance(it, histgen.Embed) for st in s.structs() for it in st.items)
            feats["embedding_in_K_embed_order_class"] += ("-getset" in s.flags and
                                                          any(s.embeds_of(t) & set(c.sel) for t in c.sel))
            feats["shoot_new_marks"] += any(getattr(it, "dnew", False) for st in s.structs() for it in st.items)
            feats["generic"] += any(st.tparams for st in s.structs())
        if s.sub == "map":
            feats["map_shootnew_side"] += bool(s.auxcmd or s.destauxcmd)
            feats["map_mapper_funcs"] += any(isinstance(d, histgen.Funcs) for f in s.hfiles for d in f.decls)
            feats["map_pointer_embed"] += any(isinstance(it, histgen.Embed) and it.ptr for st in s.structs() for it in st.items)
            feats["map_nested_struct_field"] += any(isinstance(it, histgen.SField) and it.name.startswith("Part")
                                                    for st in s.structs() for it in st.items)
    cov = {
        "evaluations": nruns,
        "distinct_nontrivial": len({json.dumps(c.spec.files(), sort_keys=True) for c in cases if nontrivial(c)}),
        "rule": ("packages of harness/histgen.py: %s (new: 2..6 structs with get/set/new/def directives, json/new tags, "
                 "value and pointer embedding in both declaration orders, shadowing, generics, type-level getter/setter, "
                 "flags out of -getset -json -opt (-short); enum: 2..5 int types with const blocks over 1..2 files, -json -text; "
                 "rest: 2..3 RestClient interfaces with headers=, alias=, path/query/struct/map parameters; map: 2..4 "
                 "src/dest pairs with map tags, convertible and unmatched fields, mapper funcs, embedded pointer structs, "
                 "shoot-new source or destination sides, -way).  Per package: all-in-one (-file= or -type=* with a "
                 "go:generate line), the same with -sep, -type=T one at a time in one copy, -type=T alone in fresh copies, "
                 "-type=<list> and up to 3 permutations (incl. the reversal).  non-trivial = distinct packages having a "
                 "feature through which types can interact (new: embedding or shoot:new marks; map: a shoot-new side or "
                 "embedded structs; enum/rest: >= 2 selected types).  One package in five is driven from the module root with "
                 "./<pkg> as [dir] in all five modes.  Fixed cases in every run: renamed import carried by the second source, "
                 "pointer-embed mapper pairs, embedding chains, nested struct fields (makeSubMap), one package imported under "
                 "two names with the names in copied text (def= values) driven with [dir], -opt -short with a shared field "
                 "name, two shapes with a name reached twice at one depth" % plan),
        "exhaustive": False,
        "traces_validated_against_impl": len(cases),
        "programs": len(cases),
        "shoot_invocations": nruns,
        "features": feats,
        "cases_exempt_from_fresh_copy_conjunct": sum(1 for x in exempt if x % 2 == 1),
        "cases_exempt_from_permutation_conjunct": sum(1 for x in exempt if x >= 2),
        "refused_one_at_a_time_runs_of_types_the_listing_run_skips": sum(1 for c in cases for r in c.obs["singles"] if r["rc"] != 0),
        "cases_with_a_silently_skipped_type": sum(1 for c in cases if c.skipped),
        "findings_measured": outcome,
        "samples": [{"case": c.describe(), "sources": c.spec.files()} for c in (cases[0], cases[len(cases) // 2], cases[-1])],
        "trusted_base": lib.TRUSTED_BASE_COMMON + TRUSTED,
    }
    return run.finish(cov, assumptions=ASSUMPTIONS)


TRUSTED = [
    "a generated declaration is modelled as (name, kind with the payload later analyses read back, has-doc, "
    "ends-with-inner-comment, needed imports, token list); gofmt/goimports printing is not modelled: the tie is "
    "'equal printed text in the implementation iff equal tokens in the model' over all declarations of a case",
    "import specs are compared with their local names: a type is printed with the package name (plain import) whatever "
    "the source file calls the import; a renamed import survives only through text copied verbatim (def= values)",
    "goimports is modelled as 'the import set of a file is exactly what its declarations need' (d_needs given per "
    "template fragment); import resolution of non-stdlib packages depends on the process cwd (finding K_goimports_cwd, C07)",
    "packages.Load with an overlay is modelled as the file list hand-written + generated-on-disk, overlay entries "
    "replacing/adding by file name, sorted by name; go/types lookups (Scope.Lookup, AssignableTo) as first match in that order",
    "the per-type analyses (field flattening and shadowing, directive parsing, name/type matching of the mapper on the "
    "palette int/int64/int32/float64/string/bool, rest parameter classification) are transcribed for the compact grammar "
    "of harness/histgen.py only (mapper: the non-slice form of makeSubMap included); slice sub-mapping, manual toX/fromX methods, -alias/-to/-i, -tagcase, enum -bit/-sql "
    "are outside this model (other properties cover them)",
    "comment attachment in MergeSources (byte distance < 10) is modelled as: doc comments stay with their declaration, and "
    "a declaration without doc comment also receives the comment that ends the previous declaration of the same source",
    "noopFix never applies to what the four templates emit (no empty function bodies)",
]
ASSUMPTIONS = [
    "one-at-a-time means: -type=T invocations in the order of the all-in-one selection, in ONE copy of the package "
    "(each sees the files written by the earlier ones, as the overlay of a single run does); invocations in fresh copies "
    "are compared too, outside the input class of K_embed_order",
    "the header line quotes the command line and therefore differs between -type=A,B and -type=B,A by construction: the "
    "permutation sentence is checked byte for byte from the second line on, the header against the command line given",
    "K_embed_order (open): new -getset: the fresh-copy comparison is exempt when an embedded selected struct is processed before "
    "its embedder, the permutation comparison when a listed type embeds a listed struct (the model reproduces the order dependence "
    "and is compared on it); the numbers of exempt cases are in the coverage",
    "K_merge_stray_comment (open): for rest the all-in-one file carries one extra free-floating /*noop*/ per client "
    "before func init(); the model reproduces it; only those are tolerated in excess (their number must equal the number of init "
    "declarations); declarations, doc comments and imports are compared exactly",
    "the random `new` packages stay out of two name-collision classes that belong to open constructor findings: a name reached "
    "twice at the same depth (K_ctor_ambiguous_promoted: option function / parameter printed twice; two corpus cases keep exactly "
    "that shape under comparison) and a field whose accessor is named like a type of the package (an embedded field then hides "
    "the promoted accessor method, which the model's assignability test does not know); strict shadowing at different depths is "
    "generated",
    "refused runs are judged: the listing run may be refused only if some -type=T run is; a -type=T run refused although the listing "
    "run succeeds (a type the listing run skips silently) must contribute nothing to the all-in-one file",
]


def replay(run, path):
    r = json.load(open(path))
    print("replay of %s: re-run `VERIF_SEED=%s bin/check C08 %s` (cases are regenerated from the seed); sources, commands "
          "and observations are in the file" % (path, r.get("seed"), r.get("tier", "quick")))
    run.tier = r.get("tier", "quick")
    return main(run)
