"""Generator side of the C10 check: rest-client interface specs whose methods
cover every result shape the generator accepts (and the signatures it refuses),
their rendering as Go packages and as Coq terms, JSON bodies per result type,
and the status / body / fault scenarios.

API (kept small so that another check can reuse it):
    gen_iface_pkg(rng, name, n_ifaces, n_methods, force=None, ctx_plan=()) -> Pkg
    render_go(pkg) -> {relative path: text}
    coq_fields(results) -> Coq term of type `list field`
    registry_go(module, pkgs) -> text of zz_registry.go for harness/go/cmd/c10drv
Type expressions are tuples:
    ("id", name) ("sel", pkg, name) ("star", x) ("arr", None | "n", elt) ("map", k, v)
    ("other", ast_node_name, printed)
A result list is a list of fields (names, texpr) exactly as go/ast sees it.
"""
import json

# ----------------------------------------------------------------- prelude
PRELUDE = '''
type User struct {
	ID   int    `json:"id"`
	Name string `json:"name"`
}

type Item struct {
	K    string   `json:"k"`
	N    *int     `json:"n"`
	Tags []string `json:"tags"`
	Sub  *User    `json:"sub"`
}

// body argument of POST/PUT/PATCH methods; F lets the driver provoke a json.Marshal failure (NaN)
type In struct {
	A int     `json:"a"`
	F float64 `json:"f"`
}

type MyErr struct{}

func (MyErr) Error() string { return "myerr" }

type Box[T any] struct{ V T }
'''

RESP = ([], ("star", ("sel", "http", "Response")))
ERR = ([], ("id", "error"))


def I(n):
    return ("id", n)


USER, ITEM, INT, STRING, BOOL, FLOAT, ANY, BYTE = (I("User"), I("Item"), I("int"), I("string"), I("bool"),
                                                   I("float64"), I("any"), I("byte"))
TIME = ("sel", "time", "Time")
ANON = ("other", "*ast.StructType", "struct{ X int }")
EMPTY_IFACE = ("other", "*ast.InterfaceType", "interface{}")


def star(x):
    return ("star", x)


def sl(x):
    return ("arr", None, x)


def mp(k, v):
    return ("map", k, v)


# the four shapes of the property text come first (BASE_SHAPES[0..3] + no result)
BASE_RESULTS = [star(USER), sl(USER), mp(STRING, INT)]
# every other accepted form of getReturnTypeName: *T for any T, []T, map[K]V
MORE_RESULTS = [
    star(ITEM), star(INT), star(STRING), star(BOOL), star(FLOAT), star(ANY), star(star(USER)),
    star(sl(USER)), star(sl(INT)), star(mp(STRING, INT)), star(TIME), star(ANON), star(EMPTY_IFACE),
    star(("arr", "2", INT)), star(mp(STRING, sl(ITEM))),
    sl(ITEM), sl(star(USER)), sl(INT), sl(STRING), sl(ANY), sl(BYTE), sl(sl(INT)), sl(mp(STRING, INT)), sl(TIME),
    sl(star(INT)), sl(("arr", "2", STRING)),
    mp(STRING, USER), mp(STRING, ANY), mp(STRING, sl(INT)), mp(STRING, star(USER)), mp(INT, STRING),
    mp(STRING, mp(STRING, BOOL)), mp(STRING, STRING),
]

# signatures shoot must refuse: (result fields, expected fatal as Coq term) -- the expectation is only
# used for the coverage counters; the comparison is against cook_results evaluated in Coq
REJECTED = [
    ("ident_struct", [([], USER), RESP, ERR]),
    ("ident_int", [([], INT), RESP, ERR]),
    ("ident_any", [([], ANY), RESP, ERR]),
    ("selector", [([], TIME), RESP, ERR]),
    ("iface_lit", [([], EMPTY_IFACE), RESP, ERR]),
    ("struct_lit", [([], ANON), RESP, ERR]),
    ("func", [([], ("other", "*ast.FuncType", "func() int")), RESP, ERR]),
    ("chan", [([], ("other", "*ast.ChanType", "chan int")), RESP, ERR]),
    ("paren", [([], ("other", "*ast.ParenExpr", "(*User)")), RESP, ERR]),
    ("generic", [([], ("other", "*ast.IndexExpr", "Box[int]")), RESP, ERR]),
    ("named3", [(["u"], star(USER)), (["resp"], star(("sel", "http", "Response"))), (["err"], I("error"))]),
    ("named3_bad_shape", [(["u"], USER), (["resp"], star(("sel", "http", "Response"))), (["err"], I("error"))]),
    ("none", []),
    ("only_error", [ERR]),
    ("only_response", [RESP]),
    ("four", [([], star(USER)), ([], INT), RESP, ERR]),
    ("five", [([], star(USER)), ([], INT), ([], INT), RESP, ERR]),
    ("resp_by_value", [([], star(USER)), ([], ("sel", "http", "Response")), ERR]),
    ("resp_wrong_type", [([], star(USER)), ([], star(USER)), ERR]),
    ("resp_request", [([], star(("sel", "http", "Request"))), ERR]),
    ("resp_alias_import", [([], star(("sel", "nh", "Response"))), ERR]),        # import nh "net/http"
    ("swapped", [ERR, RESP]),
    ("last_not_error", [RESP, ([], star(USER))]),
    ("last_custom_error", [([], star(USER)), RESP, ([], I("MyErr"))]),
    ("last_ptr_error", [RESP, ([], star(I("error")))]),
    ("two_results_first_wrong", [([], star(USER)), ERR]),
    # the input classes of the two repaired defects (fixed findings K_rest_array_result, K_rest_multi_name_result)
    ("array_result", [([], ("arr", "2", INT)), RESP, ERR]),
    ("array_of_struct_result", [([], ("arr", "3", USER)), RESP, ERR]),
    ("multi_name_3", [(["a", "b"], RESP[1]), (["err"], ERR[1])]),
    ("multi_name_2", [(["a", "b"], RESP[1])]),
    ("multi_name_errs", [(["r"], RESP[1]), (["e1", "e2"], ERR[1])]),
    ("multi_name_4", [(["u", "v"], star(USER)), (["r"], RESP[1]), (["e"], ERR[1])]),
    ("multi_name_all_three", [(["a", "b", "c"], ERR[1])]),
]

def random_results(rng):
    """a random result list over the whole field grammar (0..5 values, all named or all unnamed, multi-name
    fields `a, b T`, accepted and refused types incl. arrays in any position)"""
    resp_like = [RESP[1], ("sel", "http", "Response"), star(("sel", "http", "Request")), star(USER)]
    err_like = [ERR[1], I("MyErr"), star(I("error")), STRING]
    first = BASE_RESULTS + MORE_RESULTS + [USER, INT, ANY, TIME, ANON, EMPTY_IFACE, ("other", "*ast.FuncType", "func() int"),
                                            ("other", "*ast.ChanType", "chan int"), ("other", "*ast.IndexExpr", "Box[int]"),
                                            ("arr", "2", INT), ("arr", "4", star(USER))]
    n = rng.choice([0, 1, 2, 2, 2, 3, 3, 3, 3, 4, 5])
    types = [rng.choice(first + resp_like + err_like) for _ in range(n)]
    if n >= 2 and rng.random() < 0.7:
        types[-1] = ERR[1] if rng.random() < 0.85 else rng.choice(err_like)
        types[-2] = RESP[1] if rng.random() < 0.85 else rng.choice(resp_like)
    names = rng.sample(["a", "b", "r", "res", "resp", "e", "err", "u", "resp_", "url_", "req_", "c", "http", "json",
                        "path_", "io"], n) if rng.random() < 0.3 else None
    if not names:
        return [([], t) for t in types]
    # named results: neighbours of one type are merged into one multi-name field half of the time
    fields = []
    for nm, t in zip(names, types):
        if fields and fields[-1][1] == t and rng.random() < 0.5:
            fields[-1][0].append(nm)
        else:
            fields.append(([nm], t))
    if n >= 2 and rng.random() < 0.3:
        # force a multi-name field: repeat the type of a random value on its neighbour
        k = rng.randrange(len(fields))
        fields[k][0].append("x%d" % k)
    return fields


# names for the two results of a method without result type
RESULT_NAME_PAIRS = [("resp", "err"), ("r", "e"), ("resp_", "err"), ("url_", "err"), ("req_", "err_"), ("path_", "query_"),
                     ("c", "err"), ("err", "e"), ("http", "url"), ("json", "io"), ("fmt", "strings"), ("body_", "r_"),
                     ("bodyJson_", "bytes"), ("response", "time")]

VERBS = ["Get", "Post", "Put", "Patch", "Delete"]
BODY_VERBS = ("Post", "Put", "Patch")


# ----------------------------------------------------------------- printing
def go_type(t):
    k = t[0]
    if k == "id":
        return t[1]
    if k == "sel":
        return t[1] + "." + t[2]
    if k == "star":
        return "*" + go_type(t[1])
    if k == "arr":
        return "[" + (t[1] or "") + "]" + go_type(t[2])
    if k == "map":
        return "map[" + go_type(t[1]) + "]" + go_type(t[2])
    return t[2]


def coq_str(s):
    return '"' + s.replace('"', '""') + '"'


def coq_texpr(t):
    k = t[0]
    if k == "id":
        return "TIdent " + coq_str(t[1])
    if k == "sel":
        return "TSel %s %s" % (coq_str(t[1]), coq_str(t[2]))
    if k == "star":
        return "TStar (%s)" % coq_texpr(t[1])
    if k == "arr":
        return "TArray %s (%s)" % ("None" if t[1] is None else "(Some %s)" % coq_str(t[1]), coq_texpr(t[2]))
    if k == "map":
        return "TMap (%s) (%s)" % (coq_texpr(t[1]), coq_texpr(t[2]))
    return "TOther %s %s" % (coq_str(t[1]), coq_str(t[2]))


def coq_fields(results):
    return "[%s]" % "; ".join("{| f_names := [%s]; f_type := %s |}"
                              % ("; ".join(coq_str(n) for n in names), coq_texpr(t)) for names, t in results)


def go_results(results):
    if not results:
        return ""
    parts = []
    for names, t in results:
        parts.append((", ".join(names) + " " if names else "") + go_type(t))
    if len(parts) == 1 and not results[0][0]:
        return " " + parts[0]
    return " (" + ", ".join(parts) + ")"


def uses(t, pkg):
    if t[0] == "sel":
        return t[1] == pkg
    if t[0] in ("star",):
        return uses(t[1], pkg)
    if t[0] == "arr":
        return uses(t[2], pkg)
    if t[0] == "map":
        return uses(t[1], pkg) or uses(t[2], pkg)
    return False


# -------------------------------------------------------------------- specs
class Method:
    def __init__(self, name, verb, ctx, results, ptr_body=False):
        """ptr_body: the document of a body verb is a pointer parameter (in *In);
        ctx: False (no context.Context parameter) or its position "first" | "middle" | "last" among the
        parameters (True = "first")"""
        self.name, self.verb, self.results = name, verb, results
        self.ctx = "first" if ctx is True else (ctx or False)
        self.body_param = verb in BODY_VERBS
        self.ptr_body = bool(ptr_body) and self.body_param

    def params(self):
        """parameter list; the context may stand anywhere (the generator finds it by its type)"""
        own = ["in *In" if self.ptr_body else "in In"] if self.body_param else []
        if self.ctx == "first" or not self.ctx:
            return (["ctx context.Context"] if self.ctx else []) + own
        lead = own or ["q string"]                 # a query parameter (non-body verbs)
        if self.ctx == "last":
            return lead + ["ctx context.Context"]
        # middle: followed by a path parameter (body verbs bind no query) / a second query parameter
        return lead + ["ctx context.Context", "id string" if self.body_param else "n int"]

    def path(self):
        if self.ctx == "middle" and self.body_param:
            return "/%s/{id}" % self.name.lower()
        return "/%s" % self.name.lower()

    def decl(self):
        return ('\t//shoot: %s("%s")\n\t%s(%s)%s\n'
                % (self.verb, self.path(), self.name, ", ".join(self.params()), go_results(self.results)))

    def has_result(self):
        return len(self.results) == 3

    def result_type(self):
        return self.results[0][1] if self.has_result() else None

    def decoded_type(self):
        """type of the variable the body is decoded into"""
        t = self.result_type()
        if t is None:
            return None
        return t[1] if t[0] == "star" else t


class Iface:
    def __init__(self, name, methods):
        self.name, self.methods = name, methods


class Pkg:
    def __init__(self, name, ifaces, resp_alias=False):
        self.name, self.ifaces, self.resp_alias = name, ifaces, resp_alias

    def methods(self):
        return [(i, m) for i in self.ifaces for m in i.methods]


# context positions of the first methods of the first package (deterministic classes of the quick tier):
# the four shapes of the property text with a leading context, then last / middle for non-body and body verbs
# (VERBS[k % 5]: Delete, Get, Post, Put), a leading one and none (Patch, Delete)
CTX_PLAN = ["first", "first", "first", "first", "last", "middle", "last", "middle", "first", False]
CTX_CYCLE = ["last", "middle", "first"]
PTR_BODY_PLAN = (2, 6, 8)


def gen_iface_pkg(rng, name, n_ifaces, n_methods, force=None, ctx_plan=()):
    """a package of n_ifaces interfaces x n_methods methods with accepted result lists.
    force: result types (None = no result) that must occur, assigned first;
    ctx_plan: context position of the first methods (others: none for 15% of the Get/Delete methods, else
    last / middle / first in turn)."""
    todo = list(force or [])
    ifaces = []
    k = 0
    for i in range(n_ifaces):
        ms = []
        for j in range(n_methods):
            if todo:
                rt = todo.pop(0)
            else:
                r = rng.random()
                rt = None if r < 0.12 else rng.choice(BASE_RESULTS) if r < 0.3 else rng.choice(MORE_RESULTS)
            verb = VERBS[k % 5] if k < 10 else rng.choice(VERBS)
            if k < len(ctx_plan):
                ctx = ctx_plan[k]
            elif verb in ("Get", "Delete") and rng.random() < 0.15:
                ctx = False
            else:
                ctx = CTX_CYCLE[k % 3]
            if rt is None:
                # two-value signatures may carry names (cook.go only refuses names when n == 3); the
                # names are drawn from a pool that contains the generated method's own identifiers
                # and the packages its file imports (fixed finding K_rest_result_names_collide)
                if rng.random() < 0.45:
                    n1, n2 = rng.choice(RESULT_NAME_PAIRS)
                    results = [([n1], RESP[1]), ([n2], ERR[1])]
                else:
                    results = [RESP, ERR]
            else:
                results = [([], rt), RESP, ERR]
            # the document as a pointer parameter: fixed for M2 (Put), M6 (Post), M8 (Patch) of the plan, 40% elsewhere
            ptr = (k in PTR_BODY_PLAN) if k < len(ctx_plan) else rng.random() < 0.4
            ms.append(Method("M%d" % k, verb, ctx, results, ptr_body=ptr))
            k += 1
        ifaces.append(Iface("C%s%d" % (name.capitalize(), i), ms))
    return Pkg(name, ifaces)


def rejected_pkg(name, results):
    m = Method("M0", "Get", True, results)
    alias = any(uses(t, "nh") for _, t in results)
    return Pkg(name, [Iface("R", [m])], resp_alias=alias)


def render_go(pkg):
    """{relative path: text} of the package (one file: cook.go recognises struct types of the same file only)"""
    need_time = any(uses(t, "time") for _, m in pkg.methods() for _, t in m.results)
    imports = ['\t"context"\n', '\t"net/http"\n']
    if pkg.resp_alias:
        imports.append('\tnh "net/http"\n')
    if need_time:
        imports.append('\t"time"\n')
    src = ["package %s\n\nimport (\n%s\n\t\"github.com/lopolopen/shoot\"\n)\n" % (pkg.name, "".join(imports))]
    src.append("\nvar (\n\t_ http.Handler\n\t_ context.Context\n)\n")
    src.append(PRELUDE)
    for it in pkg.ifaces:
        src.append("\ntype %s interface {\n\tshoot.RestClient[%s]\n\n" % (it.name, it.name))
        src.append("\n".join(m.decl() for m in it.methods))
        src.append("}\n")
    return {"%s/%s.go" % (pkg.name, pkg.name): "".join(src)}


def registry_go(module, pkgs):
    lines = ["package main\n\nimport (\n\t\"github.com/lopolopen/shoot\"\n\n"]
    for p in pkgs:
        lines.append('\t"%s/%s"\n' % (module, p.name))
    lines.append(")\n\nvar _ shoot.RestConf\n\nfunc init() {\n")
    for p in pkgs:
        for it in p.ifaces:
            lines.append('\tifaces["%s.%s"] = func(o ...Opt) any { return shoot.NewRest[%s.%s](o...) }\n'
                         % (p.name, it.name, p.name, it.name))
    lines.append("}\n")
    return "".join(lines)


# ------------------------------------------------------------------- bodies
def valid_json(t, rng, depth=0):
    """a Python value that encoding/json decodes into a variable of type t"""
    k = t[0]
    if k == "id":
        n = t[1]
        if n == "int":
            return rng.choice([0, 1, -7, 42, 2 ** 40])
        if n == "string":
            return rng.choice(["", "hi", 'q"uote', "a b"])
        if n == "bool":
            return rng.choice([True, False])
        if n == "float64":
            return rng.choice([0, 1.5, -2.25])
        if n == "byte":
            return rng.randrange(256)
        if n == "any":
            return rng.choice([None, 1, "s", [1, "x"], {"k": [True]}])
        if n == "User":
            return {"id": rng.choice([0, 3, 99]), "name": rng.choice(["", "ann", "bob"])}
        if n == "Item":
            return {"k": "key", "n": rng.choice([None, 5]), "tags": rng.choice([None, [], ["x", "y"]]),
                    "sub": rng.choice([None, {"id": 1, "name": "s"}])}
        raise ValueError(t)
    if k == "sel":
        return "2024-05-06T07:08:09Z"
    if k == "star":
        return valid_json(t[1], rng, depth + 1) if rng.random() < 0.8 else None
    if k == "arr":
        if t[2] == BYTE and t[1] is None:
            return rng.choice(["", "aGk=", "AAEC"])
        n = int(t[1]) if t[1] else rng.choice([0, 1, 2, 3])
        return [valid_json(t[2], rng, depth + 1) for _ in range(n)]
    if k == "map":
        keys = ["1", "22"] if t[1] == INT else ["a", "b c", ""]
        return {kk: valid_json(t[2], rng, depth + 1) for kk in keys[:rng.choice([0, 1, 2, 3])]}
    if t[1] == "*ast.StructType":
        return {"X": rng.choice([0, 5])}
    return rng.choice([None, 1, "s", {"k": 1}])


def wrong_json(t):
    """JSON text that is well-formed but (where the type allows) not of type t"""
    k = t[0]
    if k == "id":
        return {"int": '"x"', "string": "5", "bool": "1", "float64": '"f"', "byte": '"b"', "any": '"anything"',
                "User": '{"id":"three","name":"ann"}', "Item": '{"k":"a","tags":"notalist"}'}[t[1]]
    if k == "sel":
        return '"yesterday"'
    if k == "star":
        return wrong_json(t[1])
    if k == "arr":
        return '{"a":1}'
    if k == "map":
        return "[1,2]"
    if t[1] == "*ast.StructType":
        return '{"X":"s"}'
    return "17"


MALFORMED = ['{"id":', "nope", "[1,", '{"a" 1}', "}", '{"id":1,}', "tru", '"unterminated']
TEXTY = ['he said "hi"\n\tok', "plain text", "café ✓", "<html>502</html>", "a: b: c", "12", "x" * 300]


def bodies_for(m, rng, extra):
    """(label, body text) list: the four body classes of the property's quantifier, plus variants"""
    t = m.decoded_type()
    res = [("empty", "")]
    if t is None:
        res += [("valid", '{"ok":true}'), ("malformed", rng.choice(MALFORMED)), ("wrongtyped", "17")]
    else:
        res += [("valid", json.dumps(valid_json(t, rng), separators=(",", ":"))),
                ("malformed", rng.choice(MALFORMED)), ("wrongtyped", wrong_json(t))]
    if extra:
        if t is not None:
            res.append(("valid2", json.dumps(valid_json(t, rng))))
            res.append(("valid_trailing", json.dumps(valid_json(t, rng)) + " trailing garbage"))
        res += [("null", "null"), ("whitespace", rng.choice([" ", "\n", " \n\t "])), ("text", rng.choice(TEXTY)),
                ("malformed2", rng.choice(MALFORMED))]
    return res


# ----------------------------------------------------------------- statuses
BOUNDARIES = [199, 200, 204, 299, 300, 304, 399, 400, 404, 499, 500, 503, 599]
COMMON = [201, 202, 203, 205, 206, 207, 226, 250, 301, 302, 303, 305, 307, 308, 350, 401, 402, 403, 405, 408, 409,
          410, 418, 422, 429, 451, 498, 501, 502, 504, 505, 511, 550, 598]
# beyond what an HTTP/1.1 server can put on the wire as a final status (fabricated responses only)
OUT_OF_RANGE = [0, 1, -1, 99, 100, 101, 102, 103, 150, 198, 600, 700, 999, 1000, 65536, 2 ** 31 - 1, 2 ** 31,
                -2 ** 31, 2 ** 63 - 1, -2 ** 63, -200, -404, -500]


def quick_statuses(rng):
    """about 60 statuses in 200..599 incl. all boundaries"""
    s = list(BOUNDARIES[1:]) + list(COMMON)
    while len(s) < 60:
        x = rng.randint(200, 599)
        if x not in s:
            s.append(x)
    return s
