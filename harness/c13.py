"""C13  shoot new -opt: defaults first, then options in order, each touching one field.

Theorems: coq/Properties/C13.v (model coq/Model/CtorOpt.v on top of Model/Ctor.v).
Correspondence (coq/Corr/CtorOptCorr.v): struct packages from harness/ctorgen.py run
through `shoot new -opt [-short]`; go/types (harness/go/cmd/ctorsig) lists the option
functions and *T's methods; an in-package oracle runs option sequences (length 0..4,
with repeats) through T.With on NewT(sentinels), T.With on the zero value and
shoot.NewWith, printing every leaf before and after."""
import json

import lib
import l2
import ctorgen
import ctorlib
import ctor_findings
import c02

FUEL = 8
THEOREMS = ("C13_with_all_sequences / C13_with_last_wins / C13_option_sets_exactly_its_field / "
            "C13_options_exist_exactly / C13_new_with_is_with_on_zero")


def pascal(s):
    return ctorgen._go_pascal(s)


def precheck(pkg, sd, short, taken):
    """'in' | 'known' (compiles, outside the guard) | 'bad'"""
    cls = c02.precheck(pkg, sd)
    if cls != "in":
        return "bad"
    if sd["tparams"]:
        return "bad"
    occ, best = c02.selectable(pkg, sd)
    names = []
    for name, (d, os_) in best.items():
        o = os_[0]
        if o[3] and o[4]:
            continue
        fd = next((f for f in sd["fields"] if name in f["names"]), None) if d == 1 else None
        if fd is not None and (name.startswith("_") or (fd["tag"] is not None and 'new:"-"' in fd["tag"])):
            continue
        p = pascal(name)
        if p == "":
            return "bad"
        names.append(p if short else p + "Of" + sd["name"])
    if len(set(names)) != len(names):
        return "bad"
    for n in names:
        if n in taken:
            return "bad"
    taken.update(names)
    res = "in"
    for fd in sd["fields"]:
        if fd["names"] and (any(n.startswith("_") for n in fd["names"]) or
                            (fd["tag"] is not None and 'new:"-"' in fd["tag"])):
            res = "known"                     # an excluded field gets no option (K_opt_excluded_field)
    # an embedded struct with defaults of its own: promoted SetDefault (open finding)
    for o in occ:
        if o[3] and o[4]:
            sub = ctorgen.struct_of(pkg, o[2])
            for fd in sub["fields"]:
                if fd["names"] and ctorlib.parse_def(fd["doc"]) != "" and \
                        not all(n.startswith("_") or (fd["tag"] is not None and 'new:"-"' in fd["tag"]) for n in fd["names"]):
                    res = "known"
    return "known" if cls == "known" else res


def corpus_packages():
    """fixed packages of every run: merged outputs (-file=, -type=*), one invocation per type (embedding type and
    embedded type both with defaults), regeneration over the outputs of an earlier version whose def= literals
    differ but have the same length"""
    T, fd, N = ctorgen.T_basic, ctorgen.fdecl, ctorgen.T_named
    pk = []

    def add(structs, mode, short=False, regen=False, order=None):
        pkg = {"name": "k%03d" % len(pk), "structs": structs, "extra_decls": [], "features": {}, "short": short,
               "classes": ["corpus"] * len(structs), "mode": mode, "order": order or [x["name"] for x in structs]}
        pkg["pre"] = ctorgen.length_preserving_edit(pkg) if regen else None
        assert not regen or pkg["pre"] is not None
        pk.append(pkg)

    pool = lambda: [c02._sd("Pool", [fd(["size"], T("int"), ["//shoot: def=10"]), fd(["policy"], T("string"), ['//shoot: def="fifo"']),
                                     fd(["load"], T("float64"), ["//shoot: def=0.75"]), fd(["tags"], ("slice", T("string")))]),
                    c02._sd("Job", [fd(["id"], T("string")), fd(["prio"], T("int"), ["//shoot: def=5"]),
                                    fd(["limit"], ("ptr", T("int")), ["//shoot: def=new(int)"])])]
    add(pool(), "file")
    add(pool(), "star", regen=True)
    add(pool(), "type", short=True, regen=True)
    add(pool(), "filesep", regen=True)
    add(pool(), "each", regen=True, order=["Job", "Pool"])
    audit = lambda: [c02._sd("Audit", [fd(["by"], T("string"), ['//shoot: def="sys"']), fd(["rev"], T("int"))]),
                     c02._sd("Order", [fd([], N("", "Audit")), fd(["qty"], T("int"), ["//shoot: def=1"]), fd(["note"], T("string"))]),
                     c02._sd("Ship", [fd([], ("ptr", N("", "Order"))), fd(["via"], T("string"), ['//shoot: def="air"'])])]
    add(audit(), "each", order=["Audit", "Order", "Ship"])
    add(audit(), "each", order=["Ship", "Order", "Audit"])
    add(audit(), "file")
    add(audit(), "type")
    return pk


def gen_packages(run, n):
    pkgs = corpus_packages()
    stats = {"regenerated": 0, "corpus_packages": len(pkgs)}
    n += len(pkgs)
    k = 0
    while len(pkgs) < n:
        k += 1
        name = "q%03d" % len(pkgs)
        short = run.rng.random() < 0.22
        style = run.rng.random()
        opts = dict(p_generic=0.0, p_def=0.5, p_embed=0.8, p_under=0.03, p_tag=0.12)
        if style < 0.15:
            opts.update(p_embed=0.0)
        elif style < 0.6:
            opts.update(p_embed=0.95, p_shadow=0.6, nstructs=run.rng.choice([3, 4, 5]))
        if short:
            opts.update(nstructs=run.rng.choice([1, 2, 2, 3]))
        pkg = ctorgen.gen_struct_pkg(run.rng, name, **opts)
        if run.rng.random() < 0.85:
            ctorgen.strip_defs_of_embedded(pkg)
        if run.rng.random() < 0.7:                # an excluded field gets no option (K_opt_excluded_field): keep most types free of them
            for sd0 in pkg["structs"]:
                for fd0 in sd0["fields"]:
                    if fd0["tag"] is not None and 'new:"-"' in fd0["tag"]:
                        fd0["tag"] = None
        taken = set(sd["name"] for sd in pkg["structs"]) | set("New" + sd["name"] for sd in pkg["structs"])
        classes = [precheck(pkg, sd, short, taken) for sd in pkg["structs"]]
        if "bad" in classes or (classes.count("known") and run.rng.random() < 0.5):
            stats["regenerated"] += 1
            if k < 60 * n:
                continue
        pkg["classes"] = classes
        pkg["short"] = short
        pkgs.append(pkg)
    return pkgs, stats


def nilable(typ):
    return typ.startswith("*") or typ.startswith("[]") or typ.startswith("map[")


def gen_runs(rng, optfields, thorough, nonbool=None, nilables=()):
    """[(entry, [(field, zero?), ...])]; a repeated option is put on a non-bool field when there is one (two bool
    sentinels can coincide).  Options on pointer / slice / map fields also carry the ZERO value (nil): alone (it must
    override a default) and after an earlier non-nil option on the same field (the later nil must win)."""
    nonbool = [f for f in optfields if nonbool is None or f in nonbool]
    nilables = [f for f in optfields if f in nilables]
    runs = []
    nseq = 5 if thorough else 3
    for entry in (0, 1, 2):
        for k in range(nseq):
            if not optfields:
                seq = []
            else:
                ln = rng.choice([0, 1, 2, 2, 3, 3, 4, 4])
                if k == 0 and entry == 0:
                    ln = max(ln, 2)
                seq = [(rng.choice(optfields), False) for _ in range(ln)]
                if ln >= 2 and rng.random() < 0.5:
                    if nonbool:
                        seq[0] = (rng.choice(nonbool), False)
                    seq[-1] = seq[0]                 # a repeated option: the later one must win
                if nilables and (k == 1 or rng.random() < 0.3):
                    f = rng.choice(nilables)
                    style = rng.random()
                    if style < 0.4 or ln == 0:
                        seq = seq[:3] + [(f, True)]                       # nil alone / last: overrides default and NewT's value
                    elif style < 0.8:
                        seq = seq[:2] + [(f, False), (f, True)]           # non-nil, then nil: nil wins
                    else:
                        seq = seq[:2] + [(f, True), (f, False)]           # nil, then non-nil
                seq = [(f, z and f in nilables) for f, z in seq]
            runs.append((entry, seq))
    return runs


def reads_code(pkg, sd, kind, var="v"):
    occ = ctorgen.occurrences(pkg, sd, [])
    out = []
    for o in occ:
        if not (o[3] and o[4]):
            path = ".".join(o[0])
            out.append('\t\tort.Read("%s", %s, func() any { return %s.%s })' % (kind, json.dumps(path), var, path))
    return out


def oracle_for_struct(pkg, sd, optfn, runs, key):
    """optfn: {field: option function name}"""
    T = sd["name"]
    opt_t = "shoot.Option[%s, *%s]" % (T, T)
    lines = []
    # default probes
    dl = []
    for fd in sd["fields"]:
        d = ctorlib.parse_def(fd["doc"])
        if fd["names"] and d != "":
            for n in fd["names"]:
                dl.append('\t\tort.Read("D", %s, func() any { var d %s = %s; return d })'
                          % (json.dumps(n), ctorgen.go_type(fd["ty"]), d))
    lines.append('\tort.Block(%s, func() {' % json.dumps("%s.%s#defs" % key))
    lines += dl
    lines.append('\t})')
    for k, (entry, seq) in enumerate(runs):
        cid = json.dumps("%s.%s#%d" % (key[0], key[1], k))
        args = ", ".join(('ort.ArgZero[%s](%s, %s)' % (opt_t, json.dumps(str(j)), optfn[f])) if z else
                         ('ort.Arg[%s](%s, %s, %d)' % (opt_t, json.dumps(str(j)), optfn[f], 100 + j))
                         for j, (f, z) in enumerate(seq))
        if entry == 0:
            lines.append('\tort.Case(%s, New%s, 0, func(r any) {' % (cid, T))
            lines.append('\t\tv := r.(*%s)' % T)
            lines.append('\t\t_ = v')
            lines += reads_code(pkg, sd, "B")
            lines.append('\t\tw := v.With(%s)' % args)
            lines.append('\t\t_ = w')
            lines += reads_code(pkg, sd, "P", "w")
            lines.append('\t})')
        elif entry == 1:
            lines.append('\tort.Block(%s, func() {' % cid)
            lines.append('\t\tv := &%s{}' % T)
            lines.append('\t\t_ = v')
            lines += reads_code(pkg, sd, "B")
            lines.append('\t\tw := v.With(%s)' % args)
            lines.append('\t\t_ = w')
            lines += reads_code(pkg, sd, "P", "w")
            lines.append('\t})')
        else:
            lines.append('\tort.Block(%s, func() {' % cid)
            lines.append('\t\tv := &%s{}' % T)
            lines.append('\t\t_ = v')
            lines += reads_code(pkg, sd, "B")
            lines.append('\t\tw := shoot.NewWith[%s, *%s](%s)' % (T, T, args))
            lines.append('\t\t_ = w')
            lines += reads_code(pkg, sd, "P", "w")
            lines.append('\t})')
    return "\n".join(lines) + "\n"


def oracle_file(pkg, body, needs_time, needs_helper, modname):
    imps = ['ort "%s/ort"' % modname, '"github.com/lopolopen/shoot"']
    if needs_time:
        imps.append('"time"')
    if needs_helper:
        imps.append('"%s/helper"' % modname)
    head = "package %s\n\nimport (\n%s)\n\n" % (pkg["name"], "".join("\t%s\n" % i for i in imps))
    use = ""
    if needs_time:
        use += "var _ time.Duration\n"
    if needs_helper:
        use += "var _ helper.Kind\n"
    return head + use + "\nfunc VerifOracle() {\n" + body + "}\n"


def observe(run, shoot, sigbin, modname, pkgs):
    mod = ctorlib.setup_module(run, modname)
    plans = []
    for pkg in pkgs:
        flags = ["-opt"] + (["-short"] if pkg["short"] else [])
        plans.append((pkg["name"], ctorlib.prepare_plan(run.rng, pkg, flags, modname)))
    res = ctorlib.run_plans(shoot, mod, plans)
    run.log("shoot ran on %d packages" % len(pkgs))
    sigs = ctorlib.run_ctorsig(sigbin, mod)
    run.log("ctorsig done")
    obs, bodies = {}, {}
    for pkg, r in zip(pkgs, res):
        info = sigs.get("%s/%s" % (modname, pkg["name"]))
        pkg["shoot"] = {"rc": r["rc"], "out": r["out"][-600:], "err": r["err"][-600:], "timed_out": r["timed_out"]}
        status = 2 if r["timed_out"] else (1 if r["rc"] != 0 else 0)
        errs = (info or {}).get("errors", ["ctorsig did not report the package"])
        pkg["type_errors"] = errs
        body = ""
        for sd in pkg["structs"]:
            key = (pkg["name"], sd["name"])
            o = {"status": status, "options": [], "has_setdefault": False, "args": [], "defs": [], "runs": []}
            obs[key] = o
            if status != 0:
                continue
            if errs:
                if "_attr" not in pkg:
                    pkg["_attr"] = ctorlib.attribute_errors(mod / pkg["name"], [x["name"] for x in pkg["structs"]], errs)
                o["status"], o["errors"] = ctorlib.status_from_errors(sd["name"], *pkg["_attr"])
                continue
            st = info["structs"].get(sd["name"])
            if st is None or ("New" + sd["name"]) not in info["funcs"]:
                o["status"] = 6
                o["errors"] = ["New%s / %s missing although the package type-checks" % (sd["name"], sd["name"])]
                continue
            want = "shoot.Option[%s, *%s]" % (sd["name"], sd["name"])
            optfns = {n: f for n, f in info["funcs"].items() if f["results"] == [want] and len(f["params"]) == 1}
            o["options"] = sorted((n, f["params"][0][1]) for n, f in optfns.items())
            o["has_setdefault"] = any(m[0] == "SetDefault" for m in st["methods"])
            # map fields to option functions by the generated naming (the Coq side checks the naming itself)
            byfield = {}
            occ, best = c02.selectable(pkg, sd)
            for name, (d, os_) in best.items():
                fn = pascal(name) if pkg["short"] else pascal(name) + "Of" + sd["name"]
                if fn in optfns:
                    byfield[name] = fn
            nonbool = {f for f, fn in byfield.items() if optfns[fn]["params"][0][1] != "bool"}
            nils = {f for f, fn in byfield.items() if nilable(optfns[fn]["params"][0][1])}
            runs = gen_runs(run.rng, sorted(byfield), run.thorough(), nonbool, nils)
            sd["_runs"] = runs
            body += oracle_for_struct(pkg, sd, byfield, runs, key)
        if body:
            text = "".join(ctorgen.render_go(pkg, modname).values())
            bodies[pkg["name"]] = oracle_file(pkg, body, '"time"' in text, "/helper" in text, modname)
    for d, t in bodies.items():
        l2.write_files(mod / d, {"zz_oracle_verif.go": t})
    oracle_errors = {}
    for attempt in range(4):
        cases, err = ctorlib.build_and_run_oracles(run, mod, modname, sorted(bodies))
        if cases is not None:
            break
        # the oracle of a package does not compile AGAINST THE GENERATED CODE (e.g. NewT cannot be instantiated with
        # the struct's own type arguments in the struct's order): that is an observation about those packages, not a
        # harness failure; they are judged "output unusable" (status 6) and the rest of the batch goes on
        bad = [d for d in ctorlib.failing_packages(err, modname) if d in bodies]
        if not bad or attempt == 3:
            raise lib.CheckBroken("the oracle program does not build: " + err[-4000:])
        for d in bad:
            oracle_errors[d] = [l for l in err.splitlines() if l.startswith(d + "/")][:3]
            (mod / d / "zz_oracle_verif.go").unlink()
            del bodies[d]
    for (pn, sn), o in obs.items():
        if pn in oracle_errors and o["status"] == 0:
            o["status"] = 6
            o["errors"] = ["the oracle (explicit instantiation / calls in the struct's own terms) does not compile against "
                           "the generated code"] + oracle_errors[pn]
    run.log("oracle ran: %d blocks" % len(cases))
    for pkg in pkgs:
        for sd in pkg["structs"]:
            key = (pkg["name"], sd["name"])
            o = obs[key]
            if o["status"] != 0:
                continue
            d = cases.get("%s.%s#defs" % key)
            if d is None:
                o["status"] = 6
                continue
            o["defs"] = [(k, t) for kind, k, t in d["reads"] if kind == "D"]
            for k, (entry, seq) in enumerate(sd["_runs"]):
                c = cases.get("%s.%s#%d" % (key[0], key[1], k))
                if c is None:
                    o["status"] = 6
                    break
                if entry == 0:
                    o["args"] = c["args"]
                rr = {"entry": entry, "fields": [f for f, _ in seq], "zero": [z for _, z in seq],
                      "opttoks": [""] * len(seq), "panic": bool(c["panics"]),
                      "before": [], "after": [], "panics": c["panics"]}
                for kind, kk, tok in c["reads"]:
                    if kind == "A":
                        rr["opttoks"][int(kk)] = tok
                    elif kind == "B":
                        rr["before"].append((kk.split("."), tok))
                    elif kind == "P":
                        rr["after"].append((kk.split("."), tok))
                o["runs"].append(rr)
    return obs, mod


def coq_run(r):
    cs, cl, cp = ctorgen.coq_str, ctorgen.coq_list, ctorlib.coq_path
    return ("{| r_entry := %d; r_fields := %s; r_zero := %s; r_opttoks := %s; r_panic := %s; r_before := %s; r_after := %s |}"
            % (r["entry"], cl([cs(f) for f in r["fields"]]), cl(["true" if z else "false" for z in r["zero"]]),
               cl([cs(t) for t in r["opttoks"]]),
               "true" if r["panic"] else "false",
               ctorlib.coq_pairs(r["before"], cp, cs), ctorlib.coq_pairs(r["after"], cp, cs)))


def coq_flags(short):
    return ("{| fl_getset := false; fl_json := false; fl_tagcase := TagCamel; fl_opt := true; fl_exp := false; "
            "fl_short := %s |}" % ("true" if short else "false"))


def render_cases(pkgs, obs, fuel=FUEL):
    cs = ctorgen.coq_str
    pkgdefs, rendered, index = {}, [], []
    for pkg in pkgs:
        ident = "pkg_" + pkg["name"]
        pkgdefs[ident] = ctorgen.coq_pkg(pkg)
        for sd in pkg["structs"]:
            o = obs[(pkg["name"], sd["name"])]
            term = ("{| oc_pkg := %s; oc_flags := %s; oc_name := %s; oc_fuel := %d; oc_status := %d; oc_options := %s; "
                    "oc_has_setdefault := %s; oc_args := %s; oc_defs := %s; oc_runs := %s |}"
                    % (ident, coq_flags(pkg["short"]), cs(sd["name"]), fuel, o["status"],
                       ctorlib.coq_pairs(o["options"], cs, cs), "true" if o["has_setdefault"] else "false",
                       ctorgen.coq_list([cs(a) for a in o["args"]]), ctorlib.coq_pairs(o["defs"], cs, cs),
                       ctorgen.coq_list([coq_run(r) for r in o["runs"]])))
            rendered.append((term, [ident]))
            index.append((pkg, sd))
    return pkgdefs, rendered, index


NIL_EMBED_PKG = {"name": "wnil", "short": False, "extra_decls": [], "features": {}, "structs": [
    {"pkg": "", "name": "Base", "tparams": [], "doc": "", "comment": [],
     "fields": [ctorgen.fdecl(["z"], ctorgen.T_basic("int"))]},
    {"pkg": "", "name": "Order", "tparams": [], "doc": "", "comment": [],
     "fields": [ctorgen.fdecl([], ("ptr", ctorgen.T_named("", "Base"))), ctorgen.fdecl(["n"], ctorgen.T_basic("int"))]}]}

PROMOTED_PKG = {"name": "wprom", "short": False, "extra_decls": [], "features": {}, "structs": [
    {"pkg": "", "name": "Base", "tparams": [], "doc": "", "comment": [],
     "fields": [ctorgen.fdecl(["z"], ctorgen.T_basic("int"), ["//shoot: def=7"]),
                ctorgen.fdecl(["w"], ctorgen.T_basic("string"))]},
    {"pkg": "", "name": "Order", "tparams": [], "doc": "", "comment": [],
     "fields": [ctorgen.fdecl([], ctorgen.T_named("", "Base")), ctorgen.fdecl(["n"], ctorgen.T_basic("int"))]}]}


def executed_witnesses(run, shoot, sigbin):
    """the two findings that need the generated code to be executed: one small batch"""
    import copy
    pkgs = [copy.deepcopy(NIL_EMBED_PKG), copy.deepcopy(PROMOTED_PKG)]
    for p in pkgs:
        p["order"] = [sd["name"] for sd in p["structs"]]
        p["mode"] = "type"
        p["pre"] = None
    saved = run.rng.getstate()
    obs, _ = observe(run, shoot, sigbin, "c13wit", pkgs)
    run.rng.setstate(saved)
    return obs


def h_nil_embed(wobs):
    def h(e):
        o = wobs.get(("wnil", "Order"))
        if o is None or o["status"] != 0:
            return "other: witness not observed (%s)" % (o and o.get("errors"))
        hit = [r for r in o["runs"] if r["entry"] in (1, 2) and "z" in r["fields"]]
        if not hit:
            return "other: no run with the option z"
        if all(r["panic"] for r in hit):
            return "buggy"
        if not any(r["panic"] for r in hit):
            return "correct"
        return "other: some runs panic, some do not"
    return h


def h_promoted(wobs):
    def h(e):
        o = wobs.get(("wprom", "Order"))
        if o is None or o["status"] != 0:
            return "other: witness not observed (%s)" % (o and o.get("errors"))
        r1 = [r for r in o["runs"] if r["entry"] == 1 and not r["panic"]]
        r2 = [r for r in o["runs"] if r["entry"] == 2 and not r["panic"]]
        if not r1 or not r2:
            return "other: runs missing"

        def z_after(r):
            return dict((tuple(p), t) for p, t in r["after"]).get(("Base", "z"))
        a1 = set(z_after(r) for r in r1 if "z" not in r["fields"])
        a2 = set(z_after(r) for r in r2 if "z" not in r["fields"])
        if not a1 or not a2:
            return "correct" if o["has_setdefault"] is False else "buggy"
        if a1 == {"zero"} and a2 == {"7"}:
            return "buggy"
        if a1 == a2:
            return "correct"
        return "other: With leaves Base.z = %s, NewWith = %s" % (sorted(a1), sorted(a2))
    return h


def main(run):
    run.log("start")
    proof_ok = run.prove("Properties/C13.v", ["Corr/CtorOptCorr.v"])
    shoot = run.build_shoot()
    sigbin = run.build_helper("ctorsig")
    run.log("built")
    wobs = executed_witnesses(run, shoot, sigbin)
    outcome = run.replay_findings(ctor_findings.handlers(run, shoot, "C13", extra={
        "K_opt_nil_embed": h_nil_embed(wobs), "K_opt_promoted_setdefault": h_promoted(wobs)}))
    run.log("findings replayed")

    npk = 900 if run.thorough() else 55
    pkgs, gstats = gen_packages(run, npk)
    obs, mod = observe(run, shoot, sigbin, "c13mod", pkgs)
    pkgdefs, rendered, index = render_cases(pkgs, obs)
    run.log("cases: %d" % len(rendered))
    mism = ctorlib.coq_shards(run, "c13cases", pkgdefs, rendered, "Model.CtorOpt Corr.CtorCorr Corr.CtorOptCorr",
                              "omismatches", "ocase", shard=40)
    verdicts = dict(mism)
    reported = 0
    for idx, v in sorted(mism, key=lambda iv: (iv[1] != 2, iv[0])):
        if v in (1, 2, 4) and reported < 5:
            pkg, sd = index[idx]
            o = obs[(pkg["name"], sd["name"])]
            run.violation({"kind": "property-fails-on-implementation" if v == 2 else "correspondence-broken",
                           "theorem": THEOREMS,
                           "correspondence": "L2:C13:option functions + With/NewWith runs vs Model/CtorOpt.v",
                           "struct": sd["name"], "short": pkg["short"],
                           "spec": {"name": pkg["name"], "structs": [{k: x for k, x in s.items() if not k.startswith("_")}
                                                                     for s in pkg["structs"]],
                                    "extra_decls": pkg["extra_decls"], "short": pkg["short"], "mode": pkg.get("mode"),
                                    "order": pkg.get("order"), "pre": pkg.get("pre"), "generate_line": pkg.get("generate_line")},
                           "sources": ctorgen.render_go(pkg, "c13mod"), "cmd": ctorlib.describe_plan(pkg),
                           "shoot": pkg.get("shoot"), "type_errors": pkg.get("type_errors"), "observed": o,
                           "verdict": v,
                           "how": "run the command in the package directory, then for each run call the entry point "
                                  "(0: New%s(sentinels).With(opts), 1: (&%s{}).With(opts), 2: shoot.NewWith(opts)) with the "
                                  "options of the listed fields in order and read every field" % (sd["name"], sd["name"])},
                          no_input=(v != 2))
            reported += 1
    if not proof_ok and reported == 0:
        run.proof_failure_violation()

    nruns = 0
    nontrivial = set()
    entry_hist, len_hist = {}, {}
    repeats = panics = with_defaults = 0
    nil_opts = nil_after_value = nil_over_default = 0
    for i, (pkg, sd) in enumerate(index):
        o = obs[(pkg["name"], sd["name"])]
        if verdicts.get(i, 0) != 0:
            continue
        for r in o["runs"]:
            nruns += 1
            entry_hist[r["entry"]] = entry_hist.get(r["entry"], 0) + 1
            len_hist[len(r["fields"])] = len_hist.get(len(r["fields"]), 0) + 1
            rep = len(set(r["fields"])) < len(r["fields"])
            zs = r.get("zero", [])
            if any(zs):
                nil_opts += 1
                deffields = {k for k, _ in o["defs"]}
                for j, (f, z) in enumerate(zip(r["fields"], zs)):
                    if z and any(f2 == f and not z2 for f2, z2 in list(zip(r["fields"], zs))[:j]):
                        nil_after_value += 1
                        break
                if any(z and f in deffields for f, z in zip(r["fields"], zs)):
                    nil_over_default += 1
            repeats += rep
            panics += r["panic"]
            with_defaults += bool(o["defs"])
            if rep or (o["defs"] and r["fields"]) or len(r["fields"]) >= 2:
                nontrivial.add(json.dumps([ctorgen.render_struct(sd), pkg["short"], r["entry"], r["fields"], r.get("zero")]))
    compared = sum(1 for i in range(len(index)) if verdicts.get(i, 0) == 0)
    samples = []
    for i in (0, len(index) // 2, len(index) - 1):
        pkg, sd = index[i]
        o = obs[(pkg["name"], sd["name"])]
        samples.append({"package": pkg["name"], "struct": sd["name"], "cmd": ctorlib.describe_plan(pkg),
                        "source": ctorgen.render_struct(sd), "options": o["options"],
                        "runs": [{k: r[k] for k in ("entry", "fields", "zero", "panic", "after")} for r in o["runs"][:3]],
                        "verdict": verdicts.get(i, 0)})
    cov = {
        "evaluations": sum(len(obs[(p["name"], s["name"])]["runs"]) for p, s in index),
        "distinct_nontrivial": len(nontrivial),
        "rule": ("%d generated packages (the C02 grammar without type parameters, 0..N def= directives, value/pointer "
                 "embedding with shadowing), `shoot new -opt` with -short on ~30%% of them; per struct and entry point %d option sequences of "
                 "length 0..4 drawn with repetition from the struct's option functions, for each of the three entry points "
                 "NewT(sentinels).With, (&T{}).With, shoot.NewWith; every leaf is read before and after.  non-trivial = "
                 "distinct (struct, -short, entry, sequence) in agreeing cases where the sequence has >= 2 options, repeats a "
                 "field, or meets a default" % (len(pkgs), 5 if run.thorough() else 3)),
        "samples": samples,
        "traces_validated_against_impl": nruns,
        "programs": len(pkgs),
        "structs": len(index),
        "structs_inside_guard_agreeing": compared,
        "structs_outside_guard_compared_with_model": sum(1 for v in verdicts.values() if v == 3),
        "structs_inside_guard_unobservable_sibling_error": sum(1 for v in verdicts.values() if v == 5),
        "runs_property_not_evaluated": panics,
        "runs_by_entry": {str(k): v for k, v in sorted(entry_hist.items())},
        "runs_by_length": {str(k): v for k, v in sorted(len_hist.items())},
        "runs_with_repeated_option": repeats, "runs_with_nil_option": nil_opts,
        "runs_nil_after_non_nil_same_field": nil_after_value, "runs_nil_option_on_field_with_default": nil_over_default, "runs_panicking_as_modelled": panics,
        "runs_on_types_with_defaults": with_defaults,
        "short_packages": sum(1 for p in pkgs if p["short"]),
        "packages_by_mode": {m: sum(1 for p in pkgs if p.get("mode") == m) for m in ("type", "file", "filesep", "star", "each")},
        "packages_regenerated_over_old_output": sum(1 for p in pkgs if p.get("pre") is not None),
        "generator": gstats,
        "findings_measured": outcome,
        "exhaustive": False,
        "trusted_base": lib.TRUSTED_BASE_COMMON + c02.TRUSTED + [
            "an option is modelled as the assignment t.f = x resolved by Go's selector rule; the generic runtime "
            "shoot.NewWith is modelled as new(T) + SetDefault (if *T has the method) + the options in order; the type "
            "assertion any(t).(defaulter) is modelled by go/types' method set of *T",
        ],
    }
    return run.finish(cov, assumptions=c02.ASSUMPTIONS + [
        "c13_guard additionally: no type parameters (K_opt_generic), no embedded struct with defaults of its own "
        "(K_opt_promoted_setdefault), no excluded field in the struct (K_opt_excluded_field), distinct non-empty "
        "Pascal-cased option names -- with -short distinct package-wide and from the type / constructor names "
        "(K_opt_short_collision)",
        "runs that assign through a nil embedded pointer (zero value / NewWith) must panic and are compared against the "
        "model's Panic outcome (K_opt_nil_embed); the last-wins sentence is not evaluated on them (counted as "
        "runs_property_not_evaluated)",
    ])


def replay(run, path):
    r = json.load(open(path))
    run.prove("Properties/C13.v", ["Corr/CtorOptCorr.v"])
    if "spec" not in r:
        print("nothing to replay (no concrete input in %s)" % path)
        return 0
    shoot = run.build_shoot()
    sigbin = run.build_helper("ctorsig")
    pkg = dict(r["spec"])
    pkg.setdefault("features", {})
    for sd in pkg["structs"]:
        for fd in sd["fields"]:
            fd["ty"] = c02._tuplify(fd["ty"])
    if not pkg.get("mode"):
        pkg["mode"] = "type"
        pkg["order"] = [a for a in r["cmd"].split() if a.startswith("-type=")][0][len("-type="):].split(",")
    if pkg.get("pre"):
        for sd in pkg["pre"]["structs"]:
            for fd in sd["fields"]:
                fd["ty"] = c02._tuplify(fd["ty"])
    obs, mod = observe(run, shoot, sigbin, "c13mod", [pkg])
    pkgdefs, rendered, index = render_cases([pkg], obs)
    mism = ctorlib.coq_shards(run, "c13replay", pkgdefs, rendered, "Model.CtorOpt Corr.CtorCorr Corr.CtorOptCorr",
                              "omismatches", "ocase")
    bad = [(index[i][1]["name"], v) for i, v in mism if v in (1, 2, 4)]
    print("verdicts:", mism)
    if bad:
        print("VIOLATION property=C13 replay=%s" % path)
        return 1
    return 0
