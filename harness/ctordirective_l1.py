"""L1 correspondence of coq/Model/CtorDirective.v with parseNewComment, parseGetSetComment,
parseGetterSetterDoc, parseDefComment, parseJSONTag, parseNewTag of
/repo/internal/constructor/fields.go through /repo/cmd/verifprobe: well-formed
directives in many spellings plus a malformed stream (random bytes of the
directive alphabet)."""
import concurrent.futures as cf

import lib

PREFIX = ["shoot:", "shoot: ", "Shoot: ", "SHOOT:", " shoot: ", "shoot : ", "//shoot: ", "xshoot: ", "shoot ", "shoot:\t"]
WORDS = ["new", "get", "set", "getter", "setter", "def=5", "default=abc", "def=", "def= 8 0 ", "renew", "newx", "new;",
         ";new", " new", "\tnew", "new ", "new\r", "Get", "SET", "New", "def=a=b", "default=6", "_new", "-new", "new-",
         "def=\"a b\"", "DEF=7", "Default=x", "defa=1", "defaul=2", "default =3", "get;set", "geter", "sett", "x",
         "def=;", "def= ", "def=5 ", "getter;", "setter x", ".new", "(new)", "new)", "new,get"]
SEPS = [";", " ", "; ", ";;", "", ",", " ; ", "\t"]
ALPHA = list("shot:new gedf=aul;\n\t_-X1r\r")
TAGPIECES = ['json:"a"', 'new:"-"', 'renew:"-"', 'json:"', 'new:""', 'json:"a,omitempty"', 'xml:"b"', 'new:"x"',
             'json:"-"', 'new:-', 'NEW:"-"', 'json: "a"', 'new:"-', '"', 'jsonnew:"q"', 'new:"a" new:"-"']
TAGALPHA = list('jsonew:"- ,ab`')


def sc(s):
    return "(sc [%s])" % ";".join(str(ord(c)) for c in s)


def gen_docs(rng, n):
    docs = ["", "shoot: new", "shoot:new", "shoot: new\n", "shoot: get;set", "shoot: def=80\n", "shoot: new;def=5;get"]
    for _ in range(n):
        lines = []
        for _ in range(rng.choice([1, 1, 1, 2, 3])):
            r = rng.random()
            if r < 0.75:
                k = rng.choice([1, 1, 2, 2, 3, 4])
                line = rng.choice(PREFIX) + rng.choice(SEPS).join(rng.choice(WORDS) for _ in range(k))
                if rng.random() < 0.15:
                    line += rng.choice([";", " ", "\t", "\r", " x"])
            else:
                line = "".join(rng.choice(ALPHA) for _ in range(rng.randint(0, 24)))
                if rng.random() < 0.5:
                    line = "shoot:" + line
            lines.append(line)
        d = "\n".join(lines)
        if rng.random() < 0.6:
            d += "\n"
        docs.append(d)
    return docs


def gen_tags(rng, n):
    tags = ["", "``", '`new:"-"`', '`json:"a" new:"-"`']
    for _ in range(n):
        if rng.random() < 0.7:
            body = " ".join(rng.choice(TAGPIECES) for _ in range(rng.randint(0, 3)))
        else:
            body = "".join(rng.choice(TAGALPHA) for _ in range(rng.randint(0, 20)))
        tags.append("`" + body.replace("`", "") + "`" if rng.random() < 0.9 else body)
    return tags


def check_directives(run, probe=None, thorough=False):
    """returns (number of calls, list of mismatching calls); (0, []) when the probe cannot be built"""
    if probe is None:
        probe = lib.build_verifprobe(run)
    docs = gen_docs(run.rng, 12000 if thorough else 700)
    tags = gen_tags(run.rng, 6000 if thorough else 400)
    calls = []
    for d in docs:
        calls += [("parseNewComment", [d]), ("parseGetSetComment", [d]), ("parseGetterSetterDoc", [d]),
                  ("parseDefComment", [d])]
    for t in tags:
        calls += [("parseJSONTag", [t]), ("parseNewTag", [t])]
    res = lib.probe_calls(probe, calls)
    if res is None:
        return 0, []
    terms = []
    for (fn, args), r in zip(calls, res):
        a = sc(args[0])
        if isinstance(r[0], dict):
            terms.append("DNewTag %s (sc [0])" % a)       # a panic can match nothing
        elif fn == "parseNewComment":
            terms.append("DNew %s %s" % (a, "true" if r[0] else "false"))
        elif fn == "parseGetSetComment":
            terms.append("DGetSet %s %s %s" % (a, "true" if r[0] else "false", "true" if r[1] else "false"))
        elif fn == "parseGetterSetterDoc":
            terms.append("DGetterSetter %s %s %s" % (a, "true" if r[0] else "false", "true" if r[1] else "false"))
        elif fn == "parseDefComment":
            terms.append("DDef %s %s" % (a, "(Some %s)" % sc(r[0]) if r[1] else "None"))
        elif fn == "parseJSONTag":
            terms.append("DJson %s %s" % (a, sc(r[0])))
        else:
            terms.append("DNewTag %s %s" % (a, sc(r[0])))
    shard = 1200
    mism = []

    def one(k):
        part = terms[k * shard:(k + 1) * shard]
        body = ("From Coq Require Import String List NArith.\nFrom Shoot Require Import Corr.CtorDirectiveCorr.\n"
                "Import ListNotations.\nLocal Open Scope N_scope.\nSet Printing Width 1000000.\nSet Printing Depth 1000000.\n"
                "Definition cases : list dcase := [\n%s\n].\nDefinition M := Eval vm_compute in dmismatches cases.\nPrint M.\n"
                % ";\n".join(part))
        out = run.coq_eval("ctordir_l1_%d" % k, body)
        return [(k * shard + i, v) for i, v in lib.parse_coq_list_pairs(out, "M")]
    with cf.ThreadPoolExecutor(max_workers=6) as ex:
        for r in ex.map(one, range((len(terms) + shard - 1) // shard)):
            mism.extend(r)
    return len(calls), [{"call": calls[i], "go": res[i]} for i, _ in mism]


if __name__ == "__main__":
    run = lib.Run("C00", "quick")
    ok, log = run.coq_make(["Corr/CtorDirectiveCorr.vo"])
    assert ok, log
    n, m = check_directives(run)
    print(n, "calls;", len(m), "mismatches")
    for x in m[:30]:
        print(x)
