"""C05  map: ToX/FromX copy exactly the matching field pairs, by the type rules.

Theorems: coq/Properties/C05.v (write-once, soundness, -way, refutation
witnesses) about coq/Model/Mapper.v / MapperEval.v / MapperSpec.v.
Correspondence (coq/Corr/MapperCorr.v): random src/dest pairs (harness/mapgen.py)
through the real `shoot map`, `go build`, and an oracle program that executes
the generated ToX/FromX on sentinel values; the observed results are compared
inside Coq with the model AND with the declarative reading of the property."""
import collections
import json

import lib
import l2
import mapgen
import mapharness as mh
import transfer_l1

PROP_FILE = "Properties/C05.v"
CORR = ["Corr/MapperCorr.v"]

PALETTE_BASIC = ["int", "int8", "int16", "int32", "int64", "uint", "uint8", "uint16", "uint32", "uint64",
                 "float32", "float64", "string", "bool"]
PALETTE_NAMED = {"MyInt": "int", "MyInt8": "int8", "MyInt32": "int32", "MyInt64": "int64", "MyUint8": "uint8",
                 "MyString": "string", "MyBool": "bool", "MyFloat": "float64", "St": None, "St2": None}


def palette_types(rng, n):
    base = [["basic", b] for b in PALETTE_BASIC] + [["named", "palette", k] for k in PALETTE_NAMED]
    res = list(base)
    for t in base:
        res.append(["ptr", t])
        res.append(["slice", t])
    res += [["map", ["basic", "string"], t] for t in base[:6]] + [["slice", ["ptr", ["named", "palette", "St"]]]]
    pairs = [(a, b) for a in base for b in base]
    for _ in range(n):
        pairs.append((rng.choice(res), rng.choice(res)))
    for t in res:
        pairs.append((t, t))

    # the probe type-checks each expression in its own universe, so a palette-declared named type is
    # never types.Identical to itself; that only matters below a slice/map constructor (elsewhere the
    # conversion rules look at underlying types) -- those pairs are left to the L2 comparison
    def nested_named(t, under=False):
        if t[0] == "named":
            return under
        if t[0] == "ptr":
            return nested_named(t[1], under)
        if t[0] == "slice":
            return nested_named(t[1], True)
        if t[0] == "map":
            return nested_named(t[1], True) or nested_named(t[2], True)
        return False
    return [(a, b) for a, b in pairs if not (nested_named(a) or nested_named(b))]


def l1_match_type(run, probe):
    """mapper.matchType / mayMisConv against Model/MapVal.match_type on the probe's palette"""
    pairs = palette_types(run.rng, 2500 if run.thorough() else 600)
    q = {"src": "?", "dst": "?", "common": "?", "palette": ""}

    def go(t):
        return mapgen.go_type(t, "palette", {"palette": "palette"})
    calls = []
    for a, b in pairs:
        calls.append(("matchType", [go(a), go(b)]))
        calls.append(("mayMisConv", [go(a), go(b)]))
    res = lib.probe_calls(probe, calls)
    if res is None:
        return 0, []
    terms = []
    kept = []
    for k, (a, b) in enumerate(pairs):
        r1, r2 = res[2 * k], res[2 * k + 1]
        if isinstance(r1[0], dict) or isinstance(r2[0], dict):
            raise lib.CheckBroken("verifprobe matchType failed on %s / %s: %s" % (go(a), go(b), r1))
        terms.append("(%s, %s, %s, %s, %s)" % (mapgen.coq_ty(a), mapgen.coq_ty(b), str(bool(r1[0])).lower(),
                                                 str(bool(r1[1])).lower(), str(bool(r2[0])).lower()))
        kept.append((go(a), go(b), r1, r2))
    body = (mh.HEADER + "Definition L := [\n%s\n].\nDefinition M := Eval vm_compute in mt_mismatches L.\nPrint M.\n"
            % ";\n".join(terms))
    out = run.coq_eval("c05_l1_matchtype", body)
    mism = [kept[i] for i, _ in lib.parse_coq_list_pairs(out, "M")]
    return len(pairs), mism


def gen_cases(run, spec, nsets, nil_modes, rt=True):
    """sentinel-filled inputs for the root type in both directions; clean and dirty receivers"""
    rng = run.rng
    sty, dty = mh.root_types(spec, spec["root"])
    way = spec["flags"]["way"]
    cases = []
    for k in range(nsets):
        mode = nil_modes[k % len(nil_modes)]
        sent = mapgen.Sentinels(rng)
        if way != "fromonly":
            cases.append({"dir": "to", "type": spec["root"], "in": mapgen.gen_value(rng, spec, sty, mode, sent), "recv": None})
        if way != "toonly":
            recv = None if k % 2 == 0 else mapgen.gen_value(rng, spec, sty, 0.3, sent)
            cases.append({"dir": "from", "type": spec["root"], "in": mapgen.gen_value(rng, spec, dty, mode, sent),
                          "recv": recv})
    # round trip new(S).FromX(v.ToX()): the same inputs as the ToX cases (every other one) and a fully allocated one
    if way == "both" and rt:
        tos = [c for c in cases if c["dir"] == "to"]
        for c in tos[::2]:
            cases.append({"dir": "rt", "type": spec["root"], "in": c["in"], "recv": None})
        cases.append({"dir": "rt", "type": spec["root"],
                      "in": mapgen.gen_value(rng, spec, sty, 0.0, mapgen.Sentinels(rng)), "recv": None})
        cases.append({"dir": "rt", "type": spec["root"], "in": None, "recv": None})
    # nil receiver / nil argument
    if way != "fromonly":
        cases.append({"dir": "to", "type": spec["root"], "in": None, "recv": None})
    if way != "toonly":
        cases.append({"dir": "from", "type": spec["root"], "in": None, "recv": None})
    # the inner mappers directly (their own nil handling and conversions)
    for j in spec["jobs"]:
        if j["src"] == spec["root"] or rng.random() < 0.5:
            continue
        isty, idty = mh.root_types(spec, j["src"])
        sent = mapgen.Sentinels(rng)
        if way != "fromonly":
            cases.append({"dir": "to", "type": j["src"], "in": mapgen.gen_value(rng, spec, isty, 0.2, sent), "recv": None})
        if way != "toonly":
            cases.append({"dir": "from", "type": j["src"], "in": mapgen.gen_value(rng, spec, idty, 0.2, sent), "recv": None})
    return cases


def finding_handlers(run, shoot):
    def generic(f):
        return mh.witness_outcome(run, shoot, f)

    def universe(f):
        def check(r, mod):
            if r["panicked"]:
                return "buggy"
            if r["rc"] != 0:
                return "other: exit %d %s" % (r["rc"], r["err"][-200:])
            ok, errs = l2.go_build(mod, ("./src",))
            return "correct" if ok else "other: generated code does not build: %s" % str(errs)[:300]
        w = dict(f)
        w["witness"] = dict(f["witness"], args=["map", "-path=../dest", "-type=T"])
        return mh.witness_outcome(run, shoot, w, check)
    return {"K_map_src_named_qualified": generic, "K_map_submap_nonstruct": generic, "K_map_alias_all_pkgs": generic,
            "K_map_roundtrip_nil_embed": generic, "K_map_fanout_target": generic, "K_map_nested_tag_ignored": generic,
            "K_map_dash_accessor": generic, "K_map_ctor_from_tag": generic, "K_map_mapper_ptr_embedded": generic,
            "K_map_tag_underscore": generic, "K_map_embedded_nonstruct": generic,
            "K_map_universe_panic": universe}


def stream(run, shoot, npairs, nsets, tag):
    pairs = []
    fixed = mapgen.corpus()
    for i in range(npairs):
        spec = fixed[i] if i < len(fixed) else mapgen.gen_pair(run.rng, quirks=(i % 8 == 7))
        p = mh.Pair(i, spec)
        p.cases = gen_cases(run, spec, nsets, [0.0, 0.25, 0.6])
        pairs.append(p)
    mh.execute(run, pairs, shoot=shoot, par=4, tag=tag)
    verdicts, guards = mh.coq_verdicts(run, pairs, tag=tag, shard_cases=120, par=4)
    return pairs, verdicts, guards


def report(run, pairs, verdicts, guards, theorem, corr):
    """turn failed pairs and non-zero verdicts into VIOLATION lines (a few)"""
    n = 0
    for p in pairs:
        if p.status != "ok":
            kind = "shoot-map-failed" if p.status == "shoot-failed" else "generated-code-does-not-compile"
            run.violation(mh.replay_dict(p, extra={"kind": kind, "theorem": theorem,
                                                   "note": "pair inside the generator's guard (no open finding applies)"}))
            n += 1
            if n >= 4:
                return n
    by_pair = collections.OrderedDict()
    for (pi, ci), v in sorted(verdicts.items()):
        by_pair.setdefault(pi, []).append((ci, v))
    idx = {p.idx: p for p in pairs}
    for pi, l in by_pair.items():
        ci, v = sorted(l, key=lambda x: -x[1])[0]
        p = idx[pi]
        if ci == -1:
            run.violation(mh.replay_dict(p, extra={"kind": "-way: wrong method set", "methods_observed": p.methods,
                                                   "theorem": "(no theorem: the sentence `-way limits generation` is checked by "
                                                              "reflection on the compiled package only, Corr.way_mismatches)"}))
        elif v == 2:
            run.violation(mh.replay_dict(p, ci, v, {"kind": "property-fails-on-implementation", "theorem": theorem,
                                                    "in_guard": guards.get(pi)}))
        else:
            run.violation(mh.replay_dict(p, ci, v, {"kind": "correspondence-broken" if v == 1 else "model-stuck",
                                                    "correspondence": corr, "in_guard": guards.get(pi)}), no_input=True)
        n += 1
        if n >= 4:
            break
    return n


def main(run):
    proof_ok = run.prove(PROP_FILE, CORR)
    shoot = run.build_shoot()
    probe = lib.build_verifprobe(run)
    # L1: the case transforms + smartMatch, and matchType on the palette
    n_tr, mism_tr = transfer_l1.check_transfer(run, probe, n_random=300 if not run.thorough() else 1500,
                                               maxlen=3 if not run.thorough() else 4)
    for m in mism_tr[:2]:
        run.violation({"kind": "correspondence-broken", "correspondence": "L1:C05:transfer/smartMatch", "call": m}, no_input=True)
    n_mt, mism_mt = l1_match_type(run, probe) if probe else (0, [])
    for m in mism_mt[:2]:
        run.violation({"kind": "correspondence-broken", "correspondence": "L1:C05:matchType vs Model/MapVal.match_type",
                       "call": m}, no_input=True)
    run.replay_findings(finding_handlers(run, shoot))
    npairs = 900 if run.thorough() else 56
    nsets = 4 if run.thorough() else 3
    pairs, verdicts, guards = stream(run, shoot, npairs, nsets, "c05")
    nviol = report(run, pairs, verdicts, guards,
                   "C05_sound_to / C05_sound_from / C05_write_once (and the declarative reading Model/MapperSpec.v)",
                   "L2:C05:generated ToX/FromX vs Model/Mapper.v+MapperEval.v")
    if not proof_ok and not run.violations:
        run.proof_failure_violation()
    ok_pairs = [p for p in pairs if p.status == "ok"]
    ncases = sum(len(p.cases) for p in ok_pairs)
    feats = collections.Counter()
    for p in pairs:
        for f in p.spec["features"]:
            feats[f] += 1
    distinct = set()
    for p in ok_pairs:
        for c in p.cases:
            if c["in"] is not None and c["obs"][0] == "val":
                distinct.add(mh.dumps([p.spec["decls"], p.spec["flags"], c["dir"], c["type"], c["in"]]))
    sample = []
    for p in ok_pairs[:2]:
        c = p.cases[0]
        sample.append({"shoot_args": mapgen.shoot_args(p.spec), "src.go": p.sources["%s/src/src.go" % p.sub],
                       "dest.go": p.sources["%s/dest/dest.go" % p.sub], "case": c})
    cov = {
        "evaluations": ncases + n_tr + n_mt,
        "round_trip_cases": sum(1 for p in ok_pairs for c in p.cases if c["dir"] == "rt"),
        "distinct_nontrivial": len(distinct),
        "rule": ("%d src/dest package pairs: the 28 hand-written corpus pairs of mapgen.corpus() (one per rule of the property and one per finding class of the review: pointer-embedded mapper with value/pointer receivers, tags with `_`, embedded non-struct) and random ones from harness/mapgen.py (numeric widths, strings, named scalars of "
                 "the dest/common packages, sub-structs by value/pointer/slice in all four pointer combinations, "
                 "maps, embedded value/pointer structs to depth 2 with shadowing, map:\"Name\"/map:\"-\" tags, "
                 "mapper-method sets in the source or a separate package incl. duplicate signatures, manual toX/fromX, "
                 "-alias -to -i -way), one in eight leaving the guard through name fan-out; per pair %d sentinel value "
                 "sets per direction with nil probability 0/0.25/0.6, nil receiver and nil argument, clean and dirty "
                 "receivers, plus direct calls of the inner mappers; non-trivial = distinct (pair, direction, type, "
                 "non-nil input) whose call returned a value" % (len(pairs), nsets)),
        "samples": sample,
        "traces_validated_against_impl": ncases,
        "programs": 2 * len(ok_pairs) + 1,
        "pairs": len(pairs), "pairs_compiled": len(ok_pairs),
        "pairs_in_guard": sum(1 for p in ok_pairs if guards.get(p.idx)),
        "l1_transfer_calls": n_tr, "l1_matchtype_calls": n_mt,
        "l1": "skipped (hooks do not build)" if probe is None else "ran",
        "features": dict(sorted(feats.items())),
        "observations": dict(collections.Counter(c["obs"][0] for p in ok_pairs for c in p.cases)),
    }
    return run.finish(cov, assumptions=ASSUMPTIONS)


ASSUMPTIONS = [
    "reading of the property text chosen by the specification (a decision, not a consequence of the text): a `map:\"Name\"` tag "
    "names the destination field as written OR in Pascal form (`map:\"zip_code\"` names ZipCode), so shoot's Pascal-casing "
    "of tag values is not a violation; an embedded field of a non-struct type is a field named after its type; field "
    "declarations have one name each (`A, B int` with a tag is outside the model); `stay zero` of unmatched / map:\"-\" / "
    "incompatible fields is visible only as equality with the declarative specification, it has no theorem of its own",
    "go/types predicates (Identical via shoot.TypeEquals, ConvertibleTo, Underlying) are modelled on the type palette "
    "(Model/MapVal.v) and differentially tested through the L1 probe; aliases, universe-scoped named types, arrays, "
    "channels, functions and interfaces are outside the palette",
    "Go's semantics of the emitted statements (selector resolution through embedded structs, nil dereference, "
    "integer conversion = wrap to the target width, string(int) = UTF-8 of the rune) is the hand-written Model/MapperEval.v; "
    "floating-point values are exercised on small integral values only; string <-> []byte conversions are not exercised",
    "dotted path strings are modelled as component lists (sort.Strings = component-wise order since '.' < identifier bytes)",
    "mapper methods and manual toX/fromX are user code: a parameter of the theorems, instantiated in the correspondence "
    "by the small function grammar of harness/mapgen.py",
    "the theorems guard out the input classes of the open findings K_map_src_named_qualified, K_map_submap_nonstruct, "
    "K_map_alias_all_pkgs, K_map_fanout_target, K_map_nested_tag_ignored, K_map_roundtrip_nil_embed (each replayed on every run); "
    "same-depth ambiguous selectors are outside the grammar",
    "aliasing between the argument and the receiver of FromX is not modelled",
]


def replay(run, path):
    r = json.load(open(path))
    run.prove(PROP_FILE, CORR)
    shoot = run.build_shoot()
    p = mh.Pair(0, r["spec"])
    if r.get("case"):
        c = dict(r["case"])
        c.pop("obs", None)
        p.cases = [c]
    else:
        p.cases = gen_cases(run, r["spec"], 2, [0.0, 0.5])
    mh.execute(run, [p], shoot=shoot, tag="replay")
    if p.status != "ok":
        print("pair status:", p.status, p.shoot, p.errors)
        print("VIOLATION property=%s replay=%s" % (run.prop, path))
        return 1
    v, g = mh.coq_verdicts(run, [p], tag="replay")
    print("observed:", [c["obs"] for c in p.cases][:3], "verdicts:", v, "in guard:", g)
    if v:
        print("VIOLATION property=%s replay=%s" % (run.prop, path))
        return 1
    return 0
